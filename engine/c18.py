"""C18 — independent use from several threads is race free (structural necessary conditions; schedules
are not explored and bit-identity is declined).
Engine E (storage & effect audit over the four library TUs and the header template instantiations):
(1) every object with static or thread storage duration is top-level const/constexpr (initialised
once) or thread_local; (2) no function returns or stores a pointer/reference to a thread-local
scratch object; (3) the const query methods of the solver write only locals and thread-locals: no
assignment, increment or call of a non-const member function on anything reached from `this`, no
const_cast, no mutable field; (4) no call to a function with documented process-global side effects,
except as the initialiser of a once-only `static const` local (C++11 guarantees a single, thread-safe
initialisation); (5) every thread-local object that can hold heap blocks has a destructor that
releases them (storage cached by a thread is given back when the thread ends)."""
from astdb import AnalysisBroken, walk, strip, sig

UNITS = ['SUNalg', 'MatrixExp', 'SQuIDS', 'const', 'instantiate']
DENY = {
    'gsl_rng_env_setup': 'writes the GSL globals gsl_rng_default and gsl_rng_default_seed',
    'gsl_set_error_handler': 'replaces the process-wide GSL error handler',
    'gsl_set_error_handler_off': 'replaces the process-wide GSL error handler',
    'setenv': 'modifies the process environment', 'putenv': 'modifies the process environment',
    'srand': 'seeds the process-wide generator', 'rand': 'uses the process-wide generator state',
    'strtok': 'keeps process-wide parsing state', 'localtime': 'returns a pointer to process-wide storage',
    'gmtime': 'returns a pointer to process-wide storage', 'setlocale': 'changes the process-wide locale',
    'gsl_ieee_env_setup': 'changes the floating-point environment from the process environment',
}
CONST_QUERIES = ('GetExpectationValue', 'GetExpectationValueD', 'GetIntermediateState', 'Get_i', 'Get_x', 'Get_t', 'Get_t_initial',
                 'Get_xrange', 'Get_nx', 'Get_nrhos', 'Get_nscalars', 'GetParams', 'Get_h', 'Get_h_min', 'Get_h_max',
                 'Get_rel_error', 'Get_abs_error', 'Get_NumSteps')


def all_globals(db, units=None):
    seen = {}
    for un in (units or UNITS):
        unit = db.unit(un)
        for g in unit.globals:
            key = (g['name'], g.get('function'), tuple(g.get('l', [0, 0])[1:2]) if g.get('staticLocal') else None)
            if key not in seen:
                seen[key] = (unit, g)
    return seen


def record_table(db, units=None):
    recs = {}
    for un in (units or UNITS):
        for r in db.unit(un).records:
            recs.setdefault(r.get('spec') or r['name'], r)
            recs.setdefault(r['name'], r)
    return recs


def elem_type(t):
    t = t.replace('const ', '').strip()
    while t.endswith(']'):
        t = t[:t.rindex('[')].strip()
    return t


def holds_heap(t, recs, depth=0):
    """does an object of type t (transitively, by value) contain raw pointers?"""
    t = elem_type(t)
    if depth > 6:
        return False
    if t.endswith('*'):
        return True
    r = recs.get(t)
    if r is None:
        return False
    return any(holds_heap(f['t'], recs, depth + 1) for f in r['fields'])


def releases(t, recs, depth=0):
    """does destroying an object of type t run a user-provided destructor somewhere (by value)?"""
    t = elem_type(t)
    if depth > 6:
        return False
    r = recs.get(t)
    if r is None:
        return t.startswith('std::')  # standard containers / smart pointers release what they own
    if r.get('userDtor'):
        return True
    return any(releases(f['t'], recs, depth + 1) for f in r['fields'] if not elem_type(f['t']).endswith('*'))


def check_storage(db, rep, units=None, floors=True):
    globs = all_globals(db, units)
    recs = record_table(db, units)
    n_mut = 0
    tls_objs = []
    for (name, fn, _ln), (unit, g) in sorted(globs.items(), key=lambda x: (x[0][0], x[0][1] or '', str(x[0][2]))):
        site = name + (('@' + fn) if fn else '')
        where = unit.loc(g)
        if g.get('tls'):
            tls_objs.append((site, unit, g))
            rep.ok('E.static')
            continue
        if g.get('const') or g.get('constexpr'):
            rep.ok('E.static')
            continue
        t0 = elem_type(g.get('t', ''))
        if t0.startswith(('std::mutex', 'std::recursive_mutex', 'std::once_flag', 'std::atomic<', 'std::atomic_flag', 'std::shared_mutex')):
            # synchronisation primitives are shared by design; what they protect is judged by the other rules
            rep.ok('E.static')
            rep.notes.append('synchronisation object %s of type %s accepted' % (site, t0))
            continue
        n_mut += 1
        rep.fail('E.static', site, where, 'static storage is top-level const (initialised once) or thread_local',
                 'mutable object of type %s shared by all threads' % g.get('t'), fn)
    if floors:
        rep.floor('E.static', len(globs), 40)
        rep.floor('E.tls', len(tls_objs), 12)
    rep.sample('E.static', '%d objects with static/thread storage: %d thread_local, %d const, %d other' %
               (len(globs), len(tls_objs), len(globs) - len(tls_objs) - n_mut, n_mut))
    # thread-exit: thread-local owners of heap blocks must release them
    import respair
    holder_findings, _n = respair.analyse_holders(db, list(units or UNITS))
    incomplete = {}
    for (rec, member, alloc, hsite, what, where) in holder_findings:
        incomplete.setdefault(rec, []).append((member, alloc, hsite, what, where))
    for site, unit, g in tls_objs:
        t = g.get('t', '')
        if holds_heap(t, recs) and not releases(t, recs):
            rep.fail('E.tls.dtor', g['name'], unit.loc(g), 'a thread-local object that can hold heap blocks releases them when its thread ends',
                     'type %s has no destructor: blocks held at thread exit are lost' % t, g.get('function'))
            continue
        # the destructor exists: it must release every member the class allocates (by value, transitively)
        bad = None
        stack, seen = [elem_type(t)], set()
        while stack and bad is None:
            x = stack.pop()
            if x in seen:
                continue
            seen.add(x)
            if x in incomplete:
                bad = (x, incomplete[x][0])
            r = recs.get(x)
            if r is not None:
                stack.extend(elem_type(f['t']) for f in r['fields'] if not elem_type(f['t']).endswith('*'))
        if bad is not None:
            rec, (member, alloc, hsite, what, where) = bad
            rep.fail('E.tls.dtor', g['name'], where, 'a thread-local object that can hold heap blocks releases them when its thread ends',
                     'thread-local %s is a %s, whose member %s (allocated by %s at %s) is not given back: %s' % (g['name'], rec, member, alloc, hsite, what),
                     g.get('function'))
        else:
            rep.ok('E.tls.dtor')
    return tls_objs


EXEMPT = set()  # lock-guarded mutable fields and synchronisation members: judged by the lock rule instead


def root_is_this(e):
    """is the object designated by expression e reached from `this` (member access, subscripts, dereferences, get())?"""
    e = strip(e)
    seen = 0
    while e is not None and seen < 50:
        seen += 1
        k = e.get('k')
        if k == 'CXXThisExpr':
            return True
        if k == 'MemberExpr':
            if e.get('member') in EXEMPT:
                b0 = strip(e['c'][0]) if e.get('c') else None
                if b0 is None or b0.get('k') == 'CXXThisExpr':
                    return False
            e = strip(e['c'][0]) if e.get('c') else None
        elif k in ('ArraySubscriptExpr',):
            e = strip(e['c'][0])
        elif k == 'UnaryOperator' and e.get('op') in ('*', '&'):
            e = strip(e['c'][0])
        elif k == 'CXXOperatorCallExpr' and e.get('oop') in ('[]', '*', '->'):
            e = strip(e['args'][0])
        elif k == 'CXXMemberCallExpr' and (e.get('callee') or '').split('::')[-1] in ('get', 'operator->', 'operator*', 'operator[]', 'front', 'back', 'data', 'begin', 'end'):
            me = strip(e['fn'])
            e = strip(me['c'][0]) if me and me.get('c') else None
        else:
            return False
    return False


SYNC_TYPES = ('std::mutex', 'std::recursive_mutex', 'std::once_flag', 'std::atomic<', 'std::atomic_flag', 'std::shared_mutex', 'std::timed_mutex')
LOCK_TYPES = ('std::lock_guard<', 'std::unique_lock<', 'std::scoped_lock<')


def children(n):
    for k in ('decls', 'dims', 'inits', 'params'):
        for v in n.get(k) or []:
            yield v
    for k in ('range', 'var', 'lhs', 'sub', 'body', 'inc', 'else', 'then', 'cond', 'init', 'condvar', 'size', 'fn'):
        v = n.get(k)
        if isinstance(v, dict):
            yield v
        elif isinstance(v, list):
            for x in v:
                yield x
    for k in ('args', 'c'):
        for v in n.get(k) or []:
            yield v


def unlocked_accesses(body, data_fields, sync_fields):
    """member accesses to the given mutable data fields that are not dominated, in an enclosing block, by the
    declaration of a scoped lock (lock_guard / unique_lock / scoped_lock) on one of the object's own mutexes"""
    out = []

    def is_lock_decl(st):
        if not isinstance(st, dict) or st.get('k') != 'DeclStmt':
            return False
        for d in st.get('decls') or []:
            if d.get('k') == 'VarDecl' and elem_type(d.get('t', '')).startswith(LOCK_TYPES) and d.get('init') is not None:
                if any(x.get('k') == 'MemberExpr' and x.get('member') in sync_fields for x in walk(d['init'])):
                    return True
        return False

    def visit(n, locked):
        if isinstance(n, list):
            for x in n:
                visit(x, locked)
            return
        if not isinstance(n, dict):
            return
        if n.get('k') == 'CompoundStmt':
            l = locked
            for st in n.get('c') or []:
                visit(st, l)
                if is_lock_decl(st):
                    l = True
            return
        if n.get('k') == 'MemberExpr' and n.get('member') in data_fields and not locked:
            base = strip(n['c'][0]) if n.get('c') else None
            if base is None or base.get('k') == 'CXXThisExpr':
                out.append(n)
        if n.get('k') == 'LambdaExpr':
            locked = False  # a closure may run after the lock is gone
        for ch in children(n):
            visit(ch, locked)

    visit(body, False)
    return out


def check_const_queries(db, rep, unit_name='SQuIDS', floors=True, record='squids::SQuIDS'):
    unit = db.unit(unit_name)
    n = 0
    recs = [r for r in unit.records if r['name'] == record]
    if not recs:
        raise AnalysisBroken('record %s not found' % record)
    mut = [f for f in recs[0]['fields'] if f.get('mutable')]
    sync_fields = set(f['name'] for f in mut if elem_type(f['t']).startswith(SYNC_TYPES))
    data_fields = set(f['name'] for f in mut if f['name'] not in sync_fields)
    guarded_mutable = bool(data_fields) and any(elem_type(f['t']).startswith(('std::mutex', 'std::recursive_mutex', 'std::shared_mutex', 'std::timed_mutex'))
                                                for f in mut)
    if data_fields and not guarded_mutable:
        rep.fail('E.const.write', 'SQuIDS/mutable', unit.loc(recs[0]), 'no mutable data field in the solver (unless every access is made under a scoped lock on a mutex of the object)',
                 'mutable: %s, and the object has no mutex' % sorted(data_fields), record)
    elif data_fields:
        # mutable data guarded by the object's own mutex: every access in every const member function must be
        # dominated by a scoped lock, and no const member function may hand out a pointer or reference to it
        for f in unit.functions:
            if f.get('record') != record or not f.get('const'):
                continue
            bad = unlocked_accesses(f['body'], data_fields, sync_fields)
            ret = f.get('ret', '')
            esc = None
            if ret.endswith('*') or ret.endswith('&'):
                for node in walk(f.get('body')):
                    if node.get('k') == 'ReturnStmt' and any(x.get('k') == 'MemberExpr' and x.get('member') in data_fields for x in walk(node)):
                        esc = node
            if bad:
                rep.fail('E.const.write', '%s/unlocked:%s' % (sig(f), bad[0].get('member')), unit.loc(bad[0]),
                         'mutable data of the solver is touched by const member functions only under a scoped lock on the object\'s mutex',
                         'access to mutable field %s without a dominating lock_guard/unique_lock/scoped_lock' % bad[0].get('member'), sig(f))
            elif esc is not None:
                rep.fail('E.const.write', '%s/escape' % sig(f), unit.loc(esc), 'lock-protected mutable data does not leave the locked region by pointer or reference',
                         'returns %s derived from a mutable field' % ret, sig(f))
            else:
                rep.ok('E.const.write')
        rep.notes.append('mutable fields %s accepted: every access in const member functions is dominated by a scoped lock' % sorted(data_fields))
    EXEMPT.clear()
    EXEMPT.update(sync_fields)
    if guarded_mutable:
        EXEMPT.update(data_fields)
    for f in unit.functions:
        if f.get('record') != record or not f.get('const'):
            continue
        # every const member function is held to the rule (helpers called by the queries included);
        # the named queries are the floor
        if f['qname'].split('::')[-1] in CONST_QUERIES:
            n += 1
        rep.fn(sig(f))
        bad = None
        for node in walk(f['body']):
            k = node.get('k')
            if k in ('BinaryOperator', 'CompoundAssignOperator') and node.get('op', '').endswith('=') and node.get('op') not in ('==', '!=', '<=', '>='):
                if root_is_this(node['c'][0]):
                    bad = (node, 'assignment to solver state')
                    break
            elif k == 'UnaryOperator' and node.get('op') in ('++', '--') and root_is_this(node['c'][0]):
                bad = (node, 'increment of solver state')
                break
            elif k == 'CXXConstCastExpr':
                bad = (node, 'const_cast')
                break
            elif k == 'CXXMemberCallExpr' and not node.get('constMethod') and not node.get('staticMethod'):
                me = strip(node['fn'])
                base = strip(me['c'][0]) if me and me.get('c') else None
                if base is not None and root_is_this(base) and (node.get('callee') or '').split('::')[-1] not in ('get', 'begin', 'end'):
                    bad = (node, 'call of the non-const member function %s on solver state' % node.get('callee'))
                    break
            elif k == 'CXXOperatorCallExpr' and not node.get('constMethod') and node.get('oop') in ('=', '+=', '-=', '*=', '/=', '++', '--'):
                if node.get('args') and root_is_this(node['args'][0]):
                    bad = (node, 'operator%s applied to solver state' % node.get('oop'))
                    break
            if k in ('CallExpr', 'CXXMemberCallExpr', 'CXXOperatorCallExpr', 'CXXConstructExpr'):
                # storage reached from the object handed to a callee through a pointer to non-const (what a smart pointer
                # member's get() yields even in a const member function): the callee may write the shared object
                for a in node.get('args') or []:
                    t = (a.get('t') or '').strip()
                    if t.endswith('*') or t.endswith('*const'):
                        pointee = t[:t.rindex('*')]
                        if 'const' not in pointee.split() and root_is_this(a):
                            bad = (node, 'storage of the solver is passed as %s to %s, which may write it' % (t, node.get('callee') or 'a callee'))
                            break
                if bad:
                    break
        if bad:
            rep.fail('E.const.write', sig(f), unit.loc(bad[0]), 'a const query writes only locals and thread-locals', bad[1], sig(f))
        else:
            rep.ok('E.const.write')
    if floors:
        rep.floor('E.const.write', n, 7)


def check_deny(db, rep, units=None):
    n_sites = 0
    for un in (units or UNITS):
        unit = db.unit(un)
        for f in unit.functions:
            body_nodes = list(walk(f.get('body'))) + [x for ini in (f.get('inits') or []) for x in walk(ini.get('init'))]
            # once-only initialisers: `static const T x = denied();` (function-local static, not thread_local, top-level const)
            once = set()
            for node in body_nodes:
                if node.get('k') == 'VarDecl' and node.get('staticLocal') and not node.get('tls') and node.get('init') is not None:
                    t = node.get('t', '')
                    if t.endswith('const') or t.startswith('const ') and not t.rstrip().endswith('*'):
                        for x in walk(node['init']):
                            once.add(id(x))
            for node in body_nodes:
                if node.get('k') == 'CallExpr' and (node.get('callee') or '') in DENY:
                    n_sites += 1
                    if id(node) in once:
                        rep.ok('E.deny')
                        rep.sample('E.deny', '%s called once as the initialiser of a static const local in %s' % (node['callee'], f['name']))
                    else:
                        rep.fail('E.deny', '%s@%s' % (node['callee'], f['name']), unit.loc(node),
                                 'no call with process-global side effects outside a once-only static const initialiser',
                                 '%s %s; this call runs once per thread / per call and can execute concurrently' % (node['callee'], DENY[node['callee']]), f['name'])
    if n_sites == 0:
        rep.ok('E.deny')


def check_escape(db, rep, tls_objs, units=None):
    """no interface function returns the address of / a reference to a thread-local object"""
    n = 0
    local_helpers = []
    for un in (units or UNITS):
        unit = db.unit(un)
        for f in unit.functions:
            ret = f.get('ret', '')
            if not (ret.endswith('*') or ret.endswith('&')):
                continue
            # a helper that is defined in a source file and is no class member can only be called from that file: handing
            # its thread-local scratch to such a caller, on the same thread, is no escape (what the caller does with it is
            # judged where it happens: a return from an interface function, or a store into shared state, below)
            if not f.get('record') and str(unit.loc(f)).startswith('src/'):
                local_helpers.append((unit, f))
                continue
            for node in walk(f.get('body')):
                if node.get('k') == 'ReturnStmt':
                    for x in walk(node):
                        if x.get('k') == 'DeclRefExpr' and x.get('tls'):
                            n += 1
                            rep.fail('E.escape', f['name'], unit.loc(node), 'thread-local scratch never escapes by pointer or reference',
                                     'returns %s derived from thread-local %s' % (ret, x.get('name')), f['name'])
    # ... and a file-local helper that returns its thread-local scratch: an interface function that passes the result on,
    # or a static initialised from it, is the escape
    helper_names = set()
    for hu, hf in local_helpers:
        if any(x.get('k') == 'DeclRefExpr' and x.get('tls') for node in walk(hf.get('body')) if node.get('k') == 'ReturnStmt' for x in walk(node)):
            helper_names.add(hf['name'])
    if helper_names:
        for un in (units or UNITS):
            unit = db.unit(un)
            for f in unit.functions:
                ret = f.get('ret', '')
                interface = f.get('record') or not str(unit.loc(f)).startswith('src/')
                for node in walk(f.get('body')):
                    if node.get('k') == 'ReturnStmt' and interface and (ret.endswith('*') or ret.endswith('&')):
                        if any(x.get('k') == 'CallExpr' and x.get('callee') in helper_names for x in walk(node)):
                            n += 1
                            rep.fail('E.escape', f['name'], unit.loc(node), 'thread-local scratch never escapes by pointer or reference',
                                     'returns %s obtained from %s, which hands out its thread-local scratch' % (ret, sorted(helper_names)[0]), f['name'])
                    if node.get('k') == 'VarDecl' and node.get('staticLocal') and not node.get('tls') and node.get('init') is not None:
                        if any(x.get('k') == 'CallExpr' and x.get('callee') in helper_names for x in walk(node['init'])):
                            n += 1
                            rep.fail('E.escape', '%s@%s' % (node.get('name'), f['name']), unit.loc(node), 'thread-local scratch never escapes by pointer or reference',
                                     'static %s (shared by all threads) is initialised from %s, which hands out its thread-local scratch' % (node.get('name'), sorted(helper_names)[0]), f['name'])
    # the address of a thread-local object stored in an object that all threads share (a non-thread-local static):
    # every thread then works on the storage of whichever thread ran the initialiser
    for un in (units or UNITS):
        unit = db.unit(un)
        decls = []
        for f in unit.functions:
            for node in walk(f.get('body')):
                if node.get('k') == 'VarDecl' and node.get('staticLocal') and not node.get('tls') and node.get('init') is not None:
                    decls.append((node, f['name']))
        for g in unit.globals:
            d = g.get('decl')
            if d is not None and not g.get('tls') and d.get('init') is not None:
                decls.append((d, g.get('function')))
        for d, fn in decls:
            t = d.get('t', '')
            if not ('*' in t or '&' in t or d.get('ref')):
                continue
            for x in walk(d['init']):
                if x.get('k') == 'DeclRefExpr' and x.get('tls'):
                    n += 1
                    rep.fail('E.escape', '%s@%s' % (d.get('name'), fn or 'namespace scope'), unit.loc(d), 'thread-local scratch never escapes by pointer or reference',
                             'static %s %s (shared by all threads) is initialised from the thread-local object %s' % (t, d.get('name'), x.get('name')), fn)
                    break
    if n == 0:
        rep.ok('E.escape')


def run(db, rep, tier):
    rep.trusted += ['clang 14 AST of the four library TUs and driver/instantiate.cpp', 'storage classes, constness and destructor information as reported by clang',
                    'C++11 thread-safe initialisation of function-local statics', 'denied callee table: ' + ', '.join(sorted(DENY))]
    rep.declined += ['exploration of schedules', 'bit-identity of results across threads']
    tls = check_storage(db, rep)
    check_const_queries(db, rep)
    check_deny(db, rep)
    check_escape(db, rep, tls)
    import fixtures
    fixtures.controls_c18(rep)
