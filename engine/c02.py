"""C02 — commutator, anticommutator and scalar product equal their matrix definitions.
Engine A: the bilinear form of every output slot of the iCommutator / ACommutator kernels and
the SUTrace loop are extracted for d=2..6 and compared with i[A,B], {A,B}, Tr(AB) expanded over
the basis extracted from the conversion table (C01)."""
from guarded import same, explain
from astdb import AnalysisBroken
from interp import Interp, Obj, Cell, Thrown, ITE
from kernels import make_suv
from poly import Poly, CPoly, mat_mul, mat_sub, mat_add, mat_scale, mat_trace
import basis
import proxies

DIMS = basis.DIMS


def sym_matrices(db, d):
    A = basis.matrix_from(db, d, [Poly.var('a%d' % k) for k in range(d * d)])
    B = basis.matrix_from(db, d, [Poly.var('b%d' % k) for k in range(d * d)])
    return A, B


def oracle_tables(db, d):
    A, B = sym_matrices(db, d)
    AB = mat_mul(A, B)
    BA = mat_mul(B, A)
    comm = mat_scale(mat_sub(AB, BA), CPoly(0, 1))  # i(AB-BA)
    acomm = mat_add(AB, BA)
    return basis.project(db, d, comm), basis.project(db, d, acomm), mat_trace(AB)


def kernel_table(db, op, d, wrapper='AssignWrapper', aligned=False):
    a, _ = make_suv('A', d, 'a')
    b, _ = make_suv('B', d, 'b')
    proxy, ef = proxies.build_proxy(db, op, a, b, proxies.ProxyHooks())
    tgt, hooks, cf = proxies.run_compute(db, op, proxy, d, wrapper, aligned)
    return tgt, hooks, cf, ef


def check_tables(db, rep, tier):
    unit = db.unit('instantiate')
    counts = {'A.comm.table': 0, 'A.acomm.table': 0}
    for d in DIMS:
        try:
            ocomm, oacomm, otr = oracle_tables(db, d)
        except (AnalysisBroken, Thrown) as e:
            rep.break_('basis for dimension %d unavailable: %s' % (d, e))
            continue
        for op, rule, oracle, fam in (('iCommutator', 'A.comm.table', ocomm, 'iConmutatorSU%d.txt'),
                                      ('ACommutator', 'A.acomm.table', oacomm, 'AnticonmutatorSU%d.txt')):
            combos = [('AssignWrapper', False)]
            if tier == 'thorough':
                combos += [('IncrementWrapper', False), ('DecrementWrapper', True)]
            for w, al in combos:
                try:
                    tgt, hooks, cf, ef = kernel_table(db, op, d, w, al)
                except Thrown as t:
                    rep.fail(rule, '%s/%d' % (op, d), unit.loc(t.node), 'kernel for dimension %d' % d, 'throw: %s' % t.what)
                    continue
                rep.fn(cf['name'])
                rep.fn(ef['name'])
                where = 'include/SQuIDS/SU_inc/' + fam % d
                writes = {}
                for reg, off, kind, loc in hooks.wrapper_calls:
                    if reg is tgt:
                        writes.setdefault(off, []).append(loc)
                for k in range(d * d):
                    counts[rule] += 1
                    want_re, want_im = oracle[k]
                    T = Poly.var('T%d' % k)
                    want = {'AssignWrapper': want_re, 'IncrementWrapper': T + want_re, 'DecrementWrapper': T - want_re}[w]
                    got = tgt.cell(k).value
                    site = '%s/%d/slot%d' % (op, d, k) + ('' if w == 'AssignWrapper' else '/' + w)
                    loc = (writes.get(k) or [where])[0]
                    if not want_im.is_zero():
                        rep.break_('oracle for %s is not Hermitian (basis broken)' % site)
                        continue
                    if len(writes.get(k, [])) != 1:
                        rep.fail(rule, site, loc, 'slot %d written exactly once' % k, 'written %d times' % len(writes.get(k, [])), cf['name'])
                        continue
                    if same(got, want):
                        rep.ok(rule)
                        if k == d * d - 1:
                            rep.sample(rule, '%s d=%d slot %d: %s' % (op, d, k, str(got)[:200]))
                    else:
                        diffs = got.diff_terms(want) if isinstance(got, Poly) else [repr(got)]
                        rep.fail(rule, site, loc, 'coefficient table of %s over the extracted basis' %
                                 ('i[A,B]' if op == 'iCommutator' else '{A,B}'), '; '.join(diffs), cf['name'])
    rep.floor('A.comm.table', counts['A.comm.table'], 90)
    rep.floor('A.acomm.table', counts['A.acomm.table'], 90)


def check_trace(db, rep):
    unit = db.unit('instantiate')
    n = 0
    for flags in ('0U', '4U'):
        f = db.one('instantiate', 'squids::SUTrace<%s>' % flags, 2)
        rep.fn(f['name'])
        for d in DIMS:
            n += 1
            try:
                _, _, otr = oracle_tables(db, d)
            except (AnalysisBroken, Thrown):
                continue
            a, _ = make_suv('A', d, 'a')
            b, _ = make_suv('B', d, 'b')
            it = Interp(unit, proxies.ProxyHooks())
            try:
                r = it.call(f, None, [a, b])
            except Thrown as t:
                rep.fail('A.trace.form', 'SUTrace<%s>/%d' % (flags, d), unit.loc(t.node), 'trace value', 'throw: %s' % t.what, f['name'])
                continue
            if isinstance(r, Poly) and r.equals(otr.re) and otr.im.is_zero():
                rep.ok('A.trace.form')
                if d == 3:
                    rep.sample('A.trace.form', 'SUTrace<%s> d=3: %s' % (flags, r))
            else:
                diffs = r.diff_terms(otr.re) if isinstance(r, Poly) else [repr(r)]
                rep.fail('A.trace.form', 'SUTrace<%s>/%d' % (flags, d), unit.loc(f), 'Tr(AB) over the extracted basis',
                         '; '.join(diffs), f['name'])
    rep.floor('A.trace.form', n, 10)
    # the scalar product operator forwards both operands in order to SUTrace
    f = db.one('instantiate', 'squids::SU_vector::operator*', 1, lambda f: f['params'][0]['t'] == 'const squids::SU_vector &')
    rep.fn(f['name'])
    for d in (2, 3):
        a, _ = make_suv('A', d, 'a')
        b, _ = make_suv('B', d, 'b')
        _, _, otr = oracle_tables(db, d)
        it = Interp(unit, proxies.ProxyHooks())
        r = it.call(f, a, [b])
        if isinstance(r, Poly) and r.equals(otr.re):
            rep.ok('A.trace.form')
        else:
            rep.fail('A.trace.form', 'operator*/%d' % d, unit.loc(f), 'Tr(AB)', str(r), f['name'])


def check_expression_product(db, rep):
    """the scalar product of two unevaluated expressions is the trace of the product of their values - also when they are
    of one kind and over one and the same vector object and differ only in a parameter (the scalar of a multiplication)"""
    unit = db.unit('instantiate')
    prefix = 'squids::detail::EvaluationProxy<squids::detail::MultiplicationProxy>::operator*<squids::detail::MultiplicationProxy'
    fs = [g for g in unit.functions if g['name'].startswith(prefix) and g.get('body') is not None and len(g['params']) == 1]
    fs = list({g['id']: g for g in fs}.values())
    if len(fs) != 1:
        raise AnalysisBroken('the product of two scaled vectors is not instantiated in the driver unit (%d definitions)' % len(fs))
    f = fs[0]
    rep.fn(f['name'])
    n = 0
    for d in (2, 3):
        for same_object in (True, False):
            n += 1
            _, _, otr = oracle_tables(db, d)
            a, _ = make_suv('A', d, 'a')
            b = a if same_object else make_suv('B', d, 'b')[0]
            hooks = proxies.ProxyHooks()
            p1, _ = proxies.build_proxy(db, 'Multiplication', a, None, hooks, scalar=Poly.var('s1'))
            p2, _ = proxies.build_proxy(db, 'Multiplication', b, None, hooks, scalar=Poly.var('s2'))
            it = Interp(unit, hooks)
            site = 'expression*expression/%d/%s' % (d, 'one vector, scalars s1 and s2' if same_object else 'two vectors')
            try:
                r = it.call(f, Cell(p1, None, 0, 'e1'), [Cell(p2, None, 0, 'e2')])
            except Thrown as t:
                rep.fail('A.trace.form', site, unit.loc(t.node), 'trace value', 'throw: %s' % t.what, f['name'])
                continue
            m = {}
            for k in range(d * d):
                m[('v', 'a%d' % k)] = Poly.var('s1') * Poly.var('a%d' % k)
                m[('v', 'b%d' % k)] = Poly.var('s2') * Poly.var(('a%d' if same_object else 'b%d') % k)
            want = otr.re.subst(m)
            if isinstance(r, (Poly, ITE)) and same(r, want):
                rep.ok('A.trace.form')
            else:
                rep.fail('A.trace.form', site, unit.loc(f), '(s1 A)*(s2 B) = s1 s2 Tr(AB)', explain(r, want) if isinstance(r, ITE) else '; '.join(r.diff_terms(want, limit=3)) if isinstance(r, Poly) else repr(r),
                         f['name'])
    rep.floor('A.trace.expr', n, 4)


def check_derived(db, rep):
    """thorough tier: consequences recomputed from the extracted tables (redundant with the table rules)"""
    for d in DIMS:
        tc, _, _, _ = kernel_table(db, 'iCommutator', d)
        ta, _, _, _ = kernel_table(db, 'ACommutator', d)
        swap = {}
        for k in range(d * d):
            swap[('v', 'a%d' % k)] = Poly.var('b%d' % k)
            swap[('v', 'b%d' % k)] = Poly.var('a%d' % k)
        ok_c = all(tc.cell(k).value.subst(swap).equals(-tc.cell(k).value) for k in range(d * d))
        ok_a = all(ta.cell(k).value.subst(swap).equals(ta.cell(k).value) for k in range(d * d))
        id0 = tc.cell(0).value.equals(Poly())
        # Tr(A i[A,B]) = 0 : d*a0*c0 + 2 sum a_k c_k
        tr = Poly()
        for k in range(d * d):
            tr = tr + Poly.var('a%d' % k) * tc.cell(k).value * (d if k == 0 else 2)
        for name, ok in (('antisymmetry', ok_c), ('symmetry', ok_a), ('identity-slot', id0), ('TrA[A,B]', tr.equals(Poly()))):
            if ok:
                rep.ok('A.derived')
            else:
                rep.fail('A.derived', '%s/%d' % (name, d), 'include/SQuIDS/SU_inc', name + ' of the extracted table', 'violated')


def run(db, rep, tier):
    rep.trusted += ['clang 14 AST of /repo sources under the build flags', 'sqdump extractor + abstract interpreter',
                    'mpmath 50-digit arithmetic; real-number semantics; literals within 4e-15 relative',
                    'basis matrices are those extracted from GetGSLMatrix (their normalisation is a C01 obligation)']
    rep.declined += ['the rounding bound proportional to |A||B|']
    check_tables(db, rep, tier)
    check_trace(db, rep)
    check_expression_product(db, rep)
    if tier == 'thorough':
        check_derived(db, rep)
