"""Engine B — ownership typestate for SU_vector.

Each lifecycle function is abstractly interpreted from every abstract entry state (storage kind
of each participating object: empty / self-owned / externally backed, dimension 2 or 3, alias
pattern) and every resolution of the environment's choices (block addresses modulo 32, block
cache hit/miss, cache accepts/refuses an insert, an allocation fails).  Heap blocks are tokens;
`new[]`, `delete[]`, cache insert/fetch move tokens between *live / cached / freed*.  On every exit
(normal and exceptional) the ownership invariant and the token accounting are checked; since
every operation preserves the invariant from every state satisfying it, it holds after every
finite history (induction), which is what C08/C15/C16 quantify over.  Component data are
symbolic, so the values left in the target can be compared with the naive evaluation (C09).
"""
import itertools

from astdb import AnalysisBroken
from interp import (Interp, Hooks, Obj, Cell, Ptr, Region, Thrown, Unsupported, OutOfBounds, Opaque, NULL, UNDEF, Ref, ArrayView)
from kernels import SUV
from poly import Poly
from stdmodel import StdHooks

MAXD = 6


class Violation(Exception):
    def __init__(self, rule, what, where=None):
        self.rule = rule
        self.what = what
        self.where = where

    def __str__(self):
        return '%s: %s%s' % (self.rule, self.what, (' at ' + self.where) if self.where else '')


class Choices:
    """deterministic replay of environment choices; enumerate all sequences by DFS"""

    def __init__(self, prefix=()):
        self.prefix = list(prefix)
        self.pos = 0
        self.log = []  # (label, chosen, n)

    def pick(self, label, n):
        if n <= 1:
            return 0
        if self.pos < len(self.prefix):
            c = self.prefix[self.pos]
        else:
            c = 0
        self.pos += 1
        self.log.append((label, c, n))
        return c


def enumerate_choices(run, limit=4000):
    """run(choices) is called for every choice sequence; yields (choices, result)"""
    stack = [()]
    count = 0
    while stack:
        prefix = stack.pop()
        ch = Choices(prefix)
        res = run(ch)
        count += 1
        if count > limit:
            raise AnalysisBroken('choice enumeration exceeded %d runs' % limit)
        yield ch, res
        # expand: for positions beyond the prefix, try the other alternatives
        for i in range(len(prefix), len(ch.log)):
            label, c, n = ch.log[i]
            base = [x[1] for x in ch.log[:i]]
            for alt in range(1, n):
                stack.append(tuple(base + [alt]))


class Block:
    """metadata of a heap / external block"""

    def __init__(self, region, kind, site, addr):
        self.region = region
        self.kind = kind  # 'heap' | 'ext'
        self.site = site
        self.state = 'live'  # live | freed | cached
        self.addr = addr  # abstract address of element 0 (only the residue modulo 32 matters)
        self.entry = False
        self.cached_offset = None


class World:
    """heap, block cache and the set of SU_vector objects under observation for one run"""

    def __init__(self, choices, fail_alloc_at=None):
        self.ch = choices
        self.blocks = []
        self.cache = {}  # dim -> list of (block, offset)
        self.objects = []  # (name, cell, role)
        self.events = []
        self.alloc_count = 0
        self.fail_alloc_at = fail_alloc_at
        self.alloc_sites = []

    def new_block(self, n, kind, site, addr=None, entry=False):
        r = Region('%s#%d' % (kind, len(self.blocks)), n, None, kind)
        if addr is None:
            addr = (0, 8, 24)[self.ch.pick('address of %s' % r.name, 3)]
        b = Block(r, kind, site, addr)
        b.entry = entry
        r.meta['block'] = b
        self.blocks.append(b)
        return b

    def block_of(self, ptr):
        if isinstance(ptr, Ptr) and ptr.region is not None:
            return ptr.region.meta.get('block')
        return None


ENTRY_OFFSETS = {'a': 1, 'b': 2, 'v': 3, 'o': 2, 'V': 1}


def mk_vector(world, name, kind, d, prefix, offset_choice=True):
    """abstract SU_vector in one of the invariant-satisfying states"""
    o = Obj(SUV, None, name)
    if kind == 'empty':
        o.field('dim').value = 0
        o.field('size').value = 0
        o.field('components').value = NULL
        o.field('ptr_offset').value = 0
        o.field('isinit').value = 0
        o.field('isinit_d').value = 0
    elif kind == 'owned':
        # distinct hidden offsets per participant: an offset copied from the wrong operand must be visible
        off = ENTRY_OFFSETS.get(name, 1) if offset_choice else 0
        b = world.new_block(d * d + 3, 'heap', 'entry state of ' + name, addr=(32 - 8 * off - (8 if d % 2 else 0)) % 32, entry=True)
        b.region.make = lambda k, p=prefix, o_=off: Poly.var('%s%d' % (p, k - o_)) if 0 <= k - o_ < d * d else UNDEF
        o.field('dim').value = d
        o.field('size').value = d * d
        o.field('components').value = Ptr(b.region, off)
        o.field('ptr_offset').value = off
        o.field('isinit').value = 1
        o.field('isinit_d').value = 0
    elif kind == 'plain':
        # self-owned storage as the component-list and matrix constructors make it: exactly size doubles from a
        # plain allocation, offset 0, and (as the allocator is free to do) not optimally aligned
        b = world.new_block(d * d, 'heap', 'entry state of ' + name + ' (plain allocation)', addr=8, entry=True)
        b.region.make = lambda k, p=prefix: Poly.var('%s%d' % (p, k))
        o.field('dim').value = d
        o.field('size').value = d * d
        o.field('components').value = Ptr(b.region, 0)
        o.field('ptr_offset').value = 0
        o.field('isinit').value = 1
        o.field('isinit_d').value = 0
    elif kind == 'ext':
        b = world.new_block(d * d, 'ext', 'user buffer of ' + name, addr=8, entry=True)
        b.region.make = lambda k, p=prefix: Poly.var('%s%d' % (p, k))
        o.field('dim').value = d
        o.field('size').value = d * d
        o.field('components').value = Ptr(b.region, 0)
        o.field('ptr_offset').value = 0
        o.field('isinit').value = 0
        o.field('isinit_d').value = 1
    else:
        raise ValueError(kind)
    c = Cell(o, None, 0, name)
    world.objects.append((name, c))
    return c


def snapshot(cell):
    """(dim,size,components,ptr_offset,isinit,isinit_d, tuple of component values)"""
    o = cell.value
    f = {k: o.fields[k].value for k in ('dim', 'size', 'components', 'ptr_offset', 'isinit', 'isinit_d') if k in o.fields}
    vals = None
    p = f.get('components')
    if isinstance(p, Ptr) and p.region is not None and isinstance(f.get('size'), int):
        vals = []
        for k in range(f['size']):
            try:
                vals.append(p.region.cell(p.off + k).value)
            except OutOfBounds:
                vals.append(UNDEF)
    f['values'] = vals
    return f


UP_ARRAY = 'std::unique_ptr<double[]>'


class OwnHooks(StdHooks):
    unit_for_records = None  # set by the interpreter: the unit whose record table says which classes have destructors

    def __init__(self, world):
        StdHooks.__init__(self)
        self.w = world
        self.cache_region = None

    def tracked_record(self, rec):
        if rec == SUV or rec == UP_ARRAY:
            return True
        # any class of the library with a destructor of its own (scope guards, holders): its locals are destroyed at
        # scope exit and during unwinding like the vectors
        return rec in self._dtor_records()

    def _dtor_records(self):
        if getattr(self, '_dtor_recs', None) is None:
            self._dtor_recs = set()
            unit = getattr(self, 'unit_for_records', None)
            for u in ([unit] if unit is not None else []):
                for r in u.records:
                    if r.get('userDtor'):
                        self._dtor_recs.add(r.get('spec') or r['name'])
                        self._dtor_recs.add(r['name'])
        return self._dtor_recs

    # -- std::unique_ptr<double[]>: a scoped owner of a raw block (released when the scope is left, also by an exception)
    def external_destroy(self, it, cell):
        o = cell.value
        if isinstance(o, Obj) and o.rec == UP_ARRAY:
            p = o.fields['p'].value if 'p' in o.fields else NULL
            if isinstance(p, Ptr) and not p.is_null():
                self.on_delete(it, {'l': None}, p, True)
                o.fields['p'].value = NULL

    def unique_array_call(self, it, meth, node, args, this_cell):
        if not meth.startswith('operator'):
            meth = meth.split('<')[0]
        if meth == 'unique_ptr':
            o = Obj(UP_ARRAY, None, this_cell.name if this_cell is not None else None)
            if node.get('moveCtor') and args:
                src = it.lval(args[0]).value
                o.field('p').value = src.fields['p'].value
                src.fields['p'].value = NULL
            else:
                p = it.eval(args[0]) if args else NULL
                o.field('p').value = NULL if (isinstance(p, int) and p == 0) else p
            this_cell.value = o
            return None
        if meth == '~unique_ptr':
            self.external_destroy(it, this_cell)
            return None
        o = this_cell.value
        p = o.fields['p'].value
        if meth == 'get':
            return p
        if meth == 'operator[]':
            i = it.eval(args[0])
            if isinstance(p, Ptr) and p.dims:
                if not isinstance(i, int):
                    raise Unsupported('symbolic row index at %s' % it.loc(node))
                width = 1
                for x in p.dims:
                    width *= x
                if p.region is not None and isinstance(p.region.size, int) and not (0 <= p.off + i * width and p.off + (i + 1) * width <= p.region.size):
                    e = OutOfBounds(p.region, p.off + i * width)
                    e.where = it.loc(node)
                    raise e
                return Cell(ArrayView(p.region, p.off + i * width, p.dims), None, 0, 'row')
            return it.deref(it.ptr_add(p, i), node)
        if meth == 'operator bool':
            return 0 if p.is_null() else 1
        if meth == 'release':
            o.fields['p'].value = NULL
            return p
        if meth == 'reset':
            np_ = it.eval(args[0]) if args else NULL
            if isinstance(p, Ptr) and not p.is_null():
                self.on_delete(it, node, p, True)
            o.fields['p'].value = NULL if (isinstance(np_, int) and np_ == 0) else np_
            return None
        raise Unsupported('std::unique_ptr<double[]>::%s at %s' % (meth, it.loc(node)))

    # -- memory
    def on_new(self, it, node, count, elem_type):
        w = self.w
        site = it.loc(node)
        w.alloc_count += 1
        w.alloc_sites.append(site)
        if w.fail_alloc_at is not None and w.alloc_count == w.fail_alloc_at:
            w.events.append(('bad_alloc', site))
            raise Thrown(node, 'std::bad_alloc (injected at allocation %d)' % w.alloc_count, it.unit)
        if not isinstance(count, int):
            raise Unsupported('symbolic allocation size at %s' % site)
        # new T[n] with T itself an array type (rows of fixed width): one block of n*width elements, addressed by rows
        import re as _re
        dims = [int(x) for x in _re.findall(r'\[(\d+)\]', elem_type or '')]
        width = 1
        for x in dims:
            width *= x
        b = w.new_block(count * width, 'heap', site)
        w.events.append(('new', b.region.name, site))
        return Ptr(b.region, 0, dims) if dims else Ptr(b.region, 0)

    def on_delete(self, it, node, ptr, is_array):
        w = self.w
        site = it.loc(node)
        if isinstance(ptr, Ptr) and ptr.is_null():
            return None
        b = w.block_of(ptr)
        if b is None:
            raise Violation('B.acc', 'delete[] of a pointer that is not a heap block', site)
        if b.kind == 'ext':
            raise Violation('B.inv', 'delete[] of user-supplied storage %s' % b.region.name, site)
        if ptr.off != 0:
            raise Violation('B.acc', 'delete[] of %s+%s: not the start of the allocation' % (b.region.name, ptr.off), site)
        if b.state == 'freed':
            raise Violation('B.acc', 'double free of %s (allocated at %s)' % (b.region.name, b.site), site)
        if b.state == 'cached':
            raise Violation('B.acc', 'delete[] of %s which is held by the block cache' % b.region.name, site)
        b.state = 'freed'
        w.events.append(('delete', b.region.name, site))
        return None

    def on_read(self, it, cell, node):
        self._access(it, cell, node, 'read')

    def on_write(self, it, cell, old, new, node):
        self._access(it, cell, node, 'write')

    def _access(self, it, cell, node, what):
        r = cell.region
        if r is None:
            return
        b = r.meta.get('block')
        if b is not None and b.state != 'live':
            raise Violation('B.acc', '%s of %s block %s' % (what, b.state, r.name), it.loc(node) if node else None)

    def on_undef_read(self, it, cell, node):
        r = cell.region
        if r is not None and r.meta.get('block') is not None:
            raise Violation('B.value', 'read of uninitialised storage %s (a freshly obtained block is read before it is written)' % cell.where(),
                            it.loc(node) if node else None)
        return NotImplemented

    def pointer_int(self, it, node, v):
        b = self.w.block_of(v)
        if b is None:
            if isinstance(v, Ptr) and v.is_null():
                return 0
            raise Unsupported('address of an untracked block at %s' % it.loc(node))
        off = v.off
        if not isinstance(off, int):
            raise Unsupported('symbolic pointer offset at %s' % it.loc(node))
        return b.addr + 8 * off

    # -- the block cache (summarised: bounded pool per dimension with nondeterministic capacity)
    def global_cell(self, it, node):
        q = node.get('qname') or node.get('name')
        if q == 'squids::SU_vector::storage_cache':
            if self.cache_region is None:
                self.cache_region = Region('storage_cache', MAXD + 1, lambda i: Obj('cache', None, i), 'static')
            return Cell(self.cache_region, None, 0, 'storage_cache')
        return StdHooks.global_cell(self, it, node)

    def override_call(self, it, fdecl, node, args, this_cell):
        nm = fdecl['name']
        w = self.w
        if nm.startswith('squids::detail::cache<') and nm.endswith('::insert'):
            dim = this_cell.value.tag
            entry = it.eval(args[0])
            st = entry.fields['storage'].value
            off = entry.fields['offset'].value
            b = w.block_of(st)
            accept = w.ch.pick('cache[%s] accepts insert' % dim, 2) == 0
            if not accept:
                return 0
            if b is None or b.kind != 'heap':
                raise Violation('B.inv', 'storage that is not a library heap block handed to the block cache', it.loc(node))
            if b.state != 'live':
                raise Violation('B.acc', 'block %s inserted into the cache while %s' % (b.region.name, b.state), it.loc(node))
            if not isinstance(st.off, int) or st.off != off:
                raise Violation('B.acc', 'cached entry of %s records offset %s but the pointer is at +%s' % (b.region.name, off, st.off), it.loc(node))
            if isinstance(dim, int) and isinstance(off, int) and isinstance(b.region.size, int) and b.region.size - off < dim * dim:
                raise Violation('B.acc', 'block %s (%d doubles from offset %d) is filed in the cache of dimension %d, whose vectors need %d doubles: '
                                'the next vector of that dimension served from the cache overruns it' % (b.region.name, b.region.size - off, off, dim, dim * dim),
                                it.loc(node))
            b.state = 'cached'
            b.cached_offset = off
            w.cache.setdefault(dim, []).append(b)
            w.events.append(('cache-insert', b.region.name, dim))
            if isinstance(dim, int) and isinstance(off, int) and (b.addr + 8 * (off + dim % 2)) % 32 != 0:
                self.served_misaligned(it, node, b, dim)
            return 1
        if nm.startswith('squids::detail::cache<') and nm.endswith('::get'):
            dim = this_cell.value.tag
            o = Obj('squids::SU_vector::mem_cache_entry')
            lst = w.cache.get(dim, [])
            if lst:  # single-threaded pool: a fetch fails iff the pool is empty (C19)
                b = lst.pop()
                b.state = 'live'
                o.field('storage').value = Ptr(b.region, b.cached_offset)
                o.field('offset').value = b.cached_offset
                w.events.append(('cache-get', b.region.name, dim))
            else:
                o.field('storage').value = NULL
                o.field('offset').value = 0
            return o
        return NotImplemented

    def served_misaligned(self, it, node, b, dim):
        """a block that is not optimally aligned for vectors of `dim` has just been filed in the cache: the next aligned
        allocation of that dimension is simulated on the spot (with only this block cached); if the allocator hands the
        block out as it is, aligned-storage operations on the new vector perform misaligned vector loads"""
        fs = [f for f in it.unit.by_name.get('squids::SU_vector::alloc_aligned', []) if f.get('body') is not None and len(f['params']) == 4]
        if len(fs) != 1:
            raise Unsupported('cannot simulate the aligned allocator (alloc_aligned: %d definitions)' % len(fs))
        w = self.w
        saved, saved_events = w.cache.get(dim, []), list(w.events)
        w.cache[dim] = [b]
        comp, offc = Cell(NULL, None, 0, 'components'), Cell(0, None, 0, 'ptr_offset')
        try:
            it.call(fs[0], None, [dim, dim * dim, comp, offc])
            p = comp.value
            blk = w.block_of(p) if isinstance(p, Ptr) else None
            bad = blk is b and isinstance(p.off, int) and (b.addr + 8 * (p.off + dim % 2)) % 32 != 0
        finally:
            w.cache[dim] = saved
            w.events[:] = saved_events
            b.state = 'cached'
        if bad:
            raise Violation('B.align', 'block %s (element 0 at address %d mod 32, offset %s) is filed in the cache of dimension %d although it is not '
                            'optimally aligned; the aligned allocator hands it out unchanged to the next vector of that dimension, whose aligned-storage '
                            'operations then perform misaligned vector loads' % (b.region.name, b.addr % 32, b.cached_offset, dim), it.loc(node))

    def external_call(self, it, name, node, args, this_cell):
        if name.startswith('std::unique_ptr<double[]'):
            return self.unique_array_call(it, name.split('>::')[-1] if '>::' in name else name.split('::')[-1], node, args, this_cell)
        if name.startswith('std::multiplies<double>::operator()'):
            a, b = it.eval(args[0]), it.eval(args[1])
            a = a.value if isinstance(a, Cell) else a
            b = b.value if isinstance(b, Cell) else b
            return it.to_poly(a) * it.to_poly(b)
        if name.startswith('std::multiplies<double>::multiplies'):
            return Obj('std::multiplies<double>')
        return StdHooks.external_call(self, it, name, node, args, this_cell)

    def on_terminate(self, it, fdecl, thrown):
        raise Violation('B.exc.terminate', 'the exception "%s" cannot propagate: it reaches the boundary of %s, which is declared non-throwing, and '
                        'std::terminate is called' % (thrown.what, fdecl['name']), it.unit.loc(fdecl))

    def on_ctor_abort(self, it, cell, fdecl):
        self.w.events.append(('ctor-abort', cell.name))
        o = cell.value
        if isinstance(o, Obj):
            o.tag = '<never constructed>'


def check_invariants(world, live_cells, exceptional=False):
    """returns list of (rule, message) violated at this exit. live_cells: [(name, cell)] of objects that are alive"""
    out = []
    owners = {}
    for name, c in live_cells:
        o = c.value
        if not isinstance(o, Obj) or o.tag in ('<destroyed>', '<never constructed>'):
            continue
        f = {k: (o.fields[k].value if k in o.fields else UNDEF) for k in ('dim', 'size', 'components', 'ptr_offset', 'isinit', 'isinit_d')}
        isinit, isd = f['isinit'], f['isinit_d']
        if isinit is UNDEF or isd is UNDEF:
            out.append(('B.inv', '%s: ownership flags not set' % name))
            continue
        if isinit and isd:
            out.append(('B.inv', '%s: both isinit and isinit_d set' % name))
        p = f['components']
        if isinit:
            b = world.block_of(p)
            if b is None or b.kind != 'heap':
                out.append(('B.inv', '%s claims ownership (isinit) of storage that is not a library heap block (%r)' % (name, p)))
            else:
                if b.state != 'live':
                    out.append(('B.inv', '%s owns block %s which is %s' % (name, b.region.name, b.state)))
                if f['ptr_offset'] is UNDEF or p.off != f['ptr_offset']:
                    out.append(('B.inv', '%s: components is %s+%s but ptr_offset is %r (release would free the wrong address)'
                                % (name, b.region.name, p.off, f['ptr_offset'])))
                if isinstance(f['size'], int) and isinstance(p.off, int) and p.off + f['size'] > b.region.size:
                    out.append(('B.inv', '%s: size %d exceeds its block %s (%d doubles from offset %d)' % (name, f['size'], b.region.name, b.region.size, p.off)))
                if id(b) in owners:
                    out.append(('B.inv', 'block %s owned by both %s and %s' % (b.region.name, owners[id(b)], name)))
                owners[id(b)] = name
            if isinstance(f['dim'], int) and isinstance(f['size'], int) and f['size'] != f['dim'] * f['dim']:
                out.append(('B.inv', '%s: size %d is not dim^2 (dim=%d)' % (name, f['size'], f['dim'])))
        elif isd:
            b = world.block_of(p)
            if b is not None and b.kind == 'heap' and b.state != 'live':
                out.append(('B.inv', '%s refers (non-owning) to %s block %s' % (name, b.state, b.region.name)))
        else:
            # empty: must not retain a size or a pointer into somebody's block
            if f['size'] not in (0, UNDEF) or (isinstance(p, Ptr) and not p.is_null()):
                out.append(('B.inv.empty', '%s has neither storage flag set but keeps size=%r components=%r: a later same-size assignment writes through that pointer'
                            % (name, f['size'], p)))
    # accounting
    for b in world.blocks:
        if b.kind != 'heap':
            if b.state != 'live':
                out.append(('B.inv', 'user storage %s was %s' % (b.region.name, b.state)))
            continue
        if b.state == 'live' and id(b) not in owners:
            out.append(('B.acc', 'block %s (allocated at %s) is neither owned, cached nor released on this exit: leak' % (b.region.name, b.site)))
        if b.state == 'cached' and id(b) in owners:
            out.append(('B.acc', 'block %s is both cached and owned by %s' % (b.region.name, owners[id(b)])))
    return out
