"""Equality of a guarded value (ITE tree over data-dependent conditions) with an expected polynomial.

A value merged from the arms of a data-dependent branch is ITE(c, a, b).  It equals `want` for all inputs iff
a = want wherever c holds and b = want wherever c fails.  For an equality condition p == q the first obligation
only has to hold on the variety p - q = 0: the difference a - want is reduced modulo p - q (substitution when the
condition fixes one variable, otherwise multivariate division by the single polynomial with its leading monomial
under a graded order).  Arms under inequality conditions hold on an open set, where two polynomials agree only if
they are identical.

equal_under(got, want) -> (True, None) | (False, description of the failing arm)
"""
from interp import ITE, Cond, UNDEF
from poly import Poly, atom_of


def _mono_key(m):
    return (sum(p for _, p in m), m)


def _divides(lead, m):
    d = dict(m)
    for a, p in lead:
        if d.get(a, 0) < p:
            return False
    return True


def _quot(m, lead):
    d = dict(m)
    for a, p in lead:
        d[a] -= p
    return tuple(sorted((a, p) for a, p in d.items() if p != 0))


def _mul_mono(p, mono, coeff):
    out = {}
    for m, c in p.t.items():
        d = dict(m)
        for a, e in mono:
            d[a] = d.get(a, 0) + e
        mm = tuple(sorted((a, e) for a, e in d.items() if e != 0))
        out[mm] = out.get(mm, 0) + c * coeff
    return Poly(out)


def reduce_mod(p, e, limit=400):
    """remainder of p on division by the single polynomial e (graded order, leading monomial of e)"""
    e = e.clean()
    if not e.t:
        return p
    lead = max(e.t, key=_mono_key)
    if lead == ():
        return p  # e is a non-zero constant: the condition is unsatisfiable or trivial; leave p alone
    k0 = e.t[lead]
    rest = Poly({m: c for m, c in e.t.items() if m != lead})  # lead*k0 = -rest on the variety
    p = p.clean()
    for _ in range(limit):
        hit = None
        for m, c in p.t.items():
            if _divides(lead, m):
                hit = (m, c)
                break
        if hit is None:
            return p
        m, c = hit
        q = _quot(m, lead)
        p = (Poly({mm: cc for mm, cc in p.t.items() if mm != m}) + _mul_mono(rest, q, -c / k0)).clean()
    return p


def _apply(conds, p):
    """reduce p modulo every active equality (in order)"""
    for e in conds:
        p = reduce_mod(p, e)
    return p


def solve_var(e):
    """e = k*v + r with v a plain variable and r a number: returns (('v', name), -r/k), else None"""
    e = e.clean()
    lin = None
    r = 0
    for m, c in e.t.items():
        if m == ():
            r = c
        elif len(m) == 1 and m[0][1] == 1 and atom_of(m[0][0])[0] == 'v' and lin is None:
            lin = (atom_of(m[0][0]), c)
        else:
            return None
    if lin is None or lin[1] == 0:
        return None
    return lin[0], -r / lin[1]


def subst_value(v, m):
    if isinstance(v, ITE):
        return ITE(subst_cond(v.cond, m), subst_value(v.a, m), subst_value(v.b, m))
    if isinstance(v, Poly):
        return v.subst(m)
    return v


def subst_cond(c, m):
    if not isinstance(c, Cond):
        return c
    if c.kind == 'cmp':
        return Cond('cmp', c.a.subst(m) if isinstance(c.a, Poly) else c.a, c.b.subst(m) if isinstance(c.b, Poly) else c.b, c.op)
    if c.kind == 'not':
        return Cond('not', subst_cond(c.a, m))
    return Cond(c.kind, subst_cond(c.a, m), subst_cond(c.b, m))


def generic_leaf(v):
    """the value on the open part of the input space: equality conditions are measure-zero and skipped"""
    while isinstance(v, ITE):
        c = v.cond
        if isinstance(c, Cond) and c.kind == 'cmp' and c.op == '==':
            v = v.b
        elif isinstance(c, Cond) and c.kind == 'cmp' and c.op == '!=':
            v = v.a
        else:
            return None
    return v


def _as_poly(v):
    if isinstance(v, Poly):
        return v
    if isinstance(v, bool):
        return Poly.const(int(v))
    if isinstance(v, (int, float)):
        return Poly.const(v)
    return None


def equal_under(got, want, eqs=(), path=()):
    if isinstance(got, ITE):
        c = got.cond
        if isinstance(c, Cond) and c.kind == 'cmp' and isinstance(c.a, Poly) and isinstance(c.b, Poly) and c.a.is_const() and c.b.is_const():
            x, y = c.a.const_value(), c.b.const_value()
            t = {'<': x < y, '>': x > y, '<=': x <= y, '>=': x >= y, '==': x == y, '!=': x != y}[c.op]
            return equal_under(got.a if t else got.b, want, eqs, path)
        if isinstance(c, Cond) and c.kind == 'cmp' and c.op in ('==', '!='):
            a, b = (got.a, got.b) if c.op == '==' else (got.b, got.a)
            e = (c.a - c.b) if isinstance(c.a, Poly) and isinstance(c.b, Poly) else None
            if e is not None:
                e = _apply(eqs, e)
                sol = solve_var(e)
                if sol is not None:
                    # the condition fixes one variable: substitute it everywhere (function arguments included)
                    m = {sol[0]: Poly.const(sol[1])}
                    r = equal_under(subst_value(a, m), want.subst(m) if isinstance(want, Poly) else want, eqs,
                                    path + ('%s == %s' % (c.a, c.b),))
                    if not r[0]:
                        return r
                    return equal_under(b, want, eqs, path + ('%s != %s' % (c.a, c.b),))
                if not e.clean().t:
                    # the condition is already implied by the active equalities: only the == arm is reachable
                    return equal_under(a, want, eqs, path)
                r = equal_under(a, want, tuple(eqs) + (e,), path + ('%s == %s' % (c.a, c.b),))
                if not r[0]:
                    return r
                return equal_under(b, want, eqs, path + ('%s != %s' % (c.a, c.b),))
        r = equal_under(got.a, want, eqs, path + (repr(c),))
        if not r[0]:
            return r
        return equal_under(got.b, want, eqs, path + ('!' + repr(c),))
    g, w = _as_poly(got), _as_poly(want)
    if g is None or w is None:
        return (False, 'under [%s]: %r is not a number' % ('; '.join(path), got))
    d = _apply(eqs, g - w)
    if d.equals(Poly()):
        return (True, None)
    return (False, 'under [%s]: %s instead of %s' % ('; '.join(path), _apply(eqs, g), _apply(eqs, w)))


def has_ite(v):
    return isinstance(v, ITE)


def same(got, want):
    """True iff got (a polynomial, or a guarded value) equals the polynomial want for all inputs"""
    if isinstance(got, Poly):
        return got.equals(want)
    if isinstance(got, ITE):
        return equal_under(got, want)[0]
    return False


def explain(got, want):
    if isinstance(got, ITE):
        return equal_under(got, want)[1] or str(got)
    return str(got)


def all_vars(v):
    """variable names mentioned anywhere in a value (leaves and conditions of a guarded value included)"""
    if isinstance(v, Poly):
        return v.vars()
    if isinstance(v, ITE):
        out = all_vars(v.a) | all_vars(v.b)
        c = v.cond
        stack = [c]
        while stack:
            x = stack.pop()
            if isinstance(x, Cond):
                stack.extend([x.a, x.b])
            elif isinstance(x, Poly):
                out |= x.vars()
        return out
    return set()


def eval_at(v, mapping):
    """value of a guarded value / polynomial at a concrete point (mapping: ('v',name) -> Poly.const); None when a
    condition or leaf does not become a number there"""
    if isinstance(v, ITE):
        c = cond_at(v.cond, mapping)
        if c is None:
            return None
        return eval_at(v.a if c else v.b, mapping)
    if isinstance(v, Poly):
        try:
            r = v.subst(mapping)
        except (ValueError, KeyError, ZeroDivisionError):
            return None
        return float(r.const_value()) if r.is_const() else None
    if isinstance(v, bool):
        return 1.0 if v else 0.0
    if isinstance(v, (int, float)):
        return float(v)
    return None


def cond_at(c, mapping):
    if not isinstance(c, Cond):
        return None
    if c.kind == 'cmp':
        a, b = eval_at(c.a, mapping), eval_at(c.b, mapping)
        if a is None or b is None:
            return None
        return {'<': a < b, '<=': a <= b, '>': a > b, '>=': a >= b, '==': a == b, '!=': a != b}[c.op]
    if c.kind == 'not':
        r = cond_at(c.a, mapping)
        return None if r is None else (not r)
    if c.kind in ('and', 'or'):
        x, y = cond_at(c.a, mapping), cond_at(c.b, mapping)
        if x is None or y is None:
            return None
        return (x and y) if c.kind == 'and' else (x or y)
    return None


def leaf_at(v, mapping):
    """the leaf of a guarded value selected at a concrete point (the value in a neighbourhood of that point when the
    point is generic); None when a condition does not become decidable there"""
    while isinstance(v, ITE):
        c = cond_at(v.cond, mapping)
        if c is None:
            return None
        v = v.a if c else v.b
    return v
