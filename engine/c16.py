"""C16 — an allocation failure anywhere leaves every vector valid and memory uncorrupted.
Engine B: for every explored (operation, entry state, choice) path that performs N allocations,
the path is re-interpreted N times with std::bad_alloc raised at the k-th allocation point
(k=1..N, exhaustive); on the exceptional edge the ownership invariant, the token accounting and
the value of every bystander vector are checked."""
import lifecycle
import ownrules

RULES = ('B.inv', 'B.inv.empty', 'B.acc', 'B.exc.bystander', 'B.oob', 'B.exc.terminate')


def run(db, rep, tier):
    rep.trusted += ownrules.TRUSTED
    data = lifecycle.explore_cached(db, tier)
    sites = sorted(set(s for v in data['alloc_sites'].values() for s in v))
    rep.notes.append('allocation sites reached: %s' % ', '.join(sites))
    rep.notes.append('%d fault-injected paths (operation x entry state x choices x k-th allocation)' % data['allocfail_paths'])
    for k in sorted(data['ops'])[:400]:
        rep.fn(k)
    # map to the rule id of the design
    sel = [f for f in data['findings'] if f[7] and f[0] in RULES]
    bad_sites = {}
    for (rule, site, where, expected, found, function, exc, af) in sel:
        bad_sites.setdefault(site, (rule, where, expected, found, function))
    rep.ok('B.allocfail', max(data['allocfail_paths'] - len(sel), 0))
    for site, (rule, where, expected, found, function) in sorted(bad_sites.items()):
        rep.fail('B.allocfail', site, where, 'valid vectors and balanced token accounting when an allocation fails (%s)' % rule, found, function)
    rep.floor('B.allocfail', data['allocfail_paths'], 500)
    rep.floor('B.allocsites', len(sites), 3)
    rep.sample('B.allocfail', 'allocation sites: ' + ', '.join(sites))
    import fixtures
    fixtures.controls_own(rep, db)
