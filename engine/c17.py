"""C17 — node grids are monotone with the requested ends; lookup brackets its argument.
Engines A + C + D: (1) Set_xrange(a,b,scale) is interpreted for symbolic a,b and nx=2..8: the nodes
are compared with the affine form a+(b-a)k/(nx-1) (linear) resp. exp of the affine form in log x
(logarithmic), hence first node a, last node b, equal spacing; unknown scale names are rejected;
(2) the vector overload is interpreted for wrong sizes and unsorted input (rejected) and sorted
input (stored exactly); (3) Get_i(x) is interpreted for nx=2..12 on symbolic strictly increasing
grids with the query in every order relation to the nodes: the bisection may only compare the
query with node values (a comparison against an arithmetic combination of node values is only
meaningful for uniform grids and is reported), must return i<=nx-2 with x_i<=x<=x_{i+1}, and must
reject x outside [x_first,x_last] on both sides."""
from guarded import same, explain
from astdb import AnalysisBroken
from interp import Interp, Obj, Cell, Ptr, Region, Thrown, Unsupported, Opaque, ITE, Cond
from poly import Poly, apply_func, atom_arg, atom_of
from stdmodel import make_vector
import squidsmodel as sm


def solver_with_grid(db, nx, classes=None, strict=False, witness=None):
    order = sm.OrderOracle(classes, strict=strict, witness=witness) if classes is not None else None
    hooks = sm.SquidsHooks(2, order=order)
    this, hooks, it = sm.new_solver(db, nx, 2, 1, 0, hooks=hooks)
    return this, hooks, it


def grid_values(this):
    xv = this.value.fields['x'].value
    n = xv.fields['n'].value
    return [xv.fields['data'].value.cell(k).value for k in range(n)]


def check_formulas(db, rep):
    unit = db.unit('SQuIDS')
    f = db.one('SQuIDS', 'squids::SQuIDS::Set_xrange', 3)
    rep.fn(f['name'] + '(double,double,string)')
    a, b = Poly.var('a'), Poly.var('b')
    n = 0
    for scale, names in (('linear', ('linear', 'Linear', 'lin', 'Lin')), ('log', ('log', 'Log'))):
        n += 1
        bad = None
        for name in names:
            for nx in range(2, 9):
                this, hooks, it = solver_with_grid(db, nx, [['a'], ['b']])  # the property quantifies over a<b
                hooks.assumed = []
                hooks.assume = lambda it_, cond, node, h=hooks: h.assumed.append(cond)
                try:
                    it.call(f, this, [a, b, Opaque('string', name)])
                except Thrown as t:
                    bad = ('%s/nx=%d' % (name, nx), 'throw: %s' % t.what)
                    break
                xs = grid_values(this)
                for k in range(nx):
                    frac = Poly.const(k).div(Poly.const(nx - 1))
                    if scale == 'linear':
                        want = a + (b - a) * frac
                        got = xs[k]
                        ok = same(got, want)
                    else:
                        la, lb = apply_func('log', a), apply_func('log', b)
                        wantarg = la + (lb - la) * frac
                        got = xs[k]
                        ok = False
                        if isinstance(got, Poly):
                            g = got.clean()
                            if len(g.t) == 1:
                                (m, c), = g.t.items()
                                if len(m) == 1 and m[0][1] == 1 and abs(c - 1) < 1e-14:
                                    at = atom_of(m[0][0])
                                    if at[0] == 'f' and at[1] == 'exp' and atom_arg(at).equals(wantarg):
                                        ok = True
                    if not ok:
                        bad = ('%s/nx=%d/node%d' % (name, nx, k), str(xs[k])[:200])
                        break
                if bad:
                    break
                if scale == 'log':
                    # the positivity guard on the lower end must be present (log of a non-positive number)
                    if not any(isinstance(c, Cond) and c.kind == 'cmp' for c in hooks.assumed):
                        bad = ('%s/nx=%d/guard' % (name, nx), 'no rejection of a non-positive lower end before taking its logarithm')
                        break
            if bad:
                break
        if bad:
            rep.fail('A.grid', 'Set_xrange/%s/%s' % (scale, bad[0]), unit.loc(f),
                     'node k = a+(b-a)k/(nx-1)' if scale == 'linear' else 'node k = exp(log a + (log b - log a)k/(nx-1))', bad[1], f['name'])
        else:
            rep.ok('A.grid')
            rep.sample('A.grid', '%s: nodes affine in %s for nx=2..8 => first node a, last node b, equal spacing' % (scale, 'x' if scale == 'linear' else 'log x'))
    # an unknown scale name is an error
    this, hooks, it = solver_with_grid(db, 3, [['a'], ['b']])
    try:
        it.call(f, this, [a, b, Opaque('string', 'cubic')])
        rep.fail('A.grid', 'Set_xrange/unknown-scale', unit.loc(f), 'an unknown scale name is rejected', 'accepted', f['name'])
    except Thrown:
        rep.ok('A.grid')
    rep.floor('A.grid', n, 2)


def check_vector_overload(db, rep):
    unit = db.unit('SQuIDS')
    f = db.one('SQuIDS', 'squids::SQuIDS::Set_xrange', 1)
    rep.fn(f['name'] + '(const std::vector<double>&)')
    nx = 4
    cases = [
        ('wrong size (3)', ['V0', 'V1', 'V2'], [['V0'], ['V1'], ['V2']], True),
        ('wrong size (5)', ['V0', 'V1', 'V2', 'V3', 'V4'], [['V0'], ['V1'], ['V2'], ['V3'], ['V4']], True),
        ('unsorted', ['V1', 'V0', 'V2', 'V3'], [['V0'], ['V1'], ['V2'], ['V3']], True),
        ('unsorted at the end', ['V0', 'V1', 'V3', 'V2'], [['V0'], ['V1'], ['V2'], ['V3']], True),
        ('sorted', ['V0', 'V1', 'V2', 'V3'], [['V0'], ['V1'], ['V2'], ['V3']], False),
        ('sorted with ties', ['V0', 'V1', 'V1b', 'V3'], [['V0'], ['V1', 'V1b'], ['V3']], False),
    ]
    bad = None
    for label, vals, classes, must_throw in cases:
        this, hooks, it = solver_with_grid(db, nx, classes)
        before = grid_values(this)
        vec = make_vector('xs', len(vals), lambda k, v=vals: Poly.var(v[k]))
        threw = False
        try:
            it.call(f, this, [vec])
        except Thrown:
            threw = True
        if must_throw and not threw:
            bad = (label, 'accepted')
            break
        if must_throw:
            after = grid_values(this)
            if len(after) != len(before) or not all(x.equals(y) for x, y in zip(after, before)):
                bad = (label, 'the stored grid was modified although the input was rejected')
                break
        if not must_throw:
            if threw:
                bad = (label, 'rejected')
                break
            xs = grid_values(this)
            if len(xs) != len(vals) or not all(isinstance(x, Poly) and x.equals(Poly.var(v)) for x, v in zip(xs, vals)):
                bad = (label, 'stored %s' % xs)
                break
    if bad:
        rep.fail('C.grid.vec', 'Set_xrange(vector)/' + bad[0], unit.loc(f), 'stores exactly the sorted values; rejects unsorted or wrongly sized input', bad[1], f['name'])
    else:
        rep.ok('C.grid.vec')


def check_lookup(db, rep, tier):
    unit = db.unit('SQuIDS')
    f = db.one('SQuIDS', 'squids::SQuIDS::Get_i', 1)
    rep.fn(f['name'])
    nmax = 12 if tier == 'quick' else 33
    n = 0
    bad = None
    shape_bad = None
    for nx in range(2, nmax + 1):
        nodes = ['X%d' % k for k in range(nx)]
        from mpmath import mpf
        vals = {x: mpf(1.5) + mpf(k) * mpf('1.25') + mpf(k * k) / 8 for k, x in enumerate(nodes)}  # a concrete, non-uniform instance
        lo, hi = vals[nodes[0]], vals[nodes[-1]]
        positions = [('below', [['Q']] + [[x] for x in nodes], None, None),
                     ('below by one ulp', [['Q']] + [[x] for x in nodes], None, dict(vals, Q=lo * (1 - mpf(2) ** -53))),
                     ('below, far', [['Q']] + [[x] for x in nodes], None, dict(vals, Q=lo - 1))]
        for k in range(nx):
            cl = [[x] for x in nodes]
            cl[k] = [nodes[k], 'Q']
            # (the concrete instance is used only by comparisons and conversions that are not between plain symbols)
            positions.append(('on node %d' % k, cl, [b for b in (k - 1, k) if 0 <= b <= nx - 2], dict(vals, Q=vals[nodes[k]])))
            if k < nx - 1:
                positions.append(('between %d and %d' % (k, k + 1), [[x] for x in nodes[:k + 1]] + [['Q']] + [[x] for x in nodes[k + 1:]], [k],
                                  dict(vals, Q=(vals[nodes[k]] + vals[nodes[k + 1]]) / 2)))
        positions.append(('above', [[x] for x in nodes] + [['Q']], None, None))
        positions.append(('above by one ulp', [[x] for x in nodes] + [['Q']], None, dict(vals, Q=hi * (1 + mpf(2) ** -52))))
        positions.append(('above, far', [[x] for x in nodes] + [['Q']], None, dict(vals, Q=hi + 1)))
        for label, classes, ok_idx, witness in positions:
            n += 1
            this, hooks, it = solver_with_grid(db, nx, classes, strict=True, witness=witness)
            xv = this.value.fields['x'].value
            for k in range(nx):
                xv.fields['data'].value.cell(k).value = Poly.var('X%d' % k)
            try:
                r = it.call(f, this, [Poly.var('Q')])
                threw = False
            except Thrown:
                threw = True
                r = None
            except sm.NotAnOrderComparison as e:
                shape_bad = (e.where, '%s %s %s' % (e.a, e.op, e.b))
                break
            if ok_idx is None:
                if not threw:
                    bad = ('nx=%d/%s' % (nx, label), 'x outside the node range is rejected', 'returned %r' % (r,))
                    break
            else:
                if threw:
                    bad = ('nx=%d/%s' % (nx, label), 'an index for x inside the node range', 'exception')
                    break
                if not (isinstance(r, int) and r in ok_idx):
                    bad = ('nx=%d/%s' % (nx, label), 'an index i<=nx-2 with x_i<=x<=x_{i+1} (one of %s)' % ok_idx, 'returned %r' % (r,))
                    break
        if bad or shape_bad:
            break
    if shape_bad:
        rep.fail('D.lookup', 'Get_i/comparison', shape_bad[0],
                 'the bisection compares the query only with node values x[m] (or delegates to std::lower_bound/upper_bound)',
                 'comparison %s: an arithmetic combination of node values, meaningful only for uniformly spaced grids' % shape_bad[1], f['name'])
    elif bad:
        rep.fail('D.lookup', 'Get_i/' + bad[0], unit.loc(f), bad[1], bad[2], f['name'])
    else:
        rep.ok('D.lookup', n)
        rep.sample('D.lookup', 'nx=2..%d, query below / on every node / inside every interval / above: bracketing index returned, outside rejected (%d cases)' % (nmax, n))
    rep.floor('D.lookup', n, 1 if (bad or shape_bad) else 100)


def check_lookup_history(db, rep):
    """the lookup is a function of the grid in force and of x: an earlier lookup on a grid that has since been replaced (by
    either Set_xrange overload) must not show.  Old nodes Y, prior query P in [Y2,Y3) (index 2); the new grid puts the same x
    into its first interval."""
    from mpmath import mpf
    unit = db.unit('SQuIDS')
    f = db.one('SQuIDS', 'squids::SQuIDS::Get_i', 1)
    fvec = db.one('SQuIDS', 'squids::SQuIDS::Set_xrange', 1)
    frng = db.one('SQuIDS', 'squids::SQuIDS::Set_xrange', 3)
    n = 0
    for how in ('vector overload', 'range overload'):
        n += 1
        site = 'Get_i/after a lookup on a grid replaced through the %s' % how
        if how == 'vector overload':
            classes = [['Y0'], ['Y1'], ['Y2'], ['X0'], ['P', 'Q'], ['X1'], ['Y3'], ['X2'], ['X3']]
            w = {'Y0': mpf(1), 'Y1': mpf(2), 'Y2': mpf(3), 'X0': mpf('3.25'), 'P': mpf('3.5'), 'Q': mpf('3.5'), 'X1': mpf('3.75'), 'Y3': mpf(4), 'X2': mpf(5), 'X3': mpf(6)}
            want = 0
        else:
            # new grid a + (b-a)k/3 = 3.25, 5.25, 7.25, 9.25 on the concrete instance: x = 3.5 lies in its first interval
            classes = [['Y0'], ['Y1'], ['Y2'], ['a'], ['P', 'Q'], ['Y3'], ['b']]
            w = {'Y0': mpf(1), 'Y1': mpf(2), 'Y2': mpf(3), 'a': mpf('3.25'), 'P': mpf('3.5'), 'Q': mpf('3.5'), 'Y3': mpf(4), 'b': mpf('9.25')}
            want = 0
        this, hooks, it = solver_with_grid(db, 4, classes, strict=True, witness=w)
        xv = this.value.fields['x'].value
        for k in range(4):
            xv.fields['data'].value.cell(k).value = Poly.var('Y%d' % k)
        try:
            first = it.call(f, this, [Poly.var('P')])
            if how == 'vector overload':
                it.call(fvec, this, [make_vector('xs', 4, lambda k: Poly.var('X%d' % k))])
            else:
                hooks.assume = lambda it_, cond, node: None
                it.call(frng, this, [Poly.var('a'), Poly.var('b'), Opaque('string', 'lin')])
            r = it.call(f, this, [Poly.var('Q')])
        except Thrown as t:
            rep.fail('D.lookup.history', site, unit.loc(t.node), 'index %d' % want, 'throw: %s' % t.what, f['name'])
            continue
        if first != 2:
            raise AnalysisBroken('history scenario of Get_i: the first lookup returned %r, expected 2' % (first,))
        if r == want:
            rep.ok('D.lookup.history')
        else:
            rep.fail('D.lookup.history', site, unit.loc(f), 'the bracketing index on the grid in force (%d)' % want,
                     'returned %r: the answer of the earlier lookup on the replaced grid' % (r,), f['name'])
    rep.floor('D.lookup.history', n, 2)


def run(db, rep, tier):
    rep.trusted += ['clang 14 AST of /repo sources', 'sqdump extractor + abstract interpreter',
                    'exp(log(a)) = a for the positive lower end (guarded), real arithmetic for the affine forms',
                    'order relations between the query and symbolic, strictly increasing node values are enumerated explicitly; std::is_sorted summarised over that order']
    rep.declined += ['units-in-the-last-place deviation of the end nodes (rounding)']
    check_formulas(db, rep)
    check_vector_overload(db, rep)
    check_lookup(db, rep, tier)
    check_lookup_history(db, rep)
