"""Callee summaries for GSL matrices / BLAS, std::complex and std::unique_ptr (trusted base,
DESIGN Appendix B).  Matrices are abstract: explicit entry tables of CPoly, or — in `word`
mode — non-commutative product words over named factors (so that a 15-factor mixing matrix
does not have to be multiplied out)."""
import re

from astdb import AnalysisBroken
from interp import Obj, Region, Ptr, Cell, Opaque, Unsupported, NULL, UNDEF, FuncRef, Thrown
from kernels import GslMatrix, matrix_of, gsl_complex, complex_parts
from stdmodel import StdHooks
from poly import Poly, CPoly, apply_func, mat_mul, mat_dagger, mat_zero

_UP = re.compile(r'^std::unique_ptr<(.*)>::(.*)$')
_CX = re.compile(r'^std::complex<double>::(.*)$')


def cplx_obj(re_, im_):
    o = Obj('std::complex<double>')
    o.field('re').value = re_
    o.field('im').value = im_
    return o


def cplx_parts(v):
    if isinstance(v, Cell):
        v = v.value
    if isinstance(v, Obj) and 're' in v.fields:
        return v.fields['re'].value, v.fields['im'].value
    if isinstance(v, Obj) and 'dat' in v.fields:
        return complex_parts(v)
    if isinstance(v, (Poly, int)):
        return (v if isinstance(v, Poly) else Poly.const(v)), Poly()
    raise Unsupported('not a complex value: %r' % (v,))


class Factor:
    """one factor of a product word: an explicit matrix snapshot with a label and an op (N, H)"""

    def __init__(self, entries, n, label, op='N'):
        self.entries = entries
        self.n = n
        self.label = label
        self.op = op

    def __repr__(self):
        return '%s%s' % (self.label, '' if self.op == 'N' else '^' + self.op)


class GslHooks(StdHooks):
    def __init__(self, word_mode=False):
        StdHooks.__init__(self)
        self.word_mode = word_mode
        self.matrices = []
        self.freed = []
        self.blas = []  # log of zgemm calls
        self.allocs = []

    # -- helpers
    def new_matrix(self, n1, n2, name=None, entry=None):
        m = GslMatrix(n1, n2, entry, name or 'gslm#%d' % len(self.matrices))
        m.word = None
        self.matrices.append(m)
        return m

    def entries_of(self, m):
        out = {}
        for r in range(m.n1):
            for c in range(m.n2):
                out[(r, c)] = m.get(r, c)
        return out

    def as_word(self, m):
        if getattr(m, 'word', None) is not None:
            return list(m.word)
        # identity is the empty word
        ent = self.entries_of(m)
        if all(ent[(r, c)].equals(CPoly(1 if r == c else 0, 0)) for r in range(m.n1) for c in range(m.n2)):
            return []
        return [Factor(ent, m.n1, getattr(m, 'label', None) or m.name)]

    def external_call(self, it, name, node, args, this_cell):
        m = _UP.match(name)
        if m:
            return self.unique_ptr_call(it, m.group(2), node, args, this_cell)
        m = _CX.match(name)
        if m:
            return self.complex_call(it, m.group(1), node, args, this_cell)
        if name in ('gsl_set_error_handler_off', 'gsl_set_error_handler'):
            # process-global state: irrelevant to the values computed on one thread (its thread-safety is C18's rule E.deny)
            for a in args:
                it.eval(a)
            return Opaque('gsl_error_handler_t')
        if name in ('gsl_matrix_complex_alloc', 'gsl_matrix_alloc', 'gsl_matrix_complex_calloc', 'gsl_matrix_calloc'):
            n1, n2 = it.eval(args[0]), it.eval(args[1])
            if not (isinstance(n1, int) and isinstance(n2, int)):
                raise Unsupported('symbolic matrix extent at %s' % it.loc(node))
            mat = self.new_matrix(n1, n2)
            mat.site = it.loc(node)
            mat.complex = 'complex' in name
            self.allocs.append(mat)
            if 'calloc' in name:
                mat.entry = lambda r, c: CPoly(0, 0)
            return mat.ptr
        if name in ('gsl_matrix_complex_free', 'gsl_matrix_free'):
            p = it.eval(args[0])
            if isinstance(p, Ptr) and not p.is_null():
                self.freed.append(matrix_of(p))
            return None
        if name in ('gsl_matrix_complex_set_identity', 'gsl_matrix_set_identity'):
            mat = matrix_of(it.eval(args[0]))
            mat.entries = {(r, c): CPoly(1 if r == c else 0, 0) for r in range(mat.n1) for c in range(mat.n2)}
            mat.word = None
            return None
        if name in ('gsl_matrix_complex_set_zero', 'gsl_matrix_set_zero'):
            mat = matrix_of(it.eval(args[0]))
            mat.entries = {(r, c): CPoly(0, 0) for r in range(mat.n1) for c in range(mat.n2)}
            mat.word = None
            return None
        if name == 'gsl_matrix_complex_set_all':
            mat = matrix_of(it.eval(args[0]))
            re_, im_ = cplx_parts(it.eval(args[1]))
            mat.entries = {(r, c): CPoly(it.to_poly(re_), it.to_poly(im_)) for r in range(mat.n1) for c in range(mat.n2)}
            mat.word = None
            return None
        if name == 'gsl_matrix_set':
            mat = matrix_of(it.eval(args[0]))
            r, c = it.eval(args[1]), it.eval(args[2])
            v = it.to_poly(it.eval(args[3]))
            if not (isinstance(r, int) and isinstance(c, int)) or not (0 <= r < mat.n1 and 0 <= c < mat.n2):
                raise IndexViolation(it.loc(node), 'gsl_matrix_set(%s,%s) outside the %dx%d allocation' % (r, c, mat.n1, mat.n2))
            mat.entries[(r, c)] = CPoly(v, 0)
            mat.sets[(r, c)] = mat.sets.get((r, c), 0) + 1
            return None
        if name == 'gsl_matrix_get':
            mat = matrix_of(it.eval(args[0]))
            r, c = it.eval(args[1]), it.eval(args[2])
            if not (isinstance(r, int) and isinstance(c, int)) or not (0 <= r < mat.n1 and 0 <= c < mat.n2):
                raise IndexViolation(it.loc(node), 'gsl_matrix_get(%s,%s) outside the %dx%d allocation' % (r, c, mat.n1, mat.n2))
            return mat.get(r, c).re
        if name == 'gsl_matrix_complex_set':
            mat = matrix_of(it.eval(args[0]))
            r, c = it.eval(args[1]), it.eval(args[2])
            re_, im_ = cplx_parts(it.eval(args[3]))
            if not (isinstance(r, int) and isinstance(c, int)) or not (0 <= r < mat.n1 and 0 <= c < mat.n2):
                raise IndexViolation(it.loc(node), 'gsl_matrix_complex_set(%s,%s) outside the %dx%d allocation' % (r, c, mat.n1, mat.n2))
            if getattr(mat, 'word', None) is not None:
                raise Unsupported('element write into a product word at %s' % it.loc(node))
            mat.entries[(r, c)] = CPoly(it.to_poly(re_), it.to_poly(im_))
            mat.sets[(r, c)] = mat.sets.get((r, c), 0) + 1
            return None
        if name == 'gsl_matrix_complex_get':
            mat = matrix_of(it.eval(args[0]))
            r, c = it.eval(args[1]), it.eval(args[2])
            if not (isinstance(r, int) and isinstance(c, int)) or not (0 <= r < mat.n1 and 0 <= c < mat.n2):
                raise IndexViolation(it.loc(node), 'gsl_matrix_complex_get(%s,%s) outside the %dx%d allocation' % (r, c, mat.n1, mat.n2))
            z = mat.get(r, c)
            return gsl_complex(z.re, z.im)
        if name == 'gsl_matrix_complex_memcpy':
            dst, src = matrix_of(it.eval(args[0])), matrix_of(it.eval(args[1]))
            if (dst.n1, dst.n2) != (src.n1, src.n2):
                raise IndexViolation(it.loc(node), 'memcpy between %dx%d and %dx%d' % (dst.n1, dst.n2, src.n1, src.n2))
            if getattr(src, 'word', None) is not None:
                dst.word = list(src.word)
                dst.entries = {}
            else:
                dst.entries = self.entries_of(src)
                dst.word = None
            dst.label = getattr(src, 'label', None)
            return 0
        if name == 'gsl_matrix_complex_scale':
            mat = matrix_of(it.eval(args[0]))
            re_, im_ = cplx_parts(it.eval(args[1]))
            z = CPoly(it.to_poly(re_), it.to_poly(im_))
            mat.entries = {k: v * z for k, v in self.entries_of(mat).items()}
            return 0
        if name == 'gsl_blas_zgemm':
            ta, tb = it.eval(args[0]), it.eval(args[1])
            al = cplx_parts(it.eval(args[2]))
            A, B = matrix_of(it.eval(args[3])), matrix_of(it.eval(args[4]))
            be = cplx_parts(it.eval(args[5]))
            C = matrix_of(it.eval(args[6]))
            self.blas.append((it.loc(node), ta, tb, A.name, B.name, C.name))
            alpha = CPoly(it.to_poly(al[0]), it.to_poly(al[1]))
            beta = CPoly(it.to_poly(be[0]), it.to_poly(be[1]))
            if C is A or C is B:
                raise IndexViolation(it.loc(node), 'zgemm output aliases an input')
            if not alpha.equals(CPoly(1, 0)) or not beta.equals(CPoly(0, 0)):
                if self.word_mode:
                    raise Unsupported('zgemm with alpha/beta other than 1/0 in word mode at %s' % it.loc(node))
            opname = {111: 'N', 112: 'T', 113: 'H'}
            if ta not in opname or tb not in opname:
                raise Unsupported('zgemm transpose flag %r/%r at %s' % (ta, tb, it.loc(node)))
            if self.word_mode:
                wa, wb = self.as_word(A), self.as_word(B)
                C.word = self.apply_op(wa, opname[ta]) + self.apply_op(wb, opname[tb])
                C.entries = {}
                return 0
            da = (A.n1, A.n2) if opname[ta] == 'N' else (A.n2, A.n1)
            db_ = (B.n1, B.n2) if opname[tb] == 'N' else (B.n2, B.n1)
            if da[1] != db_[0] or (C.n1, C.n2) != (da[0], db_[1]):
                raise IndexViolation(it.loc(node), 'zgemm operand shapes %s x %s -> %s do not conform (GSL error handler aborts)' % (da, db_, (C.n1, C.n2)))
            MA = self.explicit(A, opname[ta])
            MB = self.explicit(B, opname[tb])
            P = mat_mul(MA, MB)
            old = self.entries_of(C) if not beta.is_zero() else None
            for r in range(C.n1):
                for c in range(C.n2):
                    v = P[r][c] * alpha
                    if old is not None:
                        v = v + old[(r, c)] * beta
                    C.entries[(r, c)] = v
            C.word = None
            return 0
        if name == 'gsl_complex_rect':
            return gsl_complex(it.to_poly(it.eval(args[0])), it.to_poly(it.eval(args[1])))
        if name.split('<')[0] == 'std::exp' and args and 'complex' in args[0].get('t', ''):
            re_, im_ = cplx_parts(it.eval(args[0]) if not args[0].get('lv') else it.lval(args[0]))
            er = apply_func('exp', it.to_poly(re_))
            return cplx_obj(er * apply_func('cos', it.to_poly(im_)), er * apply_func('sin', it.to_poly(im_)))
        if name.split('<')[0] == 'std::conj':
            re_, im_ = cplx_parts(it.eval(args[0]) if not args[0].get('lv') else it.lval(args[0]))
            return cplx_obj(re_, -it.to_poly(im_))
        if name.startswith('std::operator*') and len(args) == 2 and ('complex' in args[0].get('t', '') or 'complex' in args[1].get('t', '')):
            a = cplx_parts(self._val(it, args[0]))
            b = cplx_parts(self._val(it, args[1]))
            z = CPoly(it.to_poly(a[0]), it.to_poly(a[1])) * CPoly(it.to_poly(b[0]), it.to_poly(b[1]))
            return cplx_obj(z.re, z.im)
        if name.startswith('std::operator-') and len(args) == 1 and 'complex' in args[0].get('t', ''):
            a = cplx_parts(self._val(it, args[0]))
            return cplx_obj(-it.to_poly(a[0]), -it.to_poly(a[1]))
        if name.startswith('std::operator+') and len(args) == 2 and 'complex' in args[0].get('t', ''):
            a = cplx_parts(self._val(it, args[0]))
            b = cplx_parts(self._val(it, args[1]))
            return cplx_obj(it.to_poly(a[0]) + it.to_poly(b[0]), it.to_poly(a[1]) + it.to_poly(b[1]))
        if name.split('<')[0] == 'std::swap' and len(args) == 2:
            a, b = it.lval(args[0]), it.lval(args[1])
            va, vb = a.value, b.value
            it.write(a, vb, node)
            it.write(b, va, node)
            return None
        return StdHooks.external_call(self, it, name, node, args, this_cell)

    def _val(self, it, a):
        if a.get('lv') or a.get('xv'):
            return it.lval(a).value
        return it.eval(a)

    def apply_op(self, word, op):
        if op == 'N':
            return list(word)
        if op == 'H':
            return [Factor(f.entries, f.n, f.label, 'N' if f.op == 'H' else 'H') for f in reversed(word)]
        raise Unsupported('transpose (without conjugation) of a product word')

    def explicit(self, m, op):
        n1, n2 = m.n1, m.n2
        M = [[m.get(r, c) for c in range(n2)] for r in range(n1)]
        if op == 'N':
            return M
        if op == 'H':
            return mat_dagger(M)
        return [[M[c][r] for c in range(n1)] for r in range(n2)]

    def complex_call(self, it, meth, node, args, this_cell):
        if meth == 'complex':
            if node.get('copyCtor') or node.get('moveCtor'):
                re_, im_ = cplx_parts(it.lval(args[0]))
            else:
                re_ = it.to_poly(it.eval(args[0])) if len(args) > 0 else Poly()
                im_ = it.to_poly(it.eval(args[1])) if len(args) > 1 else Poly()
            this_cell.value = cplx_obj(re_, im_)
            return None
        re_, im_ = cplx_parts(this_cell)
        if meth == 'real':
            return re_
        if meth == 'imag':
            return im_
        raise Unsupported('std::complex::%s at %s' % (meth, it.loc(node)))

    def unique_ptr_call(self, it, meth, node, args, this_cell):
        if not meth.startswith('operator'):
            meth = meth.split('<')[0]
        if meth == 'unique_ptr':
            o = Obj('std::unique_ptr', None, this_cell.name if this_cell else None)
            if node.get('moveCtor'):
                src = it.lval(args[0])
                so = src.value
                o.field('p').value = so.fields['p'].value
                o.field('deleter').value = so.fields.get('deleter').value if 'deleter' in so.fields else UNDEF
                so.fields['p'].value = NULL
            else:
                p = it.eval(args[0]) if args else NULL
                if isinstance(p, int) and p == 0:
                    p = NULL
                o.field('p').value = p
                o.field('deleter').value = it.eval(args[1]) if len(args) > 1 else UNDEF
            this_cell.value = o
            return None
        if meth == '~unique_ptr':
            return None
        o = this_cell.value
        p = o.fields['p'].value
        if meth == 'get':
            return p
        if meth in ('operator->',):
            return p
        if meth == 'operator*':
            return it.deref(p, node)
        if meth == 'operator[]':
            i = it.eval(args[0])
            return it.deref(it.ptr_add(p, i), node)
        if meth == 'operator bool':
            return 0 if p.is_null() else 1
        if meth == 'release':
            o.fields['p'].value = NULL
            return p
        if meth == 'reset':
            np_ = it.eval(args[0]) if args else NULL
            if hasattr(self, 'on_unique_reset'):
                self.on_unique_reset(it, node, p, np_)
            o.fields['p'].value = np_
            return None
        if meth == 'operator=':
            src = it.lval(args[0])
            so = src.value
            if hasattr(self, 'on_unique_reset'):
                self.on_unique_reset(it, node, p, so.fields['p'].value if isinstance(so, Obj) and 'p' in so.fields else NULL)
            if isinstance(so, Obj) and 'p' in so.fields:
                o.fields['p'].value = so.fields['p'].value
                so.fields['p'].value = NULL
            else:
                o.fields['p'].value = NULL
            return this_cell
        raise Unsupported('std::unique_ptr::%s at %s' % (meth, it.loc(node)))


class IndexViolation(Exception):
    def __init__(self, where, what):
        self.where = where
        self.what = what

    def __str__(self):
        return '%s: %s' % (self.where, self.what)
