"""C11 — averaging and low-pass filters remove exactly the documented fast oscillations.
Engine A (+ guard rules): the four filter families are abstractly interpreted for d=2..6; data
dependent branches are kept as guards, giving for every level pair k a small guarded table
(condition -> value) that is compared with the documented piecewise definition.  The phase /
frequency used for pair k must be that of the pair the consumer kernel associates with k
(taken from the unaveraged PrepareEvolve table, which C03 ties to the consumer).  Every division
by an input-dependent quantity must be dominated by guards that exclude a zero divisor."""
from astdb import AnalysisBroken
from interp import Interp, Obj, Cell, Thrown, Ptr, Region, ITE, Cond, Unsupported
from kernels import make_suv, flatten_ite
from poly import Poly, apply_func, atom_arg, atom_of
from stdmodel import StdHooks, make_vector
from gslmodel import GslHooks
import basis
import c03

DIMS = basis.DIMS


class FilterHooks(GslHooks):
    def __init__(self):
        GslHooks.__init__(self)
        self.assumed = []
        self.events = []

    def external_call(self, it, name, node, args, this_cell):
        if name.startswith('std::_Bit_reference::operator='):
            v = it.eval(args[0])
            it.write(this_cell, 1 if v else 0, node)
            return this_cell
        if name == 'printf':
            return 0
        return GslHooks.external_call(self, it, name, node, args, this_cell)

    def assume(self, it, cond, node):
        self.assumed.append((cond, it.loc(node)))
        self.events.append(('assume', cond))

    def on_write(self, it, cell, old, new, node):
        if cell.region is not None and cell.region.name == 'buffer':
            self.events.append(('write', cell.idx))


def plain_args(db, d, t):
    """phase argument of pair k in the unaveraged table (list indexed by k), or None where unrecognised"""
    f, buf, writes, hooks, it = c03.run_prepare(db, d, 2, lambda: [t])
    npair = d * (d - 1) // 2
    out = []
    for k in range(npair):
        from guarded import generic_leaf
        s = generic_leaf(buf.cell(npair + k).value)  # special-cased arguments (t == 0, ...) are C03's concern
        fa = c03.func_arg(s, 'sin') if isinstance(s, Poly) else None
        out.append(fa[1] * fa[0] if fa else None)
    return out


def run_filter(db, name, nparams, d, extra, buf_content=None, pred=None):
    unit = db.unit('SUNalg')
    f = db.one('SUNalg', 'squids::SU_vector::' + name, nparams, pred)
    h, _ = make_suv('H', d, 'b')
    npair = d * (d - 1) // 2
    buf = Region('buffer', 2 * npair, buf_content, 'heap')
    hooks = FilterHooks()
    it = Interp(unit, hooks)
    it.call(f, h, [Ptr(buf, 0)] + extra)
    return f, buf, hooks, it


def is_fabs_of(p, arg):
    """p == fabs(+-arg) ?"""
    fa = c03.func_arg(p, 'fabs') if isinstance(p, Poly) else None
    if fa is None or fa[0] != 1:
        return False
    return fa[1].equals(arg) or fa[1].equals(-arg)


def cond_gt(c, diff):
    """is c the strict comparison  diff > 0  in any arrangement of its terms (a > b, b < a, with terms moved across)?"""
    if not (isinstance(c, Cond) and c.kind == 'cmp' and isinstance(c.a, Poly) and isinstance(c.b, Poly)):
        return False
    if c.op == '>':
        return (c.a - c.b).equals(diff)
    if c.op == '<':
        return (c.b - c.a).equals(diff)
    return False


def cond_is(c, op, left_is, right_is):
    return isinstance(c, Cond) and c.kind == 'cmp' and c.op == op and left_is(c.a) and right_is(c.b)


def refute_avg(c, s, a, phase, d):
    """evaluate the abstract (CX, SX, flag) at concrete boundary points and compare with the specification"""
    import math
    from guarded import eval_at
    names = sorted(set(phase.vars()) - {'t'})
    pts = []
    for tval in (0.0, 1.0, -2.0):
        for hsel in ('zero', 'ramp', 'neg'):
            base = {('v', 't'): Poly.const(tval)}
            for i, nm in enumerate(names):
                base[('v', nm)] = Poly.const(0.0 if hsel == 'zero' else ((i + 1) * 0.37 if hsel == 'ramp' else -(i + 2) * 1.9))
            ph0 = eval_at(phase, base)
            scales = [0.0, 1.0, -1.0, 1e-3, 1e12]
            if ph0 is not None:
                scales += [ph0, -ph0, 2 * ph0, 0.5 * ph0]  # threshold hit exactly, from both sides, either sign of the scale
            for scale in scales:
                m = dict(base)
                m[('v', 'scale')] = Poly.const(scale)
                pts.append((tval, scale, hsel, m))
    for tval, scale, hsel, m in pts:
        ph = eval_at(phase, m)
        if ph is None:
            continue
        averaged = abs(ph) > abs(scale)
        want = (0.0, 0.0, 1.0) if averaged else (math.cos(ph), math.sin(ph), 0.0)
        mm = dict(m)
        from guarded import all_vars
        for nm_ in all_vars(a) | all_vars(c) | all_vars(s):
            if nm_.startswith('AVRPREV'):
                mm[('v', nm_)] = Poly.const(1)
        got = (eval_at(c, mm), eval_at(s, mm), eval_at(a, mm))
        if any(g is None for g in got):
            continue
        if any(abs(g - w) > 1e-9 for g, w in zip(got, want)):
            return 't=%g scale=%g H=%s: phase=%g, (cos,sin,flag) = (%g,%g,%g), specification (%g,%g,%g)' % ((tval, scale, hsel, ph) + got + want)
    return None


def check_avg(db, rep):
    """PrepareEvolve(buffer,t,scale,avr)"""
    unit = db.unit('SUNalg')
    n_term = n_thr = 0
    for d in DIMS:
        npair = d * (d - 1) // 2
        t, scale = Poly.var('t'), Poly.var('scale')
        plain = plain_args(db, d, t)
        avr = make_vector('avr', npair, lambda k: Poly.var('AVRPREV%d' % k))  # what the caller's flag vector held before the call
        where = 'include/SQuIDS/SU_inc/PreSinCosEvolSU%dAvg.txt' % d
        try:
            f, buf, hooks, it = run_filter(db, 'PrepareEvolve', 4, d, [t, scale, avr])
        except Thrown as th:
            rep.fail('A.avg.thresh', 'PrepareEvolveAvg/%d' % d, unit.loc(th.node), 'table for dimension %d' % d, 'throw: %s' % th.what)
            continue
        rep.fn(f['name'] + '(double*,double,double,std::vector<bool>&)')
        avreg = avr.value.fields['data'].value
        for k in range(npair):
            n_term += 1
            n_thr += 1
            site = 'PrepareEvolveAvg/%d/pair%d' % (d, k)
            want_arg = plain[k]
            if want_arg is None:
                rep.break_('unaveraged table entry %d of dimension %d not recognised' % (k, d))
                continue
            c, s, a = buf.cell(k).value, buf.cell(npair + k).value, avreg.cell(k).value
            ok = True
            why = ''
            definite = False
            for what, v, hi, lo in (('CX', c, Poly(), apply_func('cos', want_arg)), ('SX', s, Poly(), apply_func('sin', want_arg)), ('avr', a, 1, 0)):
                if not isinstance(v, ITE):
                    ok, why = False, '%s[%d] is not a two-armed guarded value: %r' % (what, k, v)
                    break
                cnd = v.cond
                # strict comparison |term| > |scale|, term = the pair's phase
                if not (cond_is(cnd, '>', lambda p: is_fabs_of(p, want_arg), lambda p: is_fabs_of(p, scale))
                        or cond_is(cnd, '>', lambda p: isinstance(p, Poly) and p.equals(want_arg * want_arg), lambda p: isinstance(p, Poly) and p.equals(scale * scale))
                        or cond_is(cnd, '<', lambda p: is_fabs_of(p, scale), lambda p: is_fabs_of(p, want_arg))):
                    if cond_is(cnd, '>', lambda p: True, lambda p: is_fabs_of(p, scale)) or cond_is(cnd, '>=', lambda p: True, lambda p: True) \
                            or cond_is(cnd, '<', lambda p: True, lambda p: True):
                        pass
                    ok, why = False, '%s[%d] guarded by %r' % (what, k, cnd)
                    break
                for arm, want in ((v.a, hi), (v.b, lo)):
                    if isinstance(want, Poly):
                        good = isinstance(arm, Poly) and arm.equals(want)
                    else:
                        good = (not isinstance(arm, (Poly, ITE))) and int(arm) == want
                    if not good:
                        ok, why = False, '%s[%d] arm %r, expected %s' % (what, k, arm, want)
                        definite = True  # the guard is the documented one; the value stored under it is not
                        break
                if not ok:
                    break
            if ok:
                rep.ok('A.avg.term')
                rep.ok('A.avg.thresh')
                if k == 0:
                    rep.sample('A.avg.thresh', 'd=%d pair 0: SX=%r' % (d, s))
            else:
                # the guard structure is not the one recognised above: that alone is no violation.  Evaluate the
                # abstract result at boundary points of the specification (zero / equal / larger phase, zero /
                # negative / huge scale); a point where it differs from the specification is a counterexample
                cex = refute_avg(c, s, a, want_arg, d)
                if definite:
                    rep.fail('A.avg.thresh', site, where, '|phase_k| > |scale| ? (0,0,true) : (sin,cos,false) with phase_k = %s' % want_arg,
                             why + ('; counterexample %s' % cex if cex else ''), f['name'])
                elif cex:
                    rep.fail('A.avg.thresh', site, where, '|phase_k| > |scale| ? (0,0,true) : (sin,cos,false) with phase_k = %s' % want_arg,
                             '%s; counterexample %s' % (why, cex), f['name'])
                else:
                    rep.break_('%s: %s — structure not recognised and no counterexample among the boundary points; cannot decide' % (site, why))
    rep.floor('A.avg.thresh', n_thr, 35)
    return n_term


def ramp_table_ok(v, X, term, cutoff, scale):
    """v must be ITE(|term|>|cutoff|, 0, ITE(|term|>|cutoff|-|scale|, X*(|cutoff|-|term|)/|scale|, X))"""
    fabs = lambda p: apply_func('fabs', p)
    if not isinstance(v, ITE):
        return 'not a guarded value: %r' % (v,)
    if not cond_gt(v.cond, fabs(term) - fabs(cutoff)):
        return 'outer guard %r' % (v.cond,)
    if not (isinstance(v.a, Poly) and v.a.is_zero()):
        return 'value above the cutoff is %r, expected 0' % (v.a,)
    inner = v.b
    if not isinstance(inner, ITE):
        return 'no ramp region: %r' % (inner,)
    thr = fabs(cutoff) - fabs(scale)
    if not cond_gt(inner.cond, fabs(term) - thr):
        return 'ramp guard %r' % (inner.cond,)
    ft = fabs(term)
    want = (X * (fabs(cutoff) - ft)).div(fabs(scale))
    if not (isinstance(inner.a, Poly) and inner.a.equals(want)):
        return 'ramp value %r, expected %s' % (inner.a, want)
    if not (isinstance(inner.b, Poly) and inner.b.equals(X)):
        return 'pass-through value %r, expected %s' % (inner.b, X)
    return None


def refute_ramp(cells, term, has_t):
    """evaluate the filtered table entries at boundary points of the piecewise specification"""
    from guarded import eval_at
    names = sorted(set(term.vars()) - {'t'})
    for tval in ((1.0, -2.0, 0.0) if has_t else (1.0,)):
        for hsel in ('ramp', 'neg', 'zero'):
            base = {('v', 't'): Poly.const(tval)}
            for i, nm in enumerate(names):
                base[('v', nm)] = Poly.const(0.0 if hsel == 'zero' else ((i + 1) * 0.37 if hsel == 'ramp' else -(i + 2) * 1.9))
            x = eval_at(term, base)
            if x is None:
                continue
            ax = abs(x)
            # (cutoff, scale) chosen so that |term| falls below the ramp, on its edges, inside it and above the cutoff
            combos = [(2 * ax + 1, 0.5), (ax, 0.0), (ax, 0.25 * ax), (1.25 * ax, 0.5 * ax), (1.25 * ax, -0.5 * ax), (-1.25 * ax, 0.5 * ax),
                      (0.5 * ax, 0.1 * ax), (ax + 1.0, 1.0), (ax + 0.5, 1.0), (ax + 0.5, -1.0), (4.0, 4.0), (1.0, 0.0), (0.0, 0.0)]
            for cutoff, scale in combos:
                if abs(scale) > abs(cutoff):
                    continue  # rejected by the entry guard
                m = dict(base)
                m[('v', 'cutoff')] = Poly.const(cutoff)
                m[('v', 'scale')] = Poly.const(scale)
                if ax > abs(cutoff):
                    w = 0.0
                elif ax > abs(cutoff) - abs(scale):
                    w = (abs(cutoff) - ax) / abs(scale)
                else:
                    w = 1.0
                for v, xname in cells:
                    mm = dict(m)
                    mm[('v', xname)] = Poly.const(1.0)
                    g = eval_at(v, mm)
                    if g is None:
                        continue
                    if abs(g - w) > 1e-9:
                        return 't=%g term=%g cutoff=%g ramp=%g: factor applied to %s is %g, specification %g' % (tval, x, cutoff, scale, xname, g, w)
    return None


def check_ramp(db, rep):
    unit = db.unit('SUNalg')
    n_term = 0
    n_piece = 0
    for fam, name, nparams, fam_file in (('LowPass', 'LowPassFilter', 3, 'LowPassFilterSU%d.txt'), ('AvgRamp', 'AvgRampFilter', 4, 'AvgWithRampSU%d.txt')):
        for d in DIMS:
            npair = d * (d - 1) // 2
            t, cutoff, scale = Poly.var('t'), Poly.var('cutoff'), Poly.var('scale')
            one = Poly.const(1)
            plain = plain_args(db, d, one if fam == 'LowPass' else t)  # frequency = phase at t=1
            content = lambda k, n=npair: Poly.var(('CX%d' % k) if k < n else 'SX%d' % (k - n))
            extra = [cutoff, scale] if fam == 'LowPass' else [t, cutoff, scale]
            where = 'include/SQuIDS/SU_inc/' + fam_file % d
            try:
                f, buf, hooks, it = run_filter(db, name, nparams, d, extra, content)
            except Thrown as th:
                rep.fail('A.ramp.piece', '%s/%d' % (name, d), unit.loc(th.node), 'filter for dimension %d' % d, 'throw: %s' % th.what)
                continue
            rep.fn(f['name'])
            # C.ramp.guard: |scale|>|cutoff| rejected before any write
            first = hooks.events[0] if hooks.events else None
            good_guard = False
            if first and first[0] == 'assume':
                g = first[1]
                # the surviving path assumes not(|scale| > |cutoff|)
                if cond_is(g, '<=', lambda p: is_fabs_of(p, scale), lambda p: is_fabs_of(p, cutoff)):
                    good_guard = True
            if d == 2:
                n_piece += 1
                if good_guard:
                    rep.ok('C.ramp.guard')
                else:
                    rep.fail('C.ramp.guard', name, unit.loc(f), 'a ramp wider than the cutoff is rejected before the buffer is touched',
                             'first effect: %r' % (first,), f['name'])
            for k in range(npair):
                n_term += 1
                site = '%s/%d/pair%d' % (name, d, k)
                term = plain[k]
                if term is None:
                    rep.break_('unaveraged table entry %d of dimension %d not recognised' % (k, d))
                    continue
                bad = None
                for what, idx, X in (('CX', k, Poly.var('CX%d' % k)), ('SX', npair + k, Poly.var('SX%d' % k))):
                    bad = ramp_table_ok(buf.cell(idx).value, X, term, cutoff, scale)
                    if bad:
                        bad = '%s[%d]: %s' % (what, k, bad)
                        break
                if bad is None:
                    rep.ok('A.avg.term')
                    if k == 0 and d == 3:
                        rep.sample('A.ramp.piece', '%s d=3 pair 0: CX -> %r' % (name, buf.cell(0).value))
                else:
                    # not the recognised piecewise structure: refute at boundary points or give up, never report on shape alone
                    cex = refute_ramp([(buf.cell(k).value, 'CX%d' % k), (buf.cell(npair + k).value, 'SX%d' % k)], term, fam == 'AvgRamp')
                    if cex:
                        rep.fail('A.avg.term', site, where,
                                 'x0 above |cutoff|, linear ramp (|cutoff|-|term|)/|scale| inside, untouched below; term = %s' % term,
                                 '%s; counterexample %s' % (bad, cex), f['name'])
                    else:
                        rep.break_('%s: %s — structure not recognised and no counterexample among the boundary points; cannot decide' % (site, bad))
            # divisions: only by |scale| and only where guards imply |scale| > 0
            for node, num, den, assumptions in hooks.divisions:
                site = '%s/%d/div@%s' % (name, d, unit.loc(node).split(':')[-1])
                if division_guarded(den, assumptions):
                    rep.ok('A.div.guard')
                else:
                    rep.fail('A.div.guard', '%s/%d' % (name, d), unit.loc(node), 'division by an input-dependent quantity only under guards excluding zero',
                             'divisor %s under %s' % (den, assumptions), f['name'])
    rep.floor('C.ramp.guard', n_piece, 2)
    return n_term


def division_guarded(den, assumptions):
    """den is provably non-zero under the assumptions: every guard is read as S > 0 (strict) or N >= 0; den != 0 if den
    (or -den) equals one strict quantity plus at most two non-strict ones (a positive combination with unit weights),
    or if a guard states den != 0 directly"""
    strict, weak = [], []
    for a in assumptions:
        if not isinstance(a, Cond) or a.kind != 'cmp' or not isinstance(a.a, Poly) or not isinstance(a.b, Poly):
            continue
        if a.op == '>':
            strict.append(a.a - a.b)
        elif a.op == '<':
            strict.append(a.b - a.a)
        elif a.op == '>=':
            weak.append(a.a - a.b)
        elif a.op == '<=':
            weak.append(a.b - a.a)
        elif a.op == '!=':
            if (a.a - a.b).equals(den) or (a.b - a.a).equals(den):
                return True
    for target in (den, -den):
        for s_ in strict:
            if s_.equals(target):
                return True
            r1 = target - s_
            for i, w1 in enumerate(weak):
                if w1.equals(r1):
                    return True
                r2 = r1 - w1
                for w2 in weak[i + 1:]:
                    if w2.equals(r2):
                        return True
    return False


def check_range(db, rep):
    """PrepareEvolve(buffer,t_start,t_end): exact interval averages, and finiteness"""
    unit = db.unit('SUNalg')
    n = 0
    for d in DIMS:
        npair = d * (d - 1) // 2
        t0, t1 = Poly.var('t0'), Poly.var('t1')
        alpha = plain_args(db, d, Poly.const(1))
        where = 'include/SQuIDS/SU_inc/PreSinCosEvolSU%dAvgRange.txt' % d
        try:
            f, buf, hooks, it = run_filter(db, 'PrepareEvolve', 3, d, [t0, t1], None,
                                           lambda f: f['params'][1]['t'] == 'double' and f['params'][2]['t'] == 'double')
        except Thrown as th:
            rep.fail('A.avg.range', 'PrepareEvolveRange/%d' % d, unit.loc(th.node), 'table for dimension %d' % d, 'throw: %s' % th.what)
            continue
        rep.fn(f['name'] + '(double*,double,double)')
        for k in range(npair):
            n += 1
            site = 'PrepareEvolveRange/%d/pair%d' % (d, k)
            al = alpha[k]
            if al is None:
                rep.break_('unaveraged table entry %d of dimension %d not recognised' % (k, d))
                continue
            den = al * (t1 - t0)
            want_s = (apply_func('cos', al * t0) - apply_func('cos', al * t1)).div(den)
            want_c = (apply_func('sin', al * t1) - apply_func('sin', al * t0)).div(den)
            c, s = buf.cell(k).value, buf.cell(npair + k).value
            if isinstance(c, Poly) and isinstance(s, Poly) and c.equals(want_c) and s.equals(want_s):
                rep.ok('A.avg.range')
                if k == 0 and d == 3:
                    rep.sample('A.avg.range', 'd=3 pair 0: CX=%s' % c)
            else:
                rep.fail('A.avg.range', site, where, 'CX,SX = exact averages of cos/sin(omega_k t) over [t0,t1], omega_k = %s' % al,
                         'CX=%s SX=%s' % (c, s), f['name'])
        # finiteness: every division must be guarded against a vanishing level difference
        seen = set()
        for node, num, den, assumptions in hooks.divisions:
            # which pair: the divisor is omega_k * (t1 - t0)
            kk = None
            for k in range(npair):
                if alpha[k] is not None and (den.equals(alpha[k] * (t1 - t0)) or den.equals(-(alpha[k] * (t1 - t0)))):
                    kk = k
                    break
            site = 'PrepareEvolveRange/%d/pair%s' % (d, kk if kk is not None else '?@' + unit.loc(node))
            if site in seen:
                continue
            seen.add(site)
            # t0 < t1 is a precondition of the property: only the level difference needs a guard
            guarded = False
            if kk is not None:
                for a in assumptions:
                    if isinstance(a, Cond) and a.kind == 'cmp' and a.op in ('!=', '>', '<'):
                        for x, y in ((a.a, a.b), (a.b, a.a)):
                            if (y.is_zero() or (y.is_const() and a.op != '!=')) and (x.equals(alpha[kk]) or x.equals(-alpha[kk]) or is_fabs_of(x, alpha[kk])):
                                guarded = True
            if guarded or division_guarded(den, assumptions):
                rep.ok('A.div.guard')
            else:
                rep.fail('A.div.guard', site, unit.loc(node),
                         'division by omega_k*(t1-t0) only under a guard excluding omega_k = 0 (coincident levels)',
                         'unguarded division by %s: 0/0 = NaN for coincident levels' % den, f['name'])
    rep.floor('A.avg.range', n, 35)


def run(db, rep, tier):
    rep.trusted += ['clang 14 AST of /repo sources', 'sqdump extractor + abstract interpreter (data-dependent branches merged into guarded values)',
                    'mpmath 50-digit arithmetic; real-number semantics; fabs/sin/cos as exact functions with parity',
                    'the unaveraged PrepareEvolve table fixes which level pair index k denotes (tied to the consumer kernel by C03)',
                    'std::vector<bool>::operator[] / _Bit_reference::operator= summarised as element access']
    rep.declined += ['rounding']
    n1 = check_avg(db, rep)
    n2 = check_ramp(db, rep)
    rep.floor('A.avg.term', n1 + n2, 3 * 35)
    check_range(db, rep)
