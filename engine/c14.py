"""C14 — mismatched or unsupported dimensions are rejected before any read or write.
Engine C (guard dominance, decided by abstract interpretation over the finite set of dimension
pairs): binary entry points are *discovered* from the AST (public functions receiving two
SU_vectors, or one and a GSL matrix); each is interpreted for all 20 ordered pairs d1 != d2 with
symbolic component data.  Required outcome: an exception is raised on that path, no operand
field or component has been written, and no abstract memory block has been accessed outside its
extent.  Constructors and factories are interpreted over the window of unsupported arguments named
by the property."""
import re
from astdb import AnalysisBroken, sig
from interp import (AssertionAbort, Interp, Obj, Cell, Thrown, Ptr, Region, Unsupported, OutOfBounds, Opaque, NULL, UNDEF)
from kernels import make_suv, SUV
from poly import Poly, CPoly
from gslmodel import GslHooks, IndexViolation
from stdmodel import make_vector
import basis

DIMS = basis.DIMS
MAXD = 6
SUV_T = ('const squids::SU_vector &', 'squids::SU_vector &&', 'squids::SU_vector &', 'squids::SU_vector')
MAT_T = ('const gsl_matrix_complex *', 'gsl_matrix_complex *')

# discovered entry points that the property does not list; each with a one-line reason (printed in the evidence)
NOT_REQUIRED = {
    'squids::SUTrace': 'raw kernel below the checked operator*; documented as the unchecked building block',
    'squids::SU_vector::UTransform': 'unitary transformation by exp(scale*v) / by a matrix: not in the property\'s list of binary operations',
    'squids::SU_vector::UDaggerTransform': 'not in the property\'s list of binary operations',
    'squids::SU_vector::WeightedRotation': 'not in the property\'s list; the Yd operand is guarded through ACommutator/iCommutator',
    'squids::SU_vector::GetGSLMatrix': 'output parameter with a documented precondition (\\pre m is square of size Dim())',
    'squids::SU_vector::operator==': 'comparison, not a combination: returns false for different dimensions (C01 rule A.loop.eq)',
}


class UninitRead(Exception):
    def __init__(self, what, where):
        Exception.__init__(self, what)
        self.what, self.where = what, where


class GuardHooks(GslHooks):
    def on_undef_read(self, it, cell, node):
        # a heap block obtained by the operation itself, read where nothing was written: the kernel runs over more
        # components than the (smaller) operand or temporary has
        if cell.region is not None and cell.region.kind == 'heap':
            raise UninitRead('read of %s, which lies beyond the components written for that vector (uninitialised storage)' % cell.where(),
                             it.loc(node) if node else None)
        return NotImplemented

    def __init__(self):
        GslHooks.__init__(self)
        self.operand_regions = []
        self.operand_cells = set()
        self.writes = []
        self.news = 0
        self.cache_region = None

    def on_write(self, it, cell, old, new, node):
        if cell.region is not None and any(cell.region is r for r in self.operand_regions):
            self.writes.append('%s at %s' % (cell.where(), it.loc(node) if node else '?'))
        elif id(cell) in self.operand_cells:
            self.writes.append('%s at %s' % (cell.where(), it.loc(node) if node else '?'))

    def on_new(self, it, node, count, elem_type):
        self.news += 1
        return GslHooks.on_new(self, it, node, count, elem_type)

    def external_call(self, it, name, node, args, this_cell):
        if name.startswith('squids::Const::Get'):
            return Poly.var('k_' + name.split('::')[-1])
        if name.startswith('std::multiplies<double>::operator()'):
            a, b = it.eval(args[0]), it.eval(args[1])
            a = a.value if isinstance(a, Cell) else a
            b = b.value if isinstance(b, Cell) else b
            return it.to_poly(a) * it.to_poly(b)
        if name.startswith('std::multiplies<double>::multiplies'):
            return Obj('std::multiplies<double>')
        return GslHooks.external_call(self, it, name, node, args, this_cell)

    def override_call(self, it, fdecl, node, args, this_cell):
        nm = fdecl['name']
        # the per-dimension block cache: the array subscript is interpreted (extent MAX+1), the list operations are summarised
        if nm.startswith('squids::detail::cache<') and nm.endswith('::get'):
            o = Obj('squids::SU_vector::mem_cache_entry')
            o.field('storage').value = NULL
            o.field('offset').value = 0
            return o
        if nm.startswith('squids::detail::cache<') and nm.endswith('::insert'):
            return 0
        if nm in ('squids::SU_vector::alloc_aligned', 'squids::SU_vector::deallocate_mem'):
            return NotImplemented  # interpret the real bodies here (not the kernel-engine summary)
        return NotImplemented

    def global_cell(self, it, node):
        q = node.get('qname') or node.get('name')
        if q == 'squids::SU_vector::storage_cache':
            if self.cache_region is None:
                self.cache_region = Region('storage_cache', MAXD + 1, lambda i: Obj('cache', None, 'storage_cache[%d]' % i), 'static')
            return Cell(self.cache_region, None, 0, 'storage_cache')
        return GslHooks.global_cell(self, it, node)

    def pointer_int(self, it, node, v):
        return 0  # addresses are abstract: treat every block as aligned (alignment is C15's concern)


PROXY_MEMBER = re.compile(r'^squids::detail::EvaluationProxy<squids::detail::(\w+)Proxy>::(operator\*|operator\+|operator-|Evolve)(<.*)?$')
PROXY_PARAM = re.compile(r'^const squids::detail::(\w+)Proxy &$')
PROXY_OPS = ('Addition', 'Subtraction')


def discover(db):
    """binary entry points: (unit name, fdecl, kind) with kind in 'vv' (two vectors) / 'vm' (vector and matrix)"""
    found = {}
    for uname in ('SUNalg', 'instantiate'):
        unit = db.unit(uname)
        for f in unit.functions:
            if f.get('lambda') or f.get('dtor'):
                continue
            # members of EvaluationProxy<Op>: an unevaluated expression combined with a vector or another expression
            m = PROXY_MEMBER.match(f['name'])
            if m and f.get('access') == 'public' and f['params']:
                t0 = f['params'][0]['t']
                pk = 'pv' if t0 in SUV_T else ('pp' if PROXY_PARAM.match(t0) else None)
                if pk and m.group(1) in PROXY_OPS and (pk == 'pv' or PROXY_PARAM.match(t0).group(1) in PROXY_OPS):
                    key = sig(f)
                    if key not in found:
                        found[key] = (uname, f, pk)
                continue
            nvec = sum(1 for p in f['params'] if p['t'] in SUV_T)
            nmat = sum(1 for p in f['params'] if p['t'] in MAT_T)
            is_method = f.get('record') == SUV and not f.get('staticMethod')
            if f.get('record') and f.get('record') != SUV:
                continue
            if f.get('record') == SUV and f.get('access') != 'public':
                continue
            if not f['qname'].startswith('squids::') or f.get('anon'):
                continue
            if f.get('ctor') or f.get('copyAssign') or f.get('moveAssign'):
                continue
            kind = None
            if is_method and nvec >= 1:
                kind = 'vv'
            elif is_method and nmat >= 1:
                kind = 'vm'
            elif not f.get('record') and nvec >= 2:
                kind = 'vv'
            if kind is None:
                continue
            key = sig(f)
            if key not in found:
                found[key] = (uname, f, kind)
    return found


def make_args(hooks, f, d2, this_d):
    """abstract arguments for entry point f: SU_vector params get dimension d2 (the first one) and this_d for
    further ones; returns (argvals, operand cells)"""
    args = []
    operands = []
    nth = 0
    for p in f['params']:
        t = p['t']
        if t in SUV_T:
            dd = d2 if nth == 0 else this_d
            c, reg = make_suv('arg%d' % nth, dd, 'b' if nth == 0 else 'c')
            nth += 1
            operands.append((c, reg))
            args.append(c)
        elif t in MAT_T:
            m = hooks.new_matrix(d2, d2, 'U', lambda r, c: CPoly(Poly.var('ur%d_%d' % (r, c)), Poly.var('ui%d_%d' % (r, c))))
            args.append(m.ptr)
        elif t in ('double', 'const double'):
            args.append(Poly.var(p.get('name') or 'x'))
        elif t == 'gsl_complex':
            from kernels import gsl_complex
            args.append(gsl_complex(Poly.var('zr'), Poly.var('zi')))
        elif 'squids::Const' in t:
            args.append(Cell(Obj('squids::Const', None, p.get('name')), None, 0, p.get('name')))
        elif t.startswith('std::multiplies'):
            args.append(Obj('std::multiplies<double>'))
        elif t in ('unsigned int', 'int', 'bool'):
            args.append(0)
        else:
            raise Unsupported('cannot synthesise an argument of type %s for %s' % (t, f['name']))
    return args, operands


def run_pair(db, uname, f, kind, d1, d2):
    """returns (outcome, detail): outcome in 'throw', 'oob', 'write', 'nothrow'"""
    unit = db.unit(uname)
    hooks = GuardHooks()
    is_method = f.get('record') == SUV and not f.get('staticMethod')
    this = None
    operands = []
    if kind in ('pv', 'pp'):
        import proxies
        # this = an unevaluated expression over two vectors of dimension d1
        a1, r1 = make_suv('lhs1', d1, 'a')
        a2, r2 = make_suv('lhs2', d1, 'e')
        operands += [(a1, r1), (a2, r2)]
        pobj, _ = proxies.build_proxy(db, PROXY_MEMBER.match(f['name']).group(1), a1, a2, proxies.ProxyHooks())
        this = Cell(pobj, None, 0, 'expr1')
        t0 = f['params'][0]['t']
        if kind == 'pv':
            c, reg = make_suv('rhs', d2, 'b')
            operands.append((c, reg))
            first = c
        else:
            b1, s1 = make_suv('rhs1', d2, 'b')
            b2, s2 = make_suv('rhs2', d2, 'c')
            operands += [(b1, s1), (b2, s2)]
            qobj, _ = proxies.build_proxy(db, PROXY_PARAM.match(t0).group(1), b1, b2, proxies.ProxyHooks())
            first = Cell(qobj, None, 0, 'expr2')
        args = [first] + [Poly.var(p.get('name') or 'x') for p in f['params'][1:]]
    else:
        if is_method:
            this, reg = make_suv('self', d1, 'a')
            operands.append((this, reg))
        args, ops = make_args(hooks, f, d2, d1)
        operands += ops
    for c, reg in operands:
        hooks.operand_regions.append(reg)
        for fc in c.value.fields.values():
            hooks.operand_cells.add(id(fc))
    it = Interp(unit, hooks)
    try:
        res = it.call(f, this, args)
    except Thrown as t:
        if isinstance(t, AssertionAbort):
            return 'abort', 'the mismatch is caught by an assert() only: the process is aborted instead of an exception being raised, and nothing is checked when NDEBUG is defined', unit.loc(t.node)
        if hooks.writes:
            return 'write', 'operand modified before the exception: %s' % hooks.writes[0], unit.loc(t.node)
        return 'throw', t.what, unit.loc(t.node)
    except OutOfBounds as e:
        return 'oob', str(e), e.where or unit.loc(f)
    except IndexViolation as e:
        return 'oob', e.what, e.where
    except UninitRead as e:
        return 'oob', e.what, e.where or unit.loc(f)
    return 'nothrow', 'returns %s without an exception' % (('a ' + res.rec.split('::')[-1]) if isinstance(res, Obj) else 'normally'), unit.loc(f)


def check_binary(db, rep):
    found = discover(db)
    n_req = 0
    notreq = []
    for key in sorted(found):
        uname, f, kind = found[key]
        base = f['qname'].split('<')[0]
        rep.fn(key)
        required = base not in NOT_REQUIRED
        outcomes = {}
        first_bad = None
        try:
            for d1 in (DIMS if required else (2, 3)):
                for d2 in (DIMS if required else (2, 3)):
                    if d1 == d2:
                        continue
                    out, detail, where = run_pair(db, uname, f, kind, d1, d2)
                    outcomes[out] = outcomes.get(out, 0) + 1
                    if out != 'throw' and first_bad is None:
                        first_bad = (d1, d2, out, detail, where)
        except Unsupported as e:
            if required:
                raise
            notreq.append('%s: not analysed (%s)' % (key, e))
            continue
        if not required:
            notreq.append('%s: %s [%s]' % (key, dict(outcomes), NOT_REQUIRED[base]))
            continue
        n_req += 1
        if first_bad is None:
            rep.ok('C.dim.binary')
            rep.sample('C.dim.binary', '%s: exception on all 20 ordered pairs d1!=d2, operands untouched' % key, limit=4)
        else:
            d1, d2, out, detail, where = first_bad
            rep.fail('C.dim.binary', f['qname'].split('<')[0] + '(' + ','.join(p['t'] for p in f['params']) + ')', where,
                     'an exception before any write or out-of-extent access for dimensions (%d,%d)' % (d1, d2),
                     '%s (%d of 20 pairs affected)' % (detail, 20 - outcomes.get('throw', 0)), key)
    rep.floor('C.dim.binary', n_req, 15)
    rep.notes.append('discovered but not required by the property: ' + ' | '.join(notreq))


def run_ctor(db, f, this, args):
    unit = db.unit('SUNalg')
    hooks = GuardHooks()
    it = Interp(unit, hooks)
    try:
        it.call(f, this, args)
    except Thrown as t:
        return 'throw', t.what, unit.loc(t.node), hooks
    except OutOfBounds as e:
        return 'oob', str(e), e.where or unit.loc(f), hooks
    except IndexViolation as e:
        return 'oob', e.what, e.where, hooks
    return 'nothrow', 'accepted', unit.loc(f), hooks


def check_ctors(db, rep):
    unit = db.unit('SUNalg')
    n = 0

    def verdict(site, f, cases):
        """cases: list of (label, thunk) that must all throw"""
        nonlocal n
        n += 1
        rep.fn(sig(f))
        bad = None
        for label, thunk in cases:
            out, detail, where, hooks = thunk()
            if out != 'throw':
                bad = (label, out, detail, where)
                break
        if bad is None:
            rep.ok('C.dim.ctor')
            rep.sample('C.dim.ctor', '%s: %d unsupported arguments all rejected' % (site, len(cases)), limit=4)
        else:
            rep.fail('C.dim.ctor', site, bad[3], 'an exception for unsupported argument %s' % bad[0], '%s: %s' % (bad[1], bad[2]), sig(f))

    bad_dims = (1, 7, 8)
    # SU_vector(unsigned)
    f = db.one('SUNalg', 'squids::SU_vector::SU_vector', 1, lambda f: f['params'][0]['t'] == 'unsigned int')
    verdict('SU_vector(unsigned)', f, [('dimension %d' % d, (lambda d=d: run_ctor(db, f, Cell(Obj(SUV, None, 'v'), None, 0, 'v'), [d]))) for d in bad_dims])
    # SU_vector(unsigned, double*)
    f = db.one('SUNalg', 'squids::SU_vector::SU_vector', 2, lambda f: f['params'][0]['t'] == 'unsigned int')
    ext = Region('ext', 64, lambda k: Poly.var('e%d' % k), 'ext')
    verdict('SU_vector(unsigned,double*)', f, [('dimension %d' % d, (lambda d=d: run_ctor(db, f, Cell(Obj(SUV, None, 'v'), None, 0, 'v'), [d, Ptr(ext, 0)]))) for d in bad_dims])
    # make_aligned
    f = db.one('SUNalg', 'squids::SU_vector::make_aligned', 2)
    verdict('make_aligned', f, [('dimension %d, zero_fill=%s' % (d, 'true' if z else 'false'), (lambda d=d, z=z: run_ctor(db, f, None, [d, z])))
                                for d in bad_dims for z in (1, 0)])
    # matrix constructor: non-square and unsupported sizes
    f = basis.f_matrix_ctor(db)

    def mat_case(n1, n2):
        def thunk():
            hooks = GuardHooks()
            m = hooks.new_matrix(n1, n2, 'm', lambda r, c: CPoly(Poly.var('mr'), Poly.var('mi')))
            it = Interp(unit, hooks)
            try:
                it.call(f, Cell(Obj(SUV, None, 'v'), None, 0, 'v'), [m.ptr])
            except Thrown as t:
                return 'throw', t.what, unit.loc(t.node), hooks
            except (OutOfBounds,) as e:
                return 'oob', str(e), e.where or unit.loc(f), hooks
            except IndexViolation as e:
                return 'oob', e.what, e.where, hooks
            return 'nothrow', 'accepted', unit.loc(f), hooks
        return thunk
    cases = [('%dx%d matrix' % (a, b), mat_case(a, b)) for a in range(1, 9) for b in range(1, 9) if a != b]
    cases += [('%dx%d matrix' % (a, a), mat_case(a, a)) for a in (1, 7, 8)]
    verdict('SU_vector(const gsl_matrix_complex*)', f, cases)
    # vector constructor: lengths 1, all non-squares up to 64, 49, 64
    f = db.one('SUNalg', 'squids::SU_vector::SU_vector', 1, lambda f: 'std::vector<double' in f['params'][0]['t'])
    lens = [L for L in range(1, 65) if L not in (4, 9, 16, 25, 36)]
    verdict('SU_vector(const std::vector<double>&)', f,
            [('length %d' % L, (lambda L=L: run_ctor(db, f, Cell(Obj(SUV, None, 'v'), None, 0, 'v'), [make_vector('data', L, lambda k: Poly.var('x%d' % k))]))) for L in lens])
    # factories
    for name in ('Projector', 'PosProjector', 'NegProjector'):
        f = db.one('SUNalg', 'squids::SU_vector::' + name, 2)
        cases = [('(%d,%d)' % (d, 0), (lambda d=d: run_ctor(db, f, None, [d, 0]))) for d in bad_dims]
        cases += [('(%d,%d)' % (d, i), (lambda d=d, i=i: run_ctor(db, f, None, [d, i]))) for d in DIMS for i in range(d, d * d + 3)]
        verdict(name, f, cases)
    f = db.one('SUNalg', 'squids::SU_vector::Identity', 1)
    verdict('Identity', f, [('dimension %d' % d, (lambda d=d: run_ctor(db, f, None, [d]))) for d in bad_dims])
    f = db.one('SUNalg', 'squids::SU_vector::Generator', 2)
    cases = [('(%d,%d)' % (d, 0), (lambda d=d: run_ctor(db, f, None, [d, 0]))) for d in bad_dims]
    cases += [('(%d,%d)' % (d, i), (lambda d=d, i=i: run_ctor(db, f, None, [d, i]))) for d in DIMS for i in range(d * d, d * d + 3)]
    verdict('Generator', f, cases)
    rep.floor('C.dim.ctor', n, 10)


def check_supported_accepted(db, rep):
    """positive side (no false rejection): supported dimensions are accepted by every constructor/factory"""
    f = db.one('SUNalg', 'squids::SU_vector::SU_vector', 1, lambda f: f['params'][0]['t'] == 'unsigned int')
    g = db.one('SUNalg', 'squids::SU_vector::make_aligned', 2)
    h = db.one('SUNalg', 'squids::SU_vector::SU_vector', 2, lambda f: f['params'][0]['t'] == 'unsigned int')
    ext = Region('ext', 64, lambda k: Poly.var('e%d' % k), 'ext')
    for d in DIMS:
        for site, fn, this, args in (('SU_vector(unsigned)', f, Cell(Obj(SUV, None, 'v'), None, 0, 'v'), [d]),
                                     ('make_aligned', g, None, [d, 1]),
                                     ('make_aligned(no fill)', g, None, [d, 0]),
                                     ('SU_vector(unsigned,double*)', h, Cell(Obj(SUV, None, 'v'), None, 0, 'v'), [d, Ptr(ext, 0)])):
            out, detail, where, hooks = run_ctor(db, fn, this, args)
            if out == 'nothrow':
                rep.ok('C.dim.accept')
            else:
                rep.fail('C.dim.accept', '%s/%d' % (site, d), where, 'supported dimension %d accepted' % d, '%s: %s' % (out, detail), sig(fn))


def check_fused(db, rep, tier):
    """`v += expression` and `v -= expression` with an expression of another dimension are binary operations between
    operands of different dimension too: every such statement of the lifecycle exploration (all nine operations, operand
    value categories and storage kinds; shared with C08/C09) must raise, whether or not an operand's storage could be taken"""
    import lifecycle
    data = lifecycle.explore_cached(db, tier)
    seen = set()
    n = sum(1 for k in data['ops'] if k.startswith('v += ') or k.startswith('v -= '))
    for (rule, site, where, expected, found, function, exc, af) in data['findings']:
        if rule == 'B.mustthrow' and not af and site not in seen and ('size-mismatched' in expected or site.startswith('v += ') or site.startswith('v -= ')):
            seen.add(site)
            if len(seen) <= 12:
                rep.fail('C.dim.fused', site, where, 'an exception for a compound assignment between different dimensions', found, function)
    if not seen:
        rep.ok('C.dim.fused', n)
    rep.floor('C.dim.fused', n, 30)


def run(db, rep, tier):
    rep.trusted += ['clang 14 AST of /repo sources', 'sqdump extractor + abstract interpreter with extent-checked abstract memory blocks',
                    'callee summaries: cache get/insert (empty / refuse), gsl matrix accessors, std::vector, Const getters (opaque values)',
                    'pointer-to-integer casts are abstracted (every block treated as aligned)']
    check_binary(db, rep)
    check_ctors(db, rep)
    check_supported_accepted(db, rep)
    check_fused(db, rep, tier)
