"""C06 — basis rotations are unitary similarity maps, consistent across all entry points.
Engines A + G + C: (1) each of the 35 plane-rotation kernels reached through Rotate(i,j,th,del)
is compared with R^dagger A R over the basis of C01 (polynomials in sin/cos of th and del modulo
s^2+c^2=1); (2) the (i,j,angle,phase) sequences of RotateToB0 / RotateToB1 are compared with the
factor order of Const::GetTransformationMatrix, whose factors are compared with the plane
rotation of the property and whose product/restore structure is checked on a product-word
domain; (3) Rotate(U), UTransform(U), UDaggerTransform(U) are interpreted end to end for a
symbolic U and compared with U^dagger A U / U A U^dagger; (4) the two WeightedRotation bodies
are compared as normal forms; (5) the Const accessors are enumerated over an index window."""
from guarded import same, explain
from astdb import AnalysisBroken, walk, strip
from interp import Interp, Obj, Cell, Thrown, Ptr, Region, ITE, Cond, Unsupported, Opaque, NULL
from kernels import make_suv, GslMatrix, KernelHooks
from poly import (Poly, CPoly, apply_func, expand_multiple_angles, mat_mul, mat_dagger, mat_zero, mat_identity)
from gslmodel import GslHooks, IndexViolation, Factor
import basis

DIMS = basis.DIMS


def plane_rotation(d, i, j, th, de):
    """R of the property: cos th on the diagonal, sin th*exp(-i del) at (i,j), -sin th*exp(+i del) at (j,i)"""
    c, s = apply_func('cos', th), apply_func('sin', th)
    cd, sd = apply_func('cos', de), apply_func('sin', de)
    R = mat_identity(d)
    R[i][i] = CPoly(c, 0)
    R[j][j] = CPoly(c, 0)
    R[i][j] = CPoly(s * cd, -(s * sd))
    R[j][i] = CPoly(-(s * cd), -(s * sd))
    return R


def norm_trig(p, names=('th', 'del')):
    return expand_multiple_angles(p, set(names))


def check_rotation_kernels(db, rep, tier):
    unit = db.unit('SUNalg')
    f = db.one('SUNalg', 'squids::SU_vector::Rotate', 4)
    rep.fn(f['name'] + '(unsigned,unsigned,double,double)')
    n_reach = n_tab = 0
    th, de = Poly.var('th'), Poly.var('del')
    for d in DIMS:
        A = basis.matrix_from(db, d, [Poly.var('a%d' % k) for k in range(d * d)])
        for i in range(d):
            for j in range(i + 1, d):
                n_reach += 1
                site = 'Rotate/%d/%d%d' % (d, i + 1, j + 1)
                where = 'include/SQuIDS/SU_inc/RotationSU%d_%d%d.txt' % (d, i + 1, j + 1)
                this, reg = make_suv('v', d, 'a')
                hooks = KernelHooks()
                it = Interp(unit, hooks)
                try:
                    res = it.call(f, this, [i, j, th, de])
                except Thrown as t:
                    rep.fail('A.rot.reach', site, unit.loc(t.node), 'a rotation kernel for dimension %d, plane (%d,%d)' % (d, i, j),
                             'throw: %s' % t.what, f['name'])
                    continue
                rep.ok('A.rot.reach')
                if not isinstance(res, Obj) or res.fields['dim'].value != d:
                    rep.fail('A.rot.table', site + '/shape', unit.loc(f), 'result of dimension %d' % d, repr(res), f['name'])
                    continue
                p = res.fields['components'].value
                R = plane_rotation(d, i, j, th, de)
                X = mat_mul(mat_mul(mat_dagger(R), A), R)
                oracle = basis.project(db, d, X)
                bad = 0
                for k in range(d * d):
                    n_tab += 1
                    got = p.region.cell(p.off + k).value
                    want = norm_trig(oracle[k][0])
                    wim = norm_trig(oracle[k][1])
                    if isinstance(got, Poly):
                        got = norm_trig(got)
                    if same(got, want) and wim.equals(Poly()):
                        rep.ok('A.rot.table')
                    else:
                        bad += 1
                        diffs = got.diff_terms(want) if isinstance(got, Poly) else [repr(got)]
                        rep.fail('A.rot.table', site + '/slot%d' % k, where, 'R^dagger A R over the extracted basis (mod sin^2+cos^2=1)',
                                 '; '.join(diffs), f['name'])
                if not bad and d == 3:
                    rep.sample('A.rot.table', 'd=3 plane (%d,%d): all 9 slots equal R^dagger A R' % (i, j))
    rep.floor('A.rot.reach', n_reach, 35)
    rep.floor('A.rot.table', n_tab, 35 * 4)


class SeqHooks(GslHooks):
    """records Rotate(i,j,th,del) calls and answers Const getters with symbols"""

    def __init__(self, word_mode=False):
        GslHooks.__init__(self, word_mode)
        self.seq = []

    def override_call(self, it, fdecl, node, args, this_cell):
        nm = fdecl['name']
        if nm == 'squids::Const::GetMixingAngle':
            return Poly.var('th_%s_%s' % (it.eval(args[0]), it.eval(args[1])))
        if nm == 'squids::Const::GetPhase':
            return Poly.var('del_%s_%s' % (it.eval(args[0]), it.eval(args[1])))
        if nm == 'squids::SU_vector::Rotate' and len(fdecl['params']) == 4:
            vals = [it.eval(a) for a in args]
            self.seq.append(tuple(vals))
            return it.copy_value(this_cell.value)
        return GslHooks.override_call(self, it, fdecl, node, args, this_cell)

    def external_call(self, it, name, node, args, this_cell):
        if name == 'squids::Const::GetMixingAngle':
            i, j = it.eval(args[0]), it.eval(args[1])
            return Poly.var('th_%s_%s' % (i, j))
        if name == 'squids::Const::GetPhase':
            i, j = it.eval(args[0]), it.eval(args[1])
            return Poly.var('del_%s_%s' % (i, j))
        return GslHooks.external_call(self, it, name, node, args, this_cell)


def rotation_sequence(db, which, d):
    unit = db.unit('SUNalg')
    f = db.one('SUNalg', 'squids::SU_vector::' + which, 1)
    this, reg = make_suv('v', d, 'a')
    hooks = SeqHooks()
    it = Interp(unit, hooks)
    param = Cell(Obj('squids::Const', None, 'param'), None, 0, 'param')
    it.call(f, this, [param])
    return f, hooks.seq


def new_const(db, it):
    """a Const object built by interpreting its real constructor (so that every member, present or future, is initialised)"""
    ctor = db.one('const', 'squids::Const::Const', 0)
    this = Cell(Obj('squids::Const', None, 'params'), None, 0, 'params')
    try:
        it.call(ctor, this, [])
    except (Thrown, IndexViolation) as e:
        raise AnalysisBroken('Const constructor: %s' % e)
    return this


def matrix_entries(res, d):
    from kernels import matrix_of
    if not isinstance(res, Obj) or 'p' not in res.fields:
        raise AnalysisBroken('GetTransformationMatrix did not return a unique_ptr')
    U = matrix_of(res.fields['p'].value)
    return [[U.get(r, c) for c in range(d)] for r in range(d)]


def check_const_history(db, rep, tier='quick'):
    """G.umat.state: the mixing matrix is a function of the stored angles and phases only.  For every dimension and
    every plane (i,j): [set angle; get U; set a new angle or phase; get U] on one object must give the matrix a fresh
    object gives after the same stores (a result remembered from before the store must not be handed out)."""
    unit = db.unit('const')
    fU = db.one('const', 'squids::Const::GetTransformationMatrix', 1)
    fA = db.one('const', 'squids::Const::SetMixingAngle', 3)
    fP = db.one('const', 'squids::Const::SetPhase', 3)
    n = 0
    for d in DIMS:
        for j in range(1, d):
            for i in range(j):
                for kind in ('angle', 'phase'):
                    n += 1
                    site = 'history/%d/%s(%d,%d)' % (d, kind, i, j)
                    try:
                        hooks = GslHooks()
                        it = Interp(unit, hooks)
                        obj = new_const(db, it)
                        it.call(fA, obj, [i, j, Poly.var('th0')])
                        it.call(fU, obj, [d])
                        if kind == 'angle':
                            it.call(fA, obj, [i, j, Poly.var('th1')])
                        else:
                            it.call(fP, obj, [i, j, Poly.var('del1')])
                        got = matrix_entries(it.call(fU, obj, [d]), d)
                        hooks2 = GslHooks()
                        it2 = Interp(unit, hooks2)
                        ref = new_const(db, it2)
                        it2.call(fA, ref, [i, j, Poly.var('th1' if kind == 'angle' else 'th0')])
                        if kind == 'phase':
                            it2.call(fP, ref, [i, j, Poly.var('del1')])
                        want = matrix_entries(it2.call(fU, ref, [d]), d)
                    except Thrown as t:
                        rep.fail('G.umat.state', site, unit.loc(t.node), 'a mixing matrix', 'throw: %s' % t.what, fU['name'])
                        continue
                    bad = [(r, c) for r in range(d) for c in range(d) if not got[r][c].equals(want[r][c])]
                    if bad:
                        r, c = bad[0]
                        rep.fail('G.umat.state', site, unit.loc(fU), 'the matrix built from the angles and phases stored now',
                                 'after Set%s(%d,%d,.) the matrix requested again differs from the one a fresh object gives for the same stored values, e.g. entry (%d,%d) = %s instead of %s'
                                 % ('MixingAngle' if kind == 'angle' else 'Phase', i, j, r, c, got[r][c], want[r][c]), fU['name'])
                    else:
                        rep.ok('G.umat.state')
    # a request for another dimension in between must not leak into the next request
    for d1 in DIMS:
        for d2 in DIMS:
            if d1 == d2:
                continue
            n += 1
            site = 'history/dims/%d-then-%d' % (d1, d2)
            try:
                hooks = GslHooks()
                it = Interp(unit, hooks)
                obj = new_const(db, it)
                it.call(fA, obj, [0, 1, Poly.var('th0')])
                it.call(fU, obj, [d1])
                got = matrix_entries(it.call(fU, obj, [d2]), d2)
                hooks2 = GslHooks()
                it2 = Interp(unit, hooks2)
                ref = new_const(db, it2)
                it2.call(fA, ref, [0, 1, Poly.var('th0')])
                want = matrix_entries(it2.call(fU, ref, [d2]), d2)
            except Thrown as t:
                rep.fail('G.umat.state', site, unit.loc(t.node), 'a mixing matrix', 'throw: %s' % t.what, fU['name'])
                continue
            if all(got[r][c].equals(want[r][c]) for r in range(d2) for c in range(d2)):
                rep.ok('G.umat.state')
            else:
                rep.fail('G.umat.state', site, unit.loc(fU), 'the matrix of the requested dimension built from the stored angles',
                         'a request for dimension %d followed by one for dimension %d gives a different matrix than a fresh object' % (d1, d2), fU['name'])
    if tier == 'thorough':
        # stores to a *different* plane between the two requests (dimensions up to 4: all ordered pairs of planes)
        for d in (2, 3, 4):
            planes = [(i, j) for j in range(1, d) for i in range(j)]
            for (i, j) in planes:
                for (k, l) in planes:
                    if (i, j) == (k, l):
                        continue
                    n += 1
                    site = 'history/%d/angle(%d,%d)-then-angle(%d,%d)' % (d, i, j, k, l)
                    try:
                        hooks = GslHooks()
                        it = Interp(unit, hooks)
                        obj = new_const(db, it)
                        it.call(fA, obj, [i, j, Poly.var('th0')])
                        it.call(fU, obj, [d])
                        it.call(fA, obj, [k, l, Poly.var('th1')])
                        got = matrix_entries(it.call(fU, obj, [d]), d)
                        hooks2 = GslHooks()
                        it2 = Interp(unit, hooks2)
                        ref = new_const(db, it2)
                        it2.call(fA, ref, [i, j, Poly.var('th0')])
                        it2.call(fA, ref, [k, l, Poly.var('th1')])
                        want = matrix_entries(it2.call(fU, ref, [d]), d)
                    except Thrown as t:
                        rep.fail('G.umat.state', site, unit.loc(t.node), 'a mixing matrix', 'throw: %s' % t.what, fU['name'])
                        continue
                    if all(got[r][c].equals(want[r][c]) for r in range(d) for c in range(d)):
                        rep.ok('G.umat.state')
                    else:
                        rep.fail('G.umat.state', site, unit.loc(fU), 'the matrix built from the angles and phases stored now',
                                 'after SetMixingAngle(%d,%d,.) the matrix requested again differs from the one a fresh object gives' % (k, l), fU['name'])
    rep.floor('G.umat.state', n, 80)
    rep.sample('G.umat.state', '%d request histories (every dimension, every plane, angle and phase; every ordered pair of dimensions%s): a later request reflects exactly the stored values'
               % (n, '; every ordered pair of planes up to dimension 4' if tier == 'thorough' else ''))


def transformation_word(db, d):
    """interpret Const::GetTransformationMatrix(d) in word mode; returns (fdecl, product word of U, hooks)"""
    unit = db.unit('const')
    f = db.one('const', 'squids::Const::GetTransformationMatrix', 1)
    hooks = SeqHooks(word_mode=True)

    # getters are called on `this` inside const.cpp: they are repo functions there, so override them
    orig = hooks.override_call

    def override(it, fdecl, node, args, this_cell):
        nm = fdecl['name']
        if nm == 'squids::Const::GetMixingAngle':
            return Poly.var('th_%s_%s' % (it.eval(args[0]), it.eval(args[1])))
        if nm == 'squids::Const::GetPhase':
            return Poly.var('del_%s_%s' % (it.eval(args[0]), it.eval(args[1])))
        return orig(it, fdecl, node, args, this_cell)
    hooks.override_call = override
    it = Interp(unit, hooks)
    this = new_const(db, it)
    res = it.call(f, this, [d])
    if not isinstance(res, Obj) or 'p' not in res.fields:
        raise AnalysisBroken('GetTransformationMatrix did not return a unique_ptr')
    from kernels import matrix_of
    U = matrix_of(res.fields['p'].value)
    return f, U, hooks


def check_sequences(db, rep):
    unitS = db.unit('SUNalg')
    unitC = db.unit('const')
    n = 0
    for d in DIMS:
        try:
            fU, U, hooksU = transformation_word(db, d)
        except Thrown as t:
            rep.fail('G.umat', 'GetTransformationMatrix/%d' % d, unitC.loc(t.node), 'mixing matrix of dimension %d' % d, 'throw: %s' % t.what)
            continue
        except IndexViolation as e:
            rep.fail('G.umat', 'GetTransformationMatrix/%d' % d, e.where, 'in-extent matrix accesses', e.what)
            continue
        rep.fn(fU['name'])
        word = hooksU.as_word(U)
        # U = F_n ... F_1 (left multiplication): the factor applied first is the last element of the word
        factors = list(reversed(word))
        if d >= 2 and not factors:
            # the matrix is not built as a product of factor matrices (rows updated directly, say): this rule reads the
            # product structure and cannot judge such a construction - undecided, not a violation
            rep.break_('GetTransformationMatrix/%d: the mixing matrix is not built as a product of plane-rotation factor matrices; rule G.umat cannot judge this construction' % d)
            continue
        order = []
        ok_f = True
        for fa in factors:
            # identify the plane (i,j): the off-diagonal non-zero entries
            off = [(r, c) for (r, c), v in fa.entries.items() if r != c and not v.is_zero()]
            if len(off) != 2 or off[0] != (off[1][1], off[1][0]) or fa.op != 'N':
                ok_f = False
                rep.fail('G.umat', 'GetTransformationMatrix/%d/factor%d' % (d, len(order)), unitC.loc(fU),
                         'a plane rotation factor', 'factor with off-diagonal support %s op %s' % (off, fa.op), fU['name'])
                break
            i, j = min(off[0]), max(off[0])
            th, de = Poly.var('th_%d_%d' % (i, j)), Poly.var('del_%d_%d' % (i, j))
            R = plane_rotation(d, i, j, th, de)
            same = all(fa.entries[(r, c)].equals(R[r][c]) for r in range(d) for c in range(d))
            if not same:
                ok_f = False
                bad = [(r, c) for r in range(d) for c in range(d) if not fa.entries[(r, c)].equals(R[r][c])]
                rep.fail('G.umat', 'GetTransformationMatrix/%d/plane%d%d' % (d, i, j), unitC.loc(fU),
                         'factor = plane rotation R(th_%d%d, del_%d%d) of the property' % (i, j, i, j),
                         'entries %s differ, e.g. %s' % (bad, fa.entries[bad[0]]), fU['name'])
                continue
            # unitarity of the factor (mod s^2+c^2)
            RR = mat_mul(mat_dagger([[fa.entries[(r, c)] for c in range(d)] for r in range(d)]),
                         [[fa.entries[(r, c)] for c in range(d)] for r in range(d)])
            uni = all(norm_trig(RR[r][c].re, ()).equals(Poly.const(1 if r == c else 0)) and norm_trig(RR[r][c].im, ()).equals(Poly())
                      for r in range(d) for c in range(d))
            if not uni:
                ok_f = False
                rep.fail('G.umat', 'GetTransformationMatrix/%d/unitary%d%d' % (d, i, j), unitC.loc(fU), 'R^dagger R = 1', 'not unitary', fU['name'])
            order.append((i, j))
        want_pairs = sorted((i, j) for j in range(d) for i in range(j))
        if ok_f and sorted(order) != want_pairs:
            ok_f = False
            rep.fail('G.umat', 'GetTransformationMatrix/%d/pairs' % d, unitC.loc(fU), 'one factor per plane i<j<%d' % d, 'factors %s' % order, fU['name'])
        if ok_f:
            rep.ok('G.umat')
            rep.sample('G.umat', 'd=%d: U = %s' % (d, ' '.join('R%d%d' % p for p in reversed(order))))
        # sequences
        for which, expect_sign in (('RotateToB0', -1), ('RotateToB1', 1)):
            n += 1
            try:
                f, seq = rotation_sequence(db, which, d)
            except Thrown as t:
                rep.fail('A.rot.seq', '%s/%d' % (which, d), unitS.loc(t.node), 'rotation sequence', 'throw: %s' % t.what)
                continue
            rep.fn(f['name'])
            want = order if which == 'RotateToB0' else list(reversed(order))
            got_pairs = [(s[0], s[1]) for s in seq]
            good = got_pairs == want
            detail = ''
            if good:
                for (i, j, th, de) in seq:
                    wth = Poly.var('th_%d_%d' % (i, j)).scale(expect_sign)
                    wde = Poly.var('del_%d_%d' % (i, j))
                    if not (isinstance(th, Poly) and th.equals(wth) and isinstance(de, Poly) and de.equals(wde)):
                        good = False
                        detail = 'plane (%d,%d): angle %s phase %s' % (i, j, th, de)
                        break
            else:
                detail = 'order %s' % got_pairs
            if good and ok_f:
                rep.ok('A.rot.seq')
                rep.sample('A.rot.seq', '%s d=%d: %s, angle sign %+d' % (which, d, got_pairs, expect_sign))
            elif not ok_f:
                rep.break_('sequence rule for %s/%d skipped: mixing-matrix factor order unavailable' % (which, d)) if False else None
            else:
                rep.fail('A.rot.seq', '%s/%d' % (which, d), unitS.loc(f),
                         ('the factor order of the mixing matrix %s with negated angles (U A U^dagger)' if which == 'RotateToB0' else
                          'the reverse factor order %s with the stored angles (U^dagger A U)') % want, detail, f['name'])
    rep.floor('A.rot.seq', n, 10)


def check_sandwich(db, rep, tier):
    """Rotate(U), UTransform(U) = U^dagger A U ; UDaggerTransform(U) = U A U^dagger, end to end"""
    unit = db.unit('SUNalg')
    dims = (2, 3) if tier == 'quick' else (2, 3, 4)
    specs = [('Rotate', lambda f: len(f['params']) == 1 and 'gsl_matrix_complex' in f['params'][0]['t'], 'UdAU'),
             ('UTransform', lambda f: len(f['params']) == 1 and 'gsl_matrix_complex' in f['params'][0]['t'], 'UdAU'),
             ('UDaggerTransform', lambda f: len(f['params']) == 1, 'UAUd')]
    n = 0
    for name, pred, form in specs:
        f = db.one('SUNalg', 'squids::SU_vector::' + name, 1, pred)
        rep.fn(f['name'] + '(gsl_matrix_complex*)')
        for d in dims:
            n += 1
            site = '%s(U)/%d' % (name, d)
            this, reg = make_suv('v', d, 'a')
            hooks = GslHooks()
            U = hooks.new_matrix(d, d, 'U', lambda r, c: CPoly(Poly.var('ur%d_%d' % (r, c)), Poly.var('ui%d_%d' % (r, c))))
            it = Interp(unit, hooks)
            try:
                res = it.call(f, this, [U.ptr])
            except Thrown as t:
                rep.fail('G.sandwich', site, unit.loc(t.node), 'transformed vector', 'throw: %s' % t.what, f['name'])
                continue
            except IndexViolation as e:
                rep.fail('G.sandwich', site, e.where, 'in-extent matrix accesses', e.what, f['name'])
                continue
            A = basis.matrix_from(db, d, [Poly.var('a%d' % k) for k in range(d * d)])
            UM = [[U.get(r, c) for c in range(d)] for r in range(d)]
            X = mat_mul(mat_mul(mat_dagger(UM), A), UM) if form == 'UdAU' else mat_mul(mat_mul(UM, A), mat_dagger(UM))
            # the constructor from a matrix applies M_d, which averages (r,c) and (c,r): compare through M_d's own definition
            # on Hermitian input X is Hermitian only if U is unitary; compare the Hermitian part table instead:
            oracle = basis.project(db, d, X)
            p = res.fields['components'].value if isinstance(res, Obj) else None
            if p is None or res.fields['dim'].value != d:
                rep.fail('G.sandwich', site, unit.loc(f), 'an SU_vector of dimension %d' % d, repr(res), f['name'])
                continue
            bad = None
            for k in range(d * d):
                got = p.region.cell(p.off + k).value
                if not (isinstance(got, Poly) and got.equals(oracle[k][0])):
                    bad = (k, got)
                    break
            if bad is None:
                rep.ok('G.sandwich')
                rep.sample('G.sandwich', '%s(U) d=%d = %s' % (name, d, 'U^dagger A U' if form == 'UdAU' else 'U A U^dagger'))
            else:
                diffs = bad[1].diff_terms(oracle[bad[0]][0]) if isinstance(bad[1], Poly) else [repr(bad[1])]
                rep.fail('G.sandwich', site, unit.loc(f), ('U^dagger A U' if form == 'UdAU' else 'U A U^dagger') + ' (component %d)' % bad[0],
                         '; '.join(diffs), f['name'])
    rep.floor('G.sandwich', n, 6)


def call_shape(node):
    """normal form of an expression tree: callee names, literals and variable roles (value-preserving wrappers skipped)"""
    n = strip(node)
    if n is None:
        return None
    k = n['k']
    if k in ('CXXConstructExpr', 'CXXTemporaryObjectExpr') and len(n.get('args', [])) == 1 and (n.get('copyCtor') or n.get('moveCtor') or 'SU_vector' in n.get('record', '')):
        return call_shape(n['args'][0])
    if k in ('CallExpr', 'CXXMemberCallExpr', 'CXXOperatorCallExpr'):
        name = (n.get('callee') or '?').split('<')[0]
        args = [call_shape(a) for a in n.get('args', [])]
        if k == 'CXXMemberCallExpr':
            me = strip(n['fn'])
            base = call_shape(me['c'][0]) if me.get('c') else None
            return (name, base) + tuple(args)
        return (name,) + tuple(args)
    if k == 'DeclRefExpr':
        return ('var', n.get('name'))
    if k == 'FloatingLiteral':
        return ('lit', n.get('v'))
    if k == 'IntegerLiteral':
        return ('lit', n.get('v'))
    if k == 'CXXThisExpr':
        return ('this',)
    if k == 'UnaryOperator':
        return ('un' + n['op'], call_shape(n['c'][0]))
    if k in ('BinaryOperator', 'CompoundAssignOperator'):
        return ('bin' + n['op'], call_shape(n['c'][0]), call_shape(n['c'][1]))
    if k == 'MemberExpr':
        return ('member', n.get('member'), call_shape(n['c'][0]) if n.get('c') else None)
    return (k,) + tuple(call_shape(c) for c in n.get('c', []) or [])


class WeightedHooks(GslHooks):
    """RotateToB0/UDaggerTransform and RotateToB1/UTransform are replaced by *named symbolic linear maps*
    (one coefficient symbol per (output,input) component, named by the kind of map and by which argument of
    WeightedRotation parametrises it); everything else - the copies, the Yd sandwich built from commutators and
    anticommutators, the final store - is interpreted from the source."""

    def __init__(self, roles):
        GslHooks.__init__(self)
        self.roles = roles  # id(argument object) -> 'arg0' / 'arg2'
        self.applied = []

    def role_of(self, it, argnode):
        v = it.lval(argnode) if (argnode.get('lv') or argnode.get('xv')) else it.eval(argnode)
        key = id(v.value) if hasattr(v, 'value') and not isinstance(v, Ptr) else None
        if isinstance(v, Ptr):
            key = id(v.region)
        elif hasattr(v, 'value') and isinstance(v.value, Ptr):
            key = id(v.value.region)
        return self.roles.get(key, 'unknown')

    def linear_map(self, it, kind, role, vec_obj):
        d = vec_obj.fields['dim'].value
        p = vec_obj.fields['components'].value
        xs = [p.region.cell(p.off + k).value for k in range(d * d)]
        out = []
        for k in range(d * d):
            acc = Poly()
            for m in range(d * d):
                acc = acc + Poly.var('%s[%s]_%d_%d' % (kind, role, k, m)) * xs[m]
            out.append(acc)
        self.applied.append((kind, role))
        return out

    def override_call(self, it, fdecl, node, args, this_cell):
        nm = fdecl['name']
        if nm in ('squids::SU_vector::RotateToB0', 'squids::SU_vector::RotateToB1'):
            kind = 'B0' if nm.endswith('B0') else 'B1'
            vals = self.linear_map(it, kind, self.role_of(it, args[0]), this_cell.value)
            p = this_cell.value.fields['components'].value
            for k, v in enumerate(vals):
                it.write(p.region.cell(p.off + k), v, node)
            return None
        if nm in ('squids::SU_vector::UDaggerTransform', 'squids::SU_vector::UTransform') and len(fdecl['params']) == 1:
            kind = 'B0' if nm.endswith('UDaggerTransform') else 'B1'
            vals = self.linear_map(it, kind, self.role_of(it, args[0]), this_cell.value)
            d = this_cell.value.fields['dim'].value
            c, reg = make_suv('transformed', d, 'z', content=lambda k, vals=vals: vals[k])
            return c.value
        if nm == 'squids::SU_vector::alloc_aligned':
            size = it.eval(args[1])
            r = Region('heap#%d' % len(self.matrices), size, None, 'heap')
            self.matrices.append(r)
            it.write(it.lval(args[2]), Ptr(r, 0), node)
            it.write(it.lval(args[3]), 0, node)
            return None
        if nm == 'squids::SU_vector::deallocate_mem':
            return None
        return GslHooks.override_call(self, it, fdecl, node, args, this_cell)

    def new_matrix(self, n1, n2, name=None, entry=None):
        m = GslMatrix(n1, n2, entry, name or 'gslm#%d' % len(self.matrices))
        m.word = None
        self.matrices.append(m)
        return m


def weighted_with_self(ra, d):
    """the non-aliased result with the weight components y_k replaced by the vector's own components a_k"""
    m = {('v', 'y%d' % k): Poly.var('a%d' % k) for k in range(d * d)}
    out = []
    for x in ra:
        if not isinstance(x, Poly):
            raise Unsupported('guarded reference')
        out.append(x.subst(m))
    return out


def check_weighted(db, rep):
    """both overloads, interpreted in dimensions 2 and 3, must leave the same components in *this when
    RotateToB0(p) ~ UDaggerTransform(p) and RotateToB1(p) ~ UTransform(p) denote the same linear maps"""
    unit = db.unit('SUNalg')
    fs = db.find('SUNalg', 'squids::SU_vector::WeightedRotation', 3)
    fa = [f for f in fs if 'Const' in f['params'][0]['t']]
    fb = [f for f in fs if 'gsl_matrix_complex' in f['params'][0]['t']]
    if len(fa) != 1 or len(fb) != 1:
        raise AnalysisBroken('WeightedRotation overloads not recognised (%d, %d)' % (len(fa), len(fb)))
    fa, fb = fa[0], fb[0]
    rep.fn(fa['name'] + '(Const)')
    rep.fn(fb['name'] + '(gsl_matrix_complex*)')
    for d in (2, 3):
        results = []
        for f in (fa, fb):
            this, reg = make_suv('self', d, 'a')
            yd, _ = make_suv('Yd', d, 'y')
            if f is fa:
                a0 = Cell(Obj('squids::Const', None, 'V'), None, 0, 'V')
                a2 = Cell(Obj('squids::Const', None, 'W'), None, 0, 'W')
                roles = {id(a0.value): 'arg0', id(a2.value): 'arg2'}
                hooks = WeightedHooks(roles)
                args = [a0, yd, a2]
            else:
                hooks = WeightedHooks({})
                m0 = hooks.new_matrix(d, d, 'V')
                m2 = hooks.new_matrix(d, d, 'W')
                hooks.roles = {id(m0.region): 'arg0', id(m2.region): 'arg2'}
                args = [m0.ptr, yd, m2.ptr]
            it = Interp(unit, hooks)
            try:
                it.call(f, this, args)
            except Thrown as t:
                rep.fail('D.weighted', 'WeightedRotation/%d' % d, unit.loc(t.node), 'a transformed vector', 'throw: %s' % t.what, f['name'])
                results = None
                break
            p = this.value.fields['components'].value
            results.append(([p.region.cell(p.off + k).value for k in range(d * d)], list(hooks.applied)))
        if results is None:
            continue
        (ra, appa), (rb, appb) = results
        # the weight vector may be the vector being transformed itself (x.WeightedRotation(V, x, W)): the result must be
        # what the formula gives with Yd = the ORIGINAL vector, for both overloads
        # (dimension 2 only: an implementation that works in place makes the weight a product of maps, and the symbolic
        # result grows with the sixth power of the dimension)
        for f in ((fa, fb) if d == 2 else ()):
            this, reg = make_suv('self', d, 'a')
            if f is fa:
                a0 = Cell(Obj('squids::Const', None, 'V'), None, 0, 'V')
                a2 = Cell(Obj('squids::Const', None, 'W'), None, 0, 'W')
                hooks = WeightedHooks({id(a0.value): 'arg0', id(a2.value): 'arg2'})
                args = [a0, this, a2]
            else:
                hooks = WeightedHooks({})
                m0 = hooks.new_matrix(d, d, 'V')
                m2 = hooks.new_matrix(d, d, 'W')
                hooks.roles = {id(m0.region): 'arg0', id(m2.region): 'arg2'}
                args = [m0.ptr, this, m2.ptr]
            try:
                Interp(unit, hooks).call(f, this, args)
            except Thrown as t:
                rep.fail('D.weighted', 'WeightedRotation/%d/aliased' % d, unit.loc(t.node), 'a transformed vector', 'throw: %s' % t.what, f['name'])
                continue
            p = this.value.fields['components'].value
            got = [p.region.cell(p.off + k).value for k in range(d * d)]
            try:
                want = weighted_with_self(ra, d)
            except Unsupported:
                want = None
            if want is None:
                rep.notes.append('WeightedRotation with Yd aliasing the vector: reference not expressible, not judged')
            elif all(isinstance(x, Poly) and x.equals(y) for x, y in zip(got, want)):
                rep.ok('D.weighted')
            else:
                k = next(i for i, (x, y) in enumerate(zip(got, want)) if not (isinstance(x, Poly) and x.equals(y)))
                rep.fail('D.weighted', 'WeightedRotation/%d/aliased/%s' % (d, 'Const' if f is fa else 'matrix'), unit.loc(f),
                         'x.WeightedRotation(V, x, W) uses the original x as weight', 'component %d is %s instead of %s' % (k, str(got[k])[:160], str(want[k])[:160]), f['name'])
        same = all(isinstance(x, Poly) and isinstance(y, Poly) and x.equals(y) for x, y in zip(ra, rb))
        want_seq = [('B0', 'arg0'), ('B1', 'arg2')]
        if same and appa == want_seq and appb == want_seq:
            rep.ok('D.weighted')
            rep.sample('D.weighted', 'd=%d: both overloads give B1[arg2] . Yd-sandwich . B0[arg0] applied to the vector (components identical as polynomials)' % d)
        else:
            k = next((i for i, (x, y) in enumerate(zip(ra, rb)) if not (isinstance(x, Poly) and isinstance(y, Poly) and x.equals(y))), None)
            rep.fail('D.weighted', 'WeightedRotation/%d' % d, unit.loc(fb),
                     'the two overloads agree: first the to-B0 map of the first argument, then the Yd sandwich, then the to-B1 map of the third argument',
                     'maps applied: %s vs %s%s' % (appa, appb, ('; component %d differs' % k) if k is not None else ''), fb['name'])


def check_const_accessors(db, rep):
    """Const setters/getters: enumerate indices in a window; accepted indices address a cell inside the allocation,
    setter and getter address the same cell, out-of-range indices throw"""
    unit = db.unit('const')
    ctor = db.one('const', 'squids::Const::Const', 0)
    rep.fn(ctor['name'])
    MAX = 6
    W = range(0, 9)
    specs = [
        ('MixingAngle', 2, lambda a, b: a < b and b < MAX),
        ('Phase', 2, lambda a, b: a < b and b < MAX),
        ('EnergyDifference', 1, lambda a: 1 <= a < MAX),
    ]
    n = 0
    for name, arity, valid in specs:
        fset = db.one('const', 'squids::Const::Set' + name, arity + 1)
        fget = db.one('const', 'squids::Const::Get' + name, arity)
        rep.fn(fset['name'])
        rep.fn(fget['name'])
        n += 2
        bad = None
        checked = 0
        idxs = [(a, b) for a in W for b in W] if arity == 2 else [(a,) for a in W]
        # indices that change sign or wrap when a validator narrows or re-signs them (2^31, 2^32-1, ...)
        BIG = (2 ** 31, 2 ** 31 + 3, 2 ** 32 - 2, 2 ** 32 - 1)
        if arity == 2:
            idxs += [(g, b) for g in BIG for b in (0, 1, 5, 8)] + [(a, g) for a in (0, 1, 5) for g in BIG] + [(BIG[0], BIG[3]), (BIG[3], BIG[0])]
        else:
            idxs += [(g,) for g in BIG]
        for idx in idxs:
            hooks = GslHooks()
            it = Interp(unit, hooks)
            this = Cell(Obj('squids::Const', None, 'params'), None, 0, 'params')
            try:
                it.call(ctor, this, [])
            except (Thrown, IndexViolation) as e:
                raise AnalysisBroken('Const constructor: %s' % e)
            val = Poly.var('x')
            threw_set = threw_get = False
            got = None
            try:
                it.call(fset, this, list(idx) + [val])
            except Thrown:
                threw_set = True
            except IndexViolation as e:
                bad = ('Set%s%s' % (name, idx), e.where, 'index inside the allocation or an exception', e.what)
                break
            try:
                got = it.call(fget, this, list(idx))
            except Thrown:
                threw_get = True
            except IndexViolation as e:
                bad = ('Get%s%s' % (name, idx), e.where, 'index inside the allocation or an exception', e.what)
                break
            except Unsupported as e:
                if 'unset matrix entry' in str(e):
                    bad = ('Get%s%s' % (name, idx), unit.loc(fget), 'getter reads the cell the setter wrote', 'reads a different cell')
                    break
                raise
            checked += 1
            v = valid(*idx)
            if v and (threw_set or threw_get):
                bad = ('%s%s' % (name, idx), unit.loc(fset), 'valid indices accepted', 'exception')
                break
            if not v and not (threw_set and threw_get):
                bad = ('%s%s' % (name, idx), unit.loc(fset if not threw_set else fget), 'out-of-range / unordered state indices rejected',
                       'accepted by %s' % ('setter' if not threw_set else 'getter'))
                break
            if v and not (isinstance(got, Poly) and got.equals(val)):
                bad = ('%s%s' % (name, idx), unit.loc(fget), 'value reads back exactly as stored', 'read %r' % (got,))
                break
        if bad:
            rep.fail('C.const.idx', 'Const::%s' % name + '/' + bad[0], bad[1], bad[2], bad[3], fset['name'])
        else:
            rep.ok('C.const.idx', 2)
            rep.sample('C.const.idx', 'Set/Get%s: %d index tuples in [0,8] and around 2^31 / 2^32: accepted ones hit the same in-extent cell, others throw' % (name, checked))
    rep.floor('C.const.idx', n, 6)


def run(db, rep, tier):
    rep.trusted += ['clang 14 AST of /repo sources', 'sqdump extractor + abstract interpreter', 'mpmath 50-digit arithmetic; trigonometric identities exact (normal form modulo sin^2+cos^2=1)',
                    'basis extracted from GetGSLMatrix (C01)',
                    'callee summaries: gsl_matrix(_complex)_alloc/free/get/set/set_identity/set_zero/memcpy, gsl_blas_zgemm (C := alpha op(A) op(B) + beta C), std::complex exp/conj/*, std::swap, std::unique_ptr']
    rep.declined += ['rounding']
    check_rotation_kernels(db, rep, tier)
    check_sequences(db, rep)
    check_sandwich(db, rep, tier)
    check_weighted(db, rep)
    check_const_accessors(db, rep)
    check_const_history(db, rep, tier)
