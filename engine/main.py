"""Entry point of every registered check.  Exit 0: all obligations discharged (possibly with
KNOWN-FINDING lines); exit 1: VIOLATION line(s); exit 2: analysis broken (never a verdict)."""
import importlib
import json
import os
import sys
import traceback

sys.path.insert(0, os.path.dirname(os.path.abspath(__file__)))
sys.setrecursionlimit(20000)

import signal
signal.signal(signal.SIGPIPE, signal.SIG_DFL)
import astdb
from astdb import AnalysisBroken
from interp import OutOfBounds
from report import Report

PROPS = {
    'C01': ('c01', 'proof', ['SUNalg', 'instantiate']),
    'C02': ('c02', 'proof', ['SUNalg', 'instantiate']),
    'C03': ('c03', 'proof', ['SUNalg', 'instantiate']),
    'C13': ('c13', 'proof', ['SUNalg']),
    'C11': ('c11', 'proof', ['SUNalg']),
    'C06': ('c06', 'proof', ['SUNalg', 'const']),
    'C14': ('c14', 'proof', ['SUNalg', 'instantiate']),
    'C08': ('c08', 'proof', ['SUNalg', 'instantiate']),
    'C16': ('c16', 'proof', ['SUNalg', 'instantiate']),
    'C09': ('c09', 'proof', ['SUNalg', 'instantiate']),
    'C12': ('c12', 'other', ['SUNalg']),
    'C04': ('c04', 'other', ['SQuIDS', 'SUNalg', 'instantiate']),
    'C07': ('c07', 'other', ['MatrixExp', 'SUNalg']),
    'C10': ('c10', 'other', ['SQuIDS', 'SUNalg', 'instantiate']),
    'C05': ('c05', 'other', ['SQuIDS', 'SUNalg', 'instantiate']),
    'C17': ('c17', 'other', ['SQuIDS', 'SUNalg', 'instantiate']),
    'C18': ('c18', 'other', ['SUNalg', 'MatrixExp', 'SQuIDS', 'const', 'instantiate']),
    'C19': ('c19', 'other', ['cache_shared', 'SUNalg']),
    'C15': ('c15', 'other', ['SUNalg', 'instantiate', 'const', 'SQuIDS', 'MatrixExp']),
}


def main(argv):
    if len(argv) >= 2 and argv[0] == 'replay':
        with open(argv[1]) as fh:
            v = json.load(fh)
        argv = [v['property']] + argv[2:]
        os.environ['SQV_REPLAY_SITE'] = v.get('site', '')
    if not argv:
        print('usage: check <ID> [--tier quick|thorough]')
        return 2
    pid = argv[0]
    tier = os.environ.get('VERIF_TIER', 'quick')
    if '--tier' in argv:
        tier = argv[argv.index('--tier') + 1]
    if tier not in ('quick', 'thorough'):
        tier = 'quick'
    if pid not in PROPS:
        print('unknown property', pid)
        return 2
    modname, level, units = PROPS[pid]
    rep = Report(pid, tier, level)
    explanation = ''
    try:
        db = astdb.DB(units)
        rep.notes.append('extraction %.1fs over units %s' % (db.extract_s, ','.join(sorted(db.units))))
        mod = importlib.import_module(modname)
        explanation = (mod.__doc__ or '').strip()
        mod.run(db, rep, tier)
    except OutOfBounds as e:
        # abstract blocks have exactly the extent the library allocates: an access outside it is a defect of the code
        # under analysis (undefined behaviour), reported against the property whose analysis reached it
        rep.fail('X.extent', '%s[%s]' % (e.region.name, e.idx), e.where or '?', 'every access inside the extent of the addressed block', str(e))
        rep.break_('analysis stopped at the first out-of-extent access; remaining obligations not evaluated')
    except AnalysisBroken as e:
        rep.break_('%s: %s' % (type(e).__name__, e))
        if os.environ.get('SQV_DEBUG'):
            traceback.print_exc()
    except Exception as e:  # an engine bug is never a verdict
        rep.break_('internal error: %s: %s' % (type(e).__name__, e))
        traceback.print_exc()
    cmd = './check %s --tier %s' % (pid, tier)
    return rep.finish(explanation, cmd)


if __name__ == '__main__':
    sys.exit(main(sys.argv[1:]))
