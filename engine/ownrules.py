"""Shared reporting of engine-B exploration results for C08 / C09 / C15 / C16."""
import lifecycle

TRUSTED = ['clang 14 AST of /repo sources (library TUs + driver/instantiate.cpp for the template instantiations)',
           'sqdump extractor + abstract interpreter with modelled object lifetimes (destructors of locals and temporaries)',
           'heap blocks are tokens; new[] / delete[] / block-cache insert & fetch move tokens between live, cached and freed',
           'environment choices enumerated exhaustively: block address modulo 32, cache pre-populated or empty, cache accepts or refuses an insert, which allocation fails',
           'entry states: every participating vector empty / self-owned / externally backed, dimension 2 or 3 (even and odd size paths), alias patterns',
           'induction: every operation is shown to preserve the invariant from every state satisfying it, hence it holds after every finite history']


def report(rep, data, rules, allocfail, count_rule, per_rule_cap=12, exceptional=None):
    """emit findings whose rule is in `rules` and whose allocfail flag equals `allocfail` (None = both)"""
    sel = []
    for (rule, site, where, expected, found, function, exc, af) in data['findings']:
        if rule not in rules:
            continue
        if allocfail is not None and af != allocfail:
            continue
        if exceptional is not None and exc != exceptional:
            continue
        sel.append((rule, site, where, expected, found, function, exc, af))
    total = data['paths'] if not allocfail else data['allocfail_paths']
    bad_sites = set((r, s) for r, s, *_ in sel)
    for r in rules:
        nbad = len(set(s for rr, s in bad_sites if rr == r))
        rep.ok(r, max(total - nbad, 0))
    seen = {}
    for (rule, site, where, expected, found, function, exc, af) in sel:
        key = (rule, site)
        if key in seen:
            continue
        seen[key] = 1
        fam = (rule, function)
        cnt = sum(1 for k in seen if k[0] == rule) 
        rep.fail(rule, site, where, expected, found, function)
    return len(sel)
