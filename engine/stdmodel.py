"""Callee summaries for the handful of std:: facilities that the analysed functions use
(std::vector<T>, std::unique_ptr, iterators as pointers).  Trusted base, DESIGN Appendix B."""
import re

from interp import Obj, Region, Ptr, Cell, Opaque, Unsupported, NULL, UNDEF
from kernels import KernelHooks
from poly import Poly

_VEC = re.compile(r'^std::vector<(.*)>::(.*)$')


def make_vector(name, n, content=None, elem_zero=None):
    o = Obj('std::vector', None, name)
    reg = Region(name + '.data', n, content, 'heap')
    o.field('data').value = reg
    o.field('n').value = n
    return Cell(o, None, 0, name)


def vec_parts(cell):
    o = cell.value if isinstance(cell, Cell) else cell
    if not isinstance(o, Obj) or 'data' not in o.fields:
        raise Unsupported('not an abstract std::vector: %r' % (o,))
    return o, o.fields['data'].value, o.fields['n'].value


class StdHooks(KernelHooks):
    def external_call(self, it, name, node, args, this_cell):
        m = _VEC.match(name)
        if m:
            elem, meth = m.group(1), m.group(2)
            return self.vector_call(it, elem, meth, node, args, this_cell)
        if name.startswith('std::allocator<'):
            return Opaque('allocator')
        if name.startswith('__gnu_cxx::operator==') or name.startswith('__gnu_cxx::operator!='):
            a = it.lval(args[0]).value if (args[0].get('lv') or args[0].get('xv')) else it.eval(args[0])
            b = it.lval(args[1]).value if (args[1].get('lv') or args[1].get('xv')) else it.eval(args[1])
            eq = (a == b)
            return (1 if eq else 0) if '==' in name.split('<')[0] else (0 if eq else 1)
        if name.startswith('__gnu_cxx::__normal_iterator<'):
            meth = name.split('>::')[-1]
            if meth in ('operator--', 'operator++'):
                d = -1 if meth == 'operator--' else 1
                old = this_cell.value
                it.write(this_cell, it.ptr_add(old, d), node)
                return old if args else this_cell  # postfix has the dummy int argument
            if meth == 'operator*':
                return it.deref(this_cell.value, node)
            if meth == '__normal_iterator':
                if args:
                    v = it.lval(args[0]).value if (args[0].get('lv') or args[0].get('xv')) else it.eval(args[0])
                    this_cell.value = v
                return None
            if meth == 'base':
                return this_cell
            if meth in ('operator+', 'operator-') and len(args) == 1:
                n = it.eval(args[0])
                if isinstance(n, Cell):
                    n = n.value
                return it.ptr_add(this_cell.value, n if meth == 'operator+' else (-n if isinstance(n, int) else -it.to_poly(n)))
            if meth in ('operator+=', 'operator-=') and len(args) == 1:
                n = it.eval(args[0])
                it.write(this_cell, it.ptr_add(this_cell.value, n if meth == 'operator+=' else (-n if isinstance(n, int) else -it.to_poly(n))), node)
                return this_cell
            if meth == 'operator[]' and len(args) == 1:
                return it.deref(it.ptr_add(this_cell.value, it.eval(args[0])), node)
            if meth == 'operator->':
                return this_cell.value
        if name.startswith('__gnu_cxx::operator-') and len(args) == 2:
            a = it.lval(args[0]).value if (args[0].get('lv') or args[0].get('xv')) else it.eval(args[0])
            b = it.lval(args[1]).value if (args[1].get('lv') or args[1].get('xv')) else it.eval(args[1])
            return a.off - b.off
        if name.startswith('std::_Bit_reference::operator='):
            v = it.eval(args[0])
            it.write(this_cell, 1 if v else 0, node)
            return this_cell
        if name == 'printf':
            return 0
        if name.split('<')[0] == 'std::swap' and len(args) == 2:
            a, b = it.lval(args[0]), it.lval(args[1])
            va, vb = a.value, b.value
            it.write(a, vb, node)
            it.write(b, va, node)
            return None
        if name.startswith('std::is_sorted'):
            if name.split('<')[0] == 'std::is_sorted' and len(args) == 2:
                r = KernelHooks.external_call(self, it, name, node, args, this_cell)  # decided for concrete integers only
                if r is not NotImplemented:
                    return r
            return NotImplemented
        return KernelHooks.external_call(self, it, name, node, args, this_cell)

    def vector_call(self, it, elem, meth, node, args, this_cell):
        if not meth.startswith('operator'):
            meth = meth.split('<')[0]
        if meth == 'vector':
            # constructors: (n, alloc) value-initialises; () empty; copy
            if this_cell is None:
                raise Unsupported('vector constructor without object at %s' % it.loc(node))
            if node.get('copyCtor') or node.get('moveCtor'):
                so, sreg, sn = vec_parts(it.lval(args[0]))
                o = Obj('std::vector', None, this_cell.name)
                reg = Region((this_cell.name or 'vec') + '.data', sn, None, 'heap')
                if isinstance(sn, int):
                    for k in range(sn):
                        reg.cell(k).value = sreg.cell(k).value
                o.field('data').value = reg
                o.field('n').value = sn
                this_cell.value = o
                return None
            n = 0
            if args:
                a0 = args[0]
                if 'initializer_list' in a0.get('t', ''):
                    src = it.eval(a0)
                    if isinstance(src, Cell):
                        src = src.value
                    o = Obj('std::vector', None, this_cell.name)
                    cnt = src.size
                    reg = Region((this_cell.name or 'vec') + '.data', cnt, None, 'heap')
                    for k in range(cnt):
                        reg.cell(k).value = src.cell(k).value
                    o.field('data').value = reg
                    o.field('n').value = cnt
                    this_cell.value = o
                    return None
                if 'allocator' in a0.get('t', ''):
                    n = 0
                else:
                    n = it.eval(a0)
            zero = Poly.const(0) if elem.startswith('double') else (0 if elem.split(',')[0] in ('unsigned int', 'int', 'bool', 'unsigned long') else UNDEF)
            o = Obj('std::vector', None, this_cell.name)
            reg = Region((this_cell.name or 'vec') + '.data', n, (lambda k, z=zero: z), 'heap')
            o.field('data').value = reg
            o.field('n').value = n
            this_cell.value = o
            return None
        if meth == '~vector':
            return None
        o, reg, n = vec_parts(this_cell)
        if meth == 'operator[]':
            i = it.eval(args[0])
            return it.deref(it.ptr_add(Ptr(reg, 0), i), node)
        if meth == 'size':
            return n
        if meth in ('begin', 'cbegin'):
            return Ptr(reg, 0)
        if meth in ('end', 'cend'):
            return Ptr(reg, n)
        if meth in ('front',):
            return reg.cell(0)
        if meth in ('back',):
            if isinstance(n, int):
                return reg.cell(n - 1)
            return it.deref(Ptr(reg, it.to_poly(n) - Poly.const(1)), node)
        if meth == 'data':
            return Ptr(reg, 0)
        if meth in ('reserve', 'shrink_to_fit'):
            if args:
                it.eval(args[0])
            return None
        if meth == 'clear':
            o.fields['data'].value = Region((this_cell.name or 'vec') + '.data', 0, None, 'heap')
            o.fields['n'].value = 0
            return None
        if meth == 'empty':
            return (1 if n == 0 else 0) if isinstance(n, int) else it.compare('==', n, 0, node)
        if meth in ('push_back', 'emplace_back') and len(args) == 1:
            if not isinstance(n, int):
                raise Unsupported('push_back on a vector of symbolic length at %s' % it.loc(node))
            v = it.eval(args[0])
            if isinstance(v, Cell):
                v = v.value
            nreg = Region((this_cell.name or 'vec') + '.data', n + 1, None, 'heap')
            for k in range(n):
                nreg.cell(k).value = reg.cell(k).value
            nreg.cell(n).value = it.copy_value(v) if isinstance(v, Obj) else v
            o.fields['data'].value = nreg
            o.fields['n'].value = n + 1
            return None
        if meth == 'assign' and len(args) == 2:
            a0 = it.eval(args[0])
            a1 = it.eval(args[1])
            if isinstance(a0, Ptr) and isinstance(a1, Ptr) and a0.region is a1.region:
                cnt = a1.off - a0.off
                if not isinstance(cnt, int) or cnt < 0:
                    raise Unsupported('std::vector::assign over a range of symbolic length at %s' % it.loc(node))
                vals = [it.read(it.deref(it.ptr_add(a0, k), node), node) for k in range(cnt)]
            elif isinstance(a0, int):
                cnt = a0
                v = a1.value if isinstance(a1, Cell) else a1
                vals = [v] * cnt
            else:
                raise Unsupported('std::vector::assign at %s' % it.loc(node))
            nreg = Region((this_cell.name or 'vec') + '.data', cnt, None, 'heap')
            for k, v in enumerate(vals):
                nreg.cell(k).value = v
            o.fields['data'].value = nreg
            o.fields['n'].value = cnt
            return None
        raise Unsupported('std::vector::%s at %s' % (meth, it.loc(node)))
