"""C01 — SU_vector is a faithful linear image of the Hermitian matrix it represents.
Engine A (kernel algebra): tables extracted from the current sources, compared entry by entry
with the definition in the property (Gell-Mann normalisation, layout, inverse pair)."""
from guarded import same, explain
from astdb import AnalysisBroken, sig
from interp import Interp, Obj, Cell, Ptr, Region, Thrown, Unsupported, ITE
from kernels import KernelHooks, make_suv, GslMatrix, SUV
from poly import Poly, CPoly, mat_mul, mat_trace, mat_zero, TOL
import basis
import proxies
from gslmodel import GslHooks
from stdmodel import StdHooks, make_vector

DIMS = basis.DIMS


def cstr(z):
    return '%s%+si' % (z.re.const_value(), z.im.const_value())


def check_conversion(db, rep):
    unit = db.unit('SUNalg')
    fS = basis.f_getgslmatrix(db)
    rep.fn(fS['name'])
    n_cover = n_layout = 0
    for d in DIMS:
        try:
            m, hooks = basis.extract_S(db, d)
        except Thrown as t:
            rep.fail('A.conv.cover', 'GetGSLMatrix/%d' % d, unit.loc(t.node), 'a conversion kernel for dimension %d' % d,
                     'throw: %s' % t.what, fS['name'])
            continue
        where = unit.loc(fS)
        # cover: each (r,c) set exactly once
        for r in range(d):
            for c in range(d):
                n_cover += 1
                cnt = m.sets.get((r, c), 0)
                if cnt == 1:
                    rep.ok('A.conv.cover')
                else:
                    rep.fail('A.conv.cover', 'GetGSLMatrix/%d/(%d,%d)' % (d, r, c), 'include/SQuIDS/SU_inc/SUToMatrix%d.txt' % d,
                             'matrix entry set exactly once', 'set %d times' % cnt, fS['name'])
        if any(m.sets.get((r, c), 0) == 0 for r in range(d) for c in range(d)):
            continue
        # one table for every input: an entry that takes a different form on part of the input space is not linear
        for (r, c), e in sorted(getattr(m, 'guarded', {}).items()):
            rep.fail('A.conv.cover', 'GetGSLMatrix/%d/(%d,%d)/linear' % (d, r, c), where,
                     'homogeneous linear form in the components, for every input', 'entry depends on the input through a branch: %s' % (e,), fS['name'])
        # linearity (the table is a linear map of the components)
        for (r, c), e in m.entries.items():
            for part in (e.re, e.im):
                if part.degree_in(lambda a: True) > 1 or not part.coeff_of(('v', 'zz'), 0).t.get((), 0) == 0:
                    rep.fail('A.conv.cover', 'GetGSLMatrix/%d/(%d,%d)/linear' % (d, r, c),
                             'include/SQuIDS/SU_inc/SUToMatrix%d.txt' % d, 'homogeneous linear form in the components', str(part), fS['name'])
        # hermiticity
        for r in range(d):
            for c in range(r, d):
                a, b = m.entries[(r, c)], m.entries[(c, r)]
                if a.re.equals(b.re) and a.im.equals(-b.im):
                    rep.ok('A.conv.herm')
                else:
                    rep.fail('A.conv.herm', 'GetGSLMatrix/%d/(%d,%d)' % (d, r, c), 'include/SQuIDS/SU_inc/SUToMatrix%d.txt' % d,
                             'entry(%d,%d) = conj entry(%d,%d)' % (c, r, r, c), '%s vs %s' % (b, a), fS['name'])
        lam = basis.basis(db, d)
        # normalisation: lambda_0 = identity, Tr lambda_a = 0, Tr lambda_a lambda_b = 2 delta_ab
        ok = True
        for r in range(d):
            for c in range(d):
                want = CPoly(1 if r == c else 0, 0)
                if not lam[0][r][c].equals(want):
                    ok = False
                    rep.fail('A.conv.norm', 'basis/%d/0/(%d,%d)' % (d, r, c), 'include/SQuIDS/SU_inc/SUToMatrix%d.txt' % d,
                             'lambda_0 = identity', 'entry %s' % lam[0][r][c], fS['name'])
        for a in range(1, d * d):
            tr = mat_trace(lam[a])
            if not tr.is_zero() and not tr.equals(CPoly(0, 0)):
                ok = False
                rep.fail('A.conv.norm', 'basis/%d/%d/trace' % (d, a), 'include/SQuIDS/SU_inc/SUToMatrix%d.txt' % d,
                         'Tr lambda_%d = 0' % a, str(tr), fS['name'])
        for a in range(1, d * d):
            for b in range(a, d * d):
                tr = CPoly()
                for r in range(d):
                    for c in range(d):
                        if not lam[a][r][c].is_zero() and not lam[b][c][r].is_zero():
                            tr = tr + lam[a][r][c] * lam[b][c][r]
                want = CPoly(2 if a == b else 0, 0)
                if tr.equals(want):
                    rep.ok('A.conv.norm')
                else:
                    ok = False
                    rep.fail('A.conv.norm', 'basis/%d/%d,%d' % (d, a, b), 'include/SQuIDS/SU_inc/SUToMatrix%d.txt' % d,
                             'Tr lambda_%d lambda_%d = %d' % (a, b, 2 if a == b else 0), str(tr), fS['name'])
        if ok:
            rep.sample('A.conv.norm', 'd=%d: lambda_0=1, %d generators traceless, Gram matrix = 2*identity' % (d, d * d - 1))
        # layout
        for i in range(d):
            for j in range(d):
                k = d * i + j
                if k == 0:
                    continue
                n_layout += 1
                L = lam[k]
                support = sorted((r, c) for r in range(d) for c in range(d) if not L[r][c].is_zero())
                good = False
                if j > i:
                    good = support == sorted([(i, j), (j, i)]) and all(L[r][c].im.is_zero() for r, c in support) \
                        and L[i][j].re.equals(L[j][i].re)
                    want = 'real symmetric on {(%d,%d),(%d,%d)}' % (i, j, j, i)
                elif j < i:
                    good = support == sorted([(i, j), (j, i)]) and all(L[r][c].re.is_zero() for r, c in support) \
                        and L[i][j].im.equals(-L[j][i].im)
                    want = 'imaginary antisymmetric on {(%d,%d),(%d,%d)}' % (j, i, i, j)
                else:
                    good = all(r == c for r, c in support) and all(L[r][c].im.is_zero() for r, c in support)
                    want = 'real diagonal'
                if good:
                    rep.ok('A.conv.layout')
                else:
                    rep.fail('A.conv.layout', 'basis/%d/slot%d' % (d, k), 'include/SQuIDS/SU_inc/SUToMatrix%d.txt' % d, want,
                             'support %s' % support, fS['name'])
    rep.floor('A.conv.cover', n_cover, 90)
    rep.floor('A.conv.layout', n_layout, 85)


def check_inverse(db, rep):
    unit = db.unit('SUNalg')
    fM = basis.f_matrix_ctor(db)
    try:
        fC = basis.f_components_from_matrices(db)
    except basis.HelperAbsent:
        fC = None  # judged through the matrix constructor only (noted below)
    rep.fn(fM['name'] + '(const gsl_matrix_complex*)')
    if fC is not None:
        rep.fn(fC['name'])
    n = 0
    for d in DIMS:
        try:
            S, _ = basis.extract_S(db, d)
        except Thrown:
            continue
        if len(S.entries) != d * d:
            continue
        # --- site 1: the matrix constructor, fed with S_d(c): must return c  (M o S = id)
        for site, runner in (('ctor', 'ctor'), ('ComponentsFromMatrices', 'cfm')):
            n += 1
            where = 'include/SQuIDS/SU_inc/MatrixToSU%d.txt' % d
            try:
                if runner == 'ctor':
                    obj, comp, hooks, it = basis.run_matrix_ctor(db, d, lambda r, c: S.entries[(r, c)])
                    region = comp.region
                    # prelude: dim/size fields
                    if obj.fields['dim'].value != d or obj.fields['size'].value != d * d:
                        rep.fail('A.conv.prelude', 'ctor/%d/shape' % d, unit.loc(fM), 'dim=%d size=%d' % (d, d * d),
                                 'dim=%r size=%r' % (obj.fields['dim'].value, obj.fields['size'].value), fM['name'])
                    else:
                        rep.ok('A.conv.prelude')
                else:
                    region, hooks = basis.run_cfm(db, d, lambda r, c: S.entries[(r, c)].re, lambda r, c: S.entries[(r, c)].im)
            except basis.HelperAbsent as e:
                rep.notes.append('file-local helper %s is not part of the library (any more): the conversion is judged through the matrix constructor only' % e)
                n -= 1
                continue
            except Thrown as t:
                rep.fail('A.conv.inverse', '%s/%d' % (site, d), unit.loc(t.node), 'conversion for dimension %d' % d,
                         'throw: %s' % t.what, fM['name'])
                continue
            bad = 0
            for k in range(d * d):
                got = region.cell(k).value
                want = Poly.var('c%d' % k)
                if same(got, want):
                    rep.ok('A.conv.inverse')
                else:
                    bad += 1
                    rep.fail('A.conv.inverse', '%s/%d/slot%d' % (site, d, k), where,
                             'M_d(S_d(c))[%d] = c%d' % (k, k), str(got), fM['name'] if (runner == 'ctor' or fC is None) else fC['name'])
            if not bad:
                rep.sample('A.conv.inverse', '%s d=%d: M_d(S_d(c)) = c for all %d slots' % (site, d, d * d))
            # --- S o M = id on Hermitian matrices: feed a general Hermitian H
            def hre(r, c):
                return Poly.var('hr%d_%d' % (min(r, c), max(r, c)))

            def him(r, c):
                if r == c:
                    return Poly()
                v = Poly.var('hi%d_%d' % (min(r, c), max(r, c)))
                return v if r < c else -v
            try:
                if runner == 'ctor':
                    obj, comp, hooks, it = basis.run_matrix_ctor(db, d, lambda r, c: CPoly(hre(r, c), him(r, c)))
                    region = comp.region
                else:
                    region, hooks = basis.run_cfm(db, d, hre, him)
            except (Thrown, basis.HelperAbsent):
                continue
            comps = [region.cell(k).value for k in range(d * d)]
            if not all(isinstance(c, Poly) for c in comps):
                rep.fail('A.conv.inverse', '%s/%d/guarded' % (site, d), where, 'plain linear forms', 'guarded values', fM['name'])
                continue
            mapping = {('v', 'c%d' % k): comps[k] for k in range(d * d)}
            bad2 = 0
            for r in range(d):
                for c in range(d):
                    e = S.entries[(r, c)]
                    gre, gim = e.re.subst(mapping), e.im.subst(mapping)
                    if gre.equals(hre(r, c)) and gim.equals(him(r, c)):
                        rep.ok('A.conv.inverse')
                    else:
                        bad2 += 1
                        rep.fail('A.conv.inverse', '%s/%d/entry(%d,%d)' % (site, d, r, c), where,
                                 'S_d(M_d(H))(%d,%d) = H(%d,%d)' % (r, c, r, c), '%s + i(%s)' % (gre, gim),
                                 fM['name'] if (runner == 'ctor' or fC is None) else fC['name'])
    rep.floor('A.conv.inverse', n, 10 if fC is not None else 5)  # without the file-local helper only the constructor is a site


def check_component_roundtrip(db, rep):
    unit = db.unit('SUNalg')
    fG = db.one('SUNalg', 'squids::SU_vector::GetComponents', 0)
    fV = db.one('SUNalg', 'squids::SU_vector::SU_vector', 1, lambda f: 'std::vector<double' in f['params'][0]['t'])
    rep.fn(fG['name'])
    rep.fn(fV['name'] + '(const std::vector<double>&)')
    n = 0
    for d in DIMS:
        n += 2
        # GetComponents: identity footprint
        hooks = GslHooks()
        this, reg = make_suv('v', d, 'c')
        it = Interp(unit, hooks)
        res = it.call(fG, this, [])
        vec = res
        ok = isinstance(vec, Obj) and vec.fields.get('n') is not None and vec.fields['n'].value == d * d
        if ok:
            data = vec.fields['data'].value
            for k in range(d * d):
                v = data.cell(k).value
                if not (isinstance(v, Poly) and v.equals(Poly.var('c%d' % k))):
                    ok = False
                    rep.fail('A.copy.identity', 'GetComponents/%d/slot%d' % (d, k), unit.loc(fG), 'x[%d] = components[%d]' % (k, k), str(v), fG['name'])
                    break
        else:
            rep.fail('A.copy.identity', 'GetComponents/%d/size' % d, unit.loc(fG), 'vector of %d elements' % (d * d), repr(vec), fG['name'])
        if ok:
            rep.ok('A.copy.identity')
        # vector constructor
        hooks = GslHooks()
        vcell = make_vector('comp', d * d, lambda k: Poly.var('x%d' % k))
        this = Cell(Obj(SUV, None, 'v'), None, 0, 'v')
        it = Interp(unit, hooks)
        try:
            it.call(fV, this, [vcell])
        except Thrown as t:
            rep.fail('A.copy.identity', 'vector-ctor/%d' % d, unit.loc(t.node), 'construction from %d components' % (d * d), 'throw: %s' % t.what, fV['name'])
            continue
        o = this.value
        ok = o.fields['dim'].value == d and o.fields['size'].value == d * d
        comp = o.fields['components'].value
        if ok:
            for k in range(d * d):
                v = comp.region.cell(comp.off + k).value
                if not (isinstance(v, Poly) and v.equals(Poly.var('x%d' % k))):
                    ok = False
                    rep.fail('A.copy.identity', 'vector-ctor/%d/slot%d' % (d, k), unit.loc(fV), 'components[%d] = data[%d]' % (k, k), str(v), fV['name'])
                    break
        else:
            rep.fail('A.copy.identity', 'vector-ctor/%d/shape' % d, unit.loc(fV), 'dim=%d size=%d' % (d, d * d),
                     'dim=%r size=%r' % (o.fields['dim'].value, o.fields['size'].value), fV['name'])
        if ok:
            rep.ok('A.copy.identity')
    rep.floor('A.copy.identity', n, 10)


ELEM_F = {
    'Addition': lambda a, b, s: a + b,
    'Subtraction': lambda a, b, s: a - b,
    'Negation': lambda a, b, s: -a,
    'Multiplication': lambda a, b, s: s * a,
}


def check_elementwise(db, rep, tier, ops=ELEM_F, rule='A.elem.footprint'):
    unit = db.unit('instantiate')
    n = 0
    combos = [('AssignWrapper', False)]
    if tier == 'thorough':
        combos = [(w, al) for w in proxies.WRAPPERS for al in (False, True)]
    else:
        combos = [('AssignWrapper', False), ('IncrementWrapper', False), ('DecrementWrapper', True)]
    for op, f in ops.items():
        for d in DIMS:
            a, ra = make_suv('A', d, 'a')
            b, rb = make_suv('B', d, 'b')
            s = Poly.var('s')
            try:
                proxy, ef = proxies.build_proxy(db, op, a, b, proxies.ProxyHooks(), scalar=s)
            except Thrown as t:
                rep.fail(rule, '%s/%d/entry' % (op, d), unit.loc(t.node), 'proxy for equal dimensions', 'throw: %s' % t.what)
                continue
            rep.fn(ef['name'])
            for w, al in combos:
                n += 1
                try:
                    tgt, hooks, cf = proxies.run_compute(db, op, proxy, d, w, al)
                except Thrown as t:
                    rep.fail(rule, '%s/%s/%s/%d' % (op, w, al, d), unit.loc(t.node), 'kernel completes', 'throw: %s' % t.what)
                    continue
                rep.fn(cf['name'])
                bad = False
                for k in range(d * d):
                    val = f(Poly.var('a%d' % k), Poly.var('b%d' % k), s)
                    T = Poly.var('T%d' % k)
                    want = {'AssignWrapper': val, 'IncrementWrapper': T + val, 'DecrementWrapper': T - val}[w]
                    got = tgt.cell(k).value
                    if not (same(got, want)):
                        bad = True
                        rep.fail(rule, '%s/%s/%s/%d/slot%d' % (op, w, 'aligned' if al else 'unaligned', d, k), unit.loc(cf),
                                 'target[%d] %s %s' % (k, {'AssignWrapper': '=', 'IncrementWrapper': '+=', 'DecrementWrapper': '-='}[w], val),
                                 str(got), cf['name'])
                        break
                # each slot written through the wrapper exactly once
                counts = {}
                for reg, off, kind, where in hooks.wrapper_calls:
                    if reg is tgt:
                        counts[off] = counts.get(off, 0) + 1
                for k in range(d * d):
                    if counts.get(k, 0) != 1:
                        bad = True
                        rep.fail(rule, '%s/%s/%s/%d/once%d' % (op, w, 'aligned' if al else 'unaligned', d, k), unit.loc(cf),
                                 'slot %d written exactly once' % k, 'written %d times' % counts.get(k, 0), cf['name'])
                        break
                if not bad:
                    rep.ok(rule)
                    rep.sample(rule, '%s<%s,%s> d=%d: target[k] from (a[k],b[k]) for all k<%d, each once' % (op, w, al, d, d * d))
    return n


def _run_member(db, name, nparams, d, args_fn, pred=None, hooks=None, content=None):
    unit = db.unit('SUNalg')
    f = db.one('SUNalg', name, nparams, pred)
    this, reg = make_suv('v', d, 'a', content)
    hooks = hooks or GslHooks()
    it = Interp(unit, hooks)
    res = it.call(f, this, args_fn())
    return f, this, reg, res, hooks, it


def check_loops(db, rep):
    unit = db.unit('SUNalg')
    n_op = 0
    # compound assignment with vectors and scalars
    specs = [
        ('squids::SU_vector::operator+=', 'vec', lambda a, b: a + b, '+='),
        ('squids::SU_vector::operator-=', 'vec', lambda a, b: a - b, '-='),
        ('squids::SU_vector::operator*=', 'scal', lambda a, x: a * x, '*='),
        ('squids::SU_vector::operator/=', 'scal', lambda a, x: a.div(x), '/='),
    ]
    for name, kind, f, sym in specs:
        for d in DIMS:
            n_op += 1
            if kind == 'vec':
                other, ro = make_suv('o', d, 'b')
                fd, this, reg, res, hooks, it = _run_member(db, name, 1, d, lambda: [other],
                                                            lambda f: f['params'][0]['t'] == 'const squids::SU_vector &')
                arg = lambda k: Poly.var('b%d' % k)
            else:
                x = Poly.var('x')
                fd, this, reg, res, hooks, it = _run_member(db, name, 1, d, lambda: [x])
                arg = lambda k: x
            rep.fn(fd['name'])
            bad = False
            for k in range(d * d):
                want = f(Poly.var('a%d' % k), arg(k))
                got = reg.cell(k).value
                if not (same(got, want)):
                    bad = True
                    rep.fail('A.loop.op', '%s/%d/slot%d' % (name.split('::')[-1], d, k), unit.loc(fd),
                             'components[%d] %s operand' % (k, sym), str(got), fd['name'])
                    break
            if not bad and sym == '/=':
                # floating-point clause of "scalar division acts as division": every quotient is formed from the
                # component itself; a reciprocal 1/x formed first overflows for |x| < 1/DBL_MAX although c/x is
                # finite (and rounds twice otherwise)
                for (dn, num, den, _as) in hooks.divisions:
                    pn = it.to_poly(num) if not isinstance(num, Poly) else num
                    if pn.is_const():
                        bad = True
                        rep.fail('A.loop.op', 'operator/=/%d/reciprocal' % d, unit.loc(dn),
                                 'each component is divided by the scalar itself',
                                 'a reciprocal %s/(%s) is formed first and the components are multiplied by it: it overflows to infinity for |x| < 1/DBL_MAX '
                                 'where the quotient is finite, and rounds twice otherwise' % (pn, den), fd['name'])
                        break
            if not bad:
                rep.ok('A.loop.op')
    rep.floor('A.loop.op', n_op, 20)
    check_equality(db, rep)
    check_imagset(db, rep)


def check_equality(db, rep):
    """operator==: false for different dimension; emptiness compared; every component compared with != .
    Decided on the guarded result of the abstract interpretation: with symbolic unequal components the result
    must be false exactly when some component pair differs."""
    unit = db.unit('SUNalg')
    f = db.one('SUNalg', 'squids::SU_vector::operator==', 1)
    rep.fn(f['name'])
    from eqmodel import analyse_equality
    for site, good, expected, found in analyse_equality(db, f):
        if good:
            rep.ok('A.loop.eq')
        else:
            rep.fail('A.loop.eq', site, unit.loc(f), expected, found, f['name'])


def imag_slots(db, d):
    """slots whose basis matrix is purely imaginary (from the extracted layout, not from a constant)"""
    lam = basis.basis(db, d)
    out = set()
    for k in range(d * d):
        L = lam[k]
        nz = [(r, c) for r in range(d) for c in range(d) if not L[r][c].is_zero()]
        if nz and all(L[r][c].re.is_zero() for r, c in nz):
            out.add(k)
    return out


def check_imagset(db, rep):
    unit = db.unit('SUNalg')
    n = 0
    for d in DIMS:
        try:
            im = imag_slots(db, d)
        except (AnalysisBroken, Thrown):
            continue
        # Transpose: negate exactly the imaginary slots (M^T = conj(M) for Hermitian M)
        for name, want_fn, desc in (
            ('squids::SU_vector::Transpose', lambda k, a: -a if k in im else a, 'negates exactly the imaginary slots'),
            ('squids::SU_vector::Real', lambda k, a: Poly() if k in im else a, 'zeroes exactly the imaginary slots'),
            ('squids::SU_vector::Imag', lambda k, a: a if k in im else Poly(), 'keeps exactly the imaginary slots'),
        ):
            n += 1
            fd, this, reg, res, hooks, it = _run_member(db, name, 0, d, lambda: [])
            rep.fn(fd['name'])
            if name.endswith('Transpose'):
                out = reg
                base = 0
                if this.value.fields['dim'].value != d:
                    rep.fail('A.loop.imagset', 'Transpose/%d/dim' % d, unit.loc(fd), 'dimension unchanged', 'changed', fd['name'])
            else:
                if not isinstance(res, Obj):
                    rep.fail('A.loop.imagset', '%s/%d/result' % (name.split('::')[-1], d), unit.loc(fd), 'an SU_vector result', repr(res), fd['name'])
                    continue
                p = res.fields['components'].value
                out, base = p.region, p.off
                if res.fields['dim'].value != d:
                    rep.fail('A.loop.imagset', '%s/%d/dim' % (name.split('::')[-1], d), unit.loc(fd), 'result dimension %d' % d,
                             repr(res.fields['dim'].value), fd['name'])
                    continue
            bad = False
            for k in range(d * d):
                got = out.cell(base + k).value
                want = want_fn(k, Poly.var('a%d' % k))
                if not (same(got, want)):
                    bad = True
                    rep.fail('A.loop.imagset', '%s/%d/slot%d' % (name.split('::')[-1], d, k), unit.loc(fd),
                             '%s (slot %d -> %s)' % (desc, k, want), str(got), fd['name'])
                    break
            if not bad:
                rep.ok('A.loop.imagset')
                rep.sample('A.loop.imagset', '%s d=%d: %s %s' % (name.split('::')[-1], d, desc, sorted(im)))
    rep.floor('A.loop.imagset', n, 15)


def check_entry_overloads(db, rep):
    """A.elem.entry: every overload through which a sum, difference, negation or scalar multiple can be written (all value
    categories of both operands, discovered from the class) hands its operands to the kernel in the right roles: the
    expression evaluated into a fresh vector is a+b, a-b, -a, s*a with a the left operand"""
    import lifecycle
    unit = db.unit('instantiate')
    n = 0
    for label, op, f, how, cats in lifecycle.expr_shapes(db):
        if op not in ELEM_F:
            continue
        for d in (2, 3):
            n += 1
            a, ra = make_suv('A', d, 'a')
            b, rb = make_suv('B', d, 'b')
            s = Poly.var('s')
            it = Interp(unit, proxies.ProxyHooks())
            try:
                if how == 'm1':
                    proxy = it.call(f, a, [b])
                elif how == 'm0':
                    proxy = it.call(f, a, [])
                elif how == 'ms':
                    proxy = it.call(f, a, [s])
                elif how == 'fs':
                    proxy = it.call(f, None, [s, a])
                else:
                    continue
                tgt, hooks, cf = proxies.run_compute(db, op, proxy, d)
            except Thrown as t:
                rep.fail('A.elem.entry', '%s/%d' % (label, d), unit.loc(t.node), 'an expression object for operands of equal dimension', 'throw: %s' % t.what, f['name'])
                continue
            bad = None
            for k in range(d * d):
                want = ELEM_F[op](Poly.var('a%d' % k), Poly.var('b%d' % k), s)
                got = tgt.cell(k).value
                if not same(got, want):
                    bad = (k, want, got)
                    break
            if bad:
                rep.fail('A.elem.entry', '%s/%d' % (label, d), unit.loc(f), '%s evaluates to component %d = %s (a the left operand, b the right one)' % (label, bad[0], bad[1]),
                         str(bad[2]), sig(f))
            else:
                rep.ok('A.elem.entry')
    rep.floor('A.elem.entry', n, 24)


def run(db, rep, tier):
    rep.trusted += ['clang 14 AST of /repo sources under the build flags', 'sqdump extractor + abstract interpreter (engine/interp.py)',
                    'mpmath 50-digit arithmetic; real-number semantics, decimal literals accepted within 4e-15 relative',
                    'callee summaries: gsl_matrix_complex_get/set, std::fill, std::copy, std::vector<double>(n)/[]/size/begin/end, new[]']
    rep.declined += ['magnitude of rounding errors', 'overflow for huge magnitudes']
    check_conversion(db, rep)
    check_inverse(db, rep)
    check_component_roundtrip(db, rep)
    n = check_elementwise(db, rep, tier)
    check_entry_overloads(db, rep)
    rep.floor('A.elem.footprint', n, 4 * 5 * 3)
    check_loops(db, rep)
