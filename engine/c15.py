"""C15 — no operation history leaks, double-frees or touches memory it does not own.
Engines B + F + A: (1) token accounting (every library block is owned once, cached once or released
once; never freed twice, never used after release; user storage never released) on every exit of
every explored lifecycle path, including exits through library exceptions; (2) GSL objects: every
raw allocation reaches its matching free or an owning object on every path to every exit, and the
RAII holder classes release their members; (3) every index used by every generated kernel lies
inside the extent of the block it addresses (abstract blocks have their exact size, so an
out-of-extent access is detected wherever it occurs); alignment hints only under the asserted flag."""
from astdb import AnalysisBroken
from interp import NullDeref, Interp, Obj, Cell, Ptr, Region, Thrown, OutOfBounds
from kernels import make_suv, KernelHooks, GslMatrix, SUV
from poly import Poly, CPoly
from stdmodel import make_vector
import basis
import c03
import c11
import lifecycle
import ownrules
import proxies
import respair

DIMS = basis.DIMS


def sweep_kernels(db, rep, tier):
    """A.idx.bound: run every kernel family on exact-size abstract blocks"""
    n = 0

    def guarded(site, where, fn):
        nonlocal n
        n += 1
        try:
            fn()
            rep.ok('A.idx.bound')
        except basis.HelperAbsent:
            n -= 1
        except OutOfBounds as e:
            rep.fail('A.idx.bound', site, e.where or where, 'every index inside the extent of its block', str(e))
        except Thrown as t:
            rep.fail('A.idx.bound', site, where, 'kernel completes for a supported dimension', 'throw: %s' % t.what)

    for d in DIMS:
        npair = d * (d - 1) // 2
        for op in proxies.OPS:
            for w in (proxies.WRAPPERS if tier == 'thorough' else ('AssignWrapper',)):
                def run(op=op, w=w, d=d):
                    a, _ = make_suv('A', d, 'a')
                    b, _ = make_suv('B', d, 'b')
                    buf = None
                    if op == 'FastEvolution':
                        r = Region('buf', 2 * npair, lambda k: Poly.var('c%d' % k))
                        buf = Ptr(r, 0)
                    proxy, ef = proxies.build_proxy(db, op, a, b, proxies.ProxyHooks(), scalar=Poly.var('s'), buf=buf, t=Poly.var('t'))
                    proxies.run_compute(db, op, proxy, d, w, False)
                guarded('%s/%s/%d' % (op, w, d), 'include/SQuIDS/detail/ProxyImpl.h', run)
        guarded('PrepareEvolve/%d' % d, 'include/SQuIDS/SU_inc/PreSinCosEvolSU%d.txt' % d, lambda d=d: c03.run_prepare(db, d, 2, lambda: [Poly.var('t')]))
        guarded('PrepareEvolveAvg/%d' % d, 'include/SQuIDS/SU_inc/PreSinCosEvolSU%dAvg.txt' % d,
                lambda d=d, npair=npair: c11.run_filter(db, 'PrepareEvolve', 4, d, [Poly.var('t'), Poly.var('scale'), make_vector('avr', npair, lambda k: 0)]))
        guarded('PrepareEvolveRange/%d' % d, 'include/SQuIDS/SU_inc/PreSinCosEvolSU%dAvgRange.txt' % d,
                lambda d=d: c11.run_filter(db, 'PrepareEvolve', 3, d, [Poly.var('t0'), Poly.var('t1')], None,
                                           lambda f: f['params'][1]['t'] == 'double' and f['params'][2]['t'] == 'double'))
        content = lambda k, n_=npair: Poly.var(('CX%d' % k) if k < n_ else 'SX%d' % (k - n_))
        guarded('LowPassFilter/%d' % d, 'include/SQuIDS/SU_inc/LowPassFilterSU%d.txt' % d,
                lambda d=d, content=content: c11.run_filter(db, 'LowPassFilter', 3, d, [Poly.var('cutoff'), Poly.var('scale')], content))
        guarded('AvgRampFilter/%d' % d, 'include/SQuIDS/SU_inc/AvgWithRampSU%d.txt' % d,
                lambda d=d, content=content: c11.run_filter(db, 'AvgRampFilter', 4, d, [Poly.var('t'), Poly.var('cutoff'), Poly.var('scale')], content))
        guarded('GetGSLMatrix/%d' % d, 'include/SQuIDS/SU_inc/SUToMatrix%d.txt' % d, lambda d=d: basis.extract_S(db, d, 'q'))
        guarded('matrix-ctor/%d' % d, 'include/SQuIDS/SU_inc/MatrixToSU%d.txt' % d,
                lambda d=d: basis.run_matrix_ctor(db, d, lambda r, c: CPoly(Poly.var('mr'), Poly.var('mi'))))
        guarded('ComponentsFromMatrices/%d' % d, 'include/SQuIDS/SU_inc/MatrixToSU%d.txt' % d,
                lambda d=d: basis.run_cfm(db, d, lambda r, c: Poly.var('mr'), lambda r, c: Poly.var('mi')))
        fR = db.one('SUNalg', 'squids::SU_vector::Rotate', 4)
        for i in range(d):
            for j in range(i + 1, d):
                def run(d=d, i=i, j=j):
                    this, reg = make_suv('v', d, 'a')
                    Interp(db.unit('SUNalg'), KernelHooks()).call(fR, this, [i, j, Poly.var('th'), Poly.var('del')])
                guarded('Rotate/%d/%d%d' % (d, i + 1, j + 1), 'include/SQuIDS/SU_inc/RotationSU%d_%d%d.txt' % (d, i + 1, j + 1), run)
        for name in ('Transpose', 'Real', 'Imag'):
            f = db.one('SUNalg', 'squids::SU_vector::' + name, 0)

            def run(d=d, f=f):
                this, reg = make_suv('v', d, 'a')
                Interp(db.unit('SUNalg'), KernelHooks()).call(f, this, [])
            guarded('%s/%d' % (name, d), 'src/SUNalg.cpp', run)
        for flags in ('0U', '4U'):
            f = db.one('instantiate', 'squids::SUTrace<%s>' % flags, 2)

            def run(d=d, f=f):
                a, _ = make_suv('A', d, 'a')
                b, _ = make_suv('B', d, 'b')
                Interp(db.unit('instantiate'), proxies.ProxyHooks()).call(f, None, [a, b])
            guarded('SUTrace<%s>/%d' % (flags, d), 'include/SQuIDS/detail/ProxyImpl.h', run)
    rep.floor('A.idx.bound', n, 110)


def sweep_solver(db, rep, tier):
    """A.idx.bound for the solver object: the abstract runs of the solver checks (node-indexed and interpolating
    queries for a query below / on every node / between nodes / above, grid set-up and lookup, derivative callback,
    Evolve, moves, re-initialisation) are repeated here with exact-extent arrays for x, state, estate, dstate and the
    flat system array; their functional verdicts are discarded, an access outside an extent is reported"""
    import c04
    import c05
    import c10
    import c17
    from fixtures import Scratch
    jobs = [('GetExpectationValue (node forms)', lambda r: c05.check_node_forms(db, r)),
            ('GetIntermediateState / GetExpectationValueD (every position of x)', lambda r: c05.check_interpolating(db, r)),
            ('Set_xrange(a,b,scale)', lambda r: c17.check_formulas(db, r)),
            ('Set_xrange(vector)', lambda r: c17.check_vector_overload(db, r)),
            ('Get_i (every position of x)', lambda r: c17.check_lookup(db, r, 'quick')),
            ('Evolve / clock', lambda r: c10.check_clock(db, r)),
            ('ini / re-initialisation', lambda r: c10.check_ini(db, r)),
            ('move construction / assignment', lambda r: c10.check_moves(db, r))]
    for cfg in (c04.CONFIGS_THOROUGH if tier == 'thorough' else c04.CONFIGS_QUICK):
        jobs.append(('RHS / Derive %s' % (cfg,), lambda r, cfg=cfg: c04.check_config(db, r, cfg, 'quick')))
    n = 0
    for label, job in jobs:
        n += 1
        sc = Scratch()
        sc.floor = lambda *a, **k: None
        sc.sample = lambda *a, **k: None
        sc.fn = lambda *a, **k: None
        sc.ok = lambda *a, **k: None
        sc.break_ = lambda *a, **k: None
        try:
            job(sc)
            nulls = [d for d in getattr(sc, 'details', []) if 'null pointer' in str(d[3])]
            if nulls:
                rule, site, where, found = nulls[0]
                rep.fail('A.idx.bound', 'solver/%s/%s' % (label, site), where or 'src/SQuIDS.cpp', 'every access inside a block the object owns', str(found))
            else:
                rep.ok('A.idx.bound')
        except Thrown:
            rep.ok('A.idx.bound')  # a library exception ends the run; what was accessed before it stayed inside the extents
        except OutOfBounds as e:
            rep.fail('A.idx.bound', 'solver/' + label, e.where or 'src/SQuIDS.cpp', 'every index inside the extent of its block', str(e))
        except NullDeref as e:
            rep.fail('A.idx.bound', 'solver/' + label, getattr(e, 'where', None) or 'src/SQuIDS.cpp', 'every access inside a block the object owns', 'a null pointer is dereferenced: %s' % e)
    rep.floor('A.idx.bound.solver', n, 8)
    # function-local static buffers outlive the call and the solver object: the queries are run on two solvers of
    # different dimension that share those statics, smaller first and larger first
    import squidsmodel as sm
    queries = (('GetExpectationValue', 3), ('GetExpectationValue', 5), ('GetExpectationValueD', 3), ('GetExpectationValueD', 5), ('GetIntermediateState', 2))
    for name, npar in queries:
        f = db.one('SQuIDS', 'squids::SQuIDS::' + name, npar, (lambda g: 'expectationValueDBuffer' not in ''.join(p['t'] for p in g['params'])))
        for dims in ((2, 3), (3, 2)):
            n += 1
            statics = {}
            try:
                for nsun in dims:
                    classes = [['X0', 'Q'], ['X1']]
                    hooks = sm.SquidsHooks(nsun, order=sm.OrderOracle(classes))
                    hooks.statics = statics
                    hooks.numeric_terms = True
                    this, hooks, it = sm.new_solver(db, 2, nsun, 1, 0, hooks=hooks, ti=Poly.const(0))
                    xv = this.value.fields['x'].value
                    for k in range(2):
                        xv.fields['data'].value.cell(k).value = Poly.var('X%d' % k)
                    sysreg = hooks.system_region
                    for k in range(sysreg.size):
                        sysreg.cell(k).value = Poly.const(0.25 + 0.0625 * k)  # values are irrelevant to the extents
                    this.value.fields['t'].value = Poly.const(1.5)
                    opc, _ = make_suv('op', nsun, 'o', content=lambda k: Poly.const(0.5 - 0.03125 * k))
                    npair = nsun * (nsun - 1) // 2
                    if name == 'GetIntermediateState':
                        args = [0, Poly.var('Q')]
                    elif name == 'GetExpectationValue':
                        args = [opc, 0, 0]
                    else:
                        args = [opc, 0, Poly.var('Q')]
                    if npar == 5:
                        args += [Poly.const(1e30), make_vector('avr', npair, lambda k: 0)]
                    it.call(f, this, args)
                rep.ok('A.idx.bound')
            except Thrown:
                rep.ok('A.idx.bound')
            except OutOfBounds as e:
                rep.fail('A.idx.bound', 'solver/%s(%d parameters)/dimension %d then %d' % (name, npar, dims[0], dims[1]), e.where or 'src/SQuIDS.cpp',
                         'every index inside the extent of its block, also when a solver of another dimension was queried before on the same thread', str(e))


def run(db, rep, tier):
    rep.trusted += ownrules.TRUSTED + ['GSL allocation functions and their matching free functions (table in engine/respair.py); GSL calls do not throw',
                                       'exceptions to "may throw": ' + '; '.join('%s -> %s: %s' % (k[0], k[1], v) for k, v in respair.CANNOT_THROW.items())]
    rep.declined += ['undefined behaviour inside GSL', 'arithmetic overflow']
    data = lifecycle.explore_cached(db, tier)
    rep.notes.append('%d lifecycle paths explored' % data['paths'])
    for k in sorted(data['ops'])[:400]:
        rep.fn(k)
    ownrules.report(rep, data, ('B.acc', 'B.oob', 'B.inv', 'B.inv.empty', 'B.align'), False, 'B.acc')  # the invariant is the induction hypothesis of the accounting argument
    rep.floor('B.acc', data['paths'], 1000)
    # GSL pairing
    units = ['SUNalg', 'const', 'SQuIDS', 'MatrixExp']
    findings, stats = respair.analyse_units(db, units)
    bad_fns = set()
    for (fn, var, alloc, site, what, where) in findings:
        bad_fns.add(fn)
        rep.fail('F.pair', '%s/%s' % (fn.split('(')[0], var), where, '%s (from %s at %s) released or handed to an owner on every path' % (var, alloc, site),
                 'still open at %s' % what, fn)
    rep.ok('F.pair', max(stats['exits'] - len(findings), 0))
    for nm in stats['names']:
        rep.fn(nm)
    rep.floor('F.pair', stats['resources'] + stats['scoped'], 6)  # a resource moved into a scoped owner still counts as looked at
    rep.sample('F.pair', '%d raw GSL resources (+%d allocated straight into a smart pointer) in %d functions, %d exits checked' % (stats['resources'], stats['scoped'], stats['functions'], stats['exits']))
    hf, ncls = respair.analyse_holders(db, units)
    for (rec, member, alloc, site, what, where) in hf:
        rep.fail('F.holder', '%s::%s' % (rec, member), where, 'holder releases %s (allocated by %s at %s)' % (member, alloc, site), what, rec)
    rep.ok('F.holder', max(ncls - len(set(h[0] for h in hf)), 0))
    rep.floor('F.holder', ncls, 2)
    sweep_kernels(db, rep, tier)
    sweep_solver(db, rep, tier)
    import fixtures
    fixtures.controls_c15(rep)
    fixtures.controls_own(rep, db)
