"""Abstract interpreter over the compact AST.

Integers, booleans, pointers and object structure are tracked concretely (or as opaque symbols /
polynomials where an engine seeds them); double-valued data are elements of the polynomial
domain (poly.Poly).  Nothing is executed: the interpreter walks the type-resolved syntax tree of
/repo's current sources and produces effect logs (writes to abstract memory cells, calls to
allocation primitives, throws) and final abstract stores that the rule engines compare with
their oracles.  Control that depends on double data is never followed: both branches are
interpreted and the stores merged into guarded values (ITE).

Anything outside the supported subset raises Unsupported (-> exit 2, never a verdict).
"""
import mpmath

from astdb import AnalysisBroken
from poly import Poly, apply_func


class Unsupported(AnalysisBroken):
    pass


class DivisionByZero(Unsupported):
    """a floating-point division whose divisor is exactly zero on the interpreted path (the result is inf or NaN):
    a finding for rules that can attribute it; otherwise the analysis stops undecided"""

    def __init__(self, msg, where=None):
        Unsupported.__init__(self, msg)
        self.where = where


class NullDeref(Unsupported):
    """dereference of a null pointer on the interpreted path (a finding for rules that can attribute it)"""


class Undefined:
    def __repr__(self):
        return '<undef>'


UNDEF = Undefined()


class Cell:
    __slots__ = ('value', 'region', 'idx', 'name')

    def __init__(self, value=UNDEF, region=None, idx=0, name=None):
        self.value = value
        self.region = region
        self.idx = idx
        self.name = name

    def __repr__(self):
        return 'Cell(%s=%r)' % (self.where(), self.value)

    def where(self):
        if self.region is not None:
            return '%s[%s]' % (self.region.name, self.idx)
        return self.name or '?'


NAN_NAME = '__NaN__'  # the symbol standing for a quiet NaN
NAN_SEEN = [False]  # set once a NaN has been produced (comparisons look for it only then)


class OutOfBounds(Exception):
    """an access outside the extent of an abstract memory block (a finding, not an engine failure)"""

    def __init__(self, region, idx):
        self.region = region
        self.idx = idx
        self.where = None

    def __str__(self):
        return 'access to %s[%s] outside its extent %s%s' % (self.region.name, self.idx, self.region.size,
                                                             (' at ' + self.where) if self.where else '')


class Region:
    """an array of cells; cells are created on demand by `make(i)`"""

    def __init__(self, name, size=None, make=None, kind='stack', meta=None):
        self.name = name
        self.size = size
        self.cells = {}
        self.make = make
        self.kind = kind
        self.meta = meta or {}

    def cell(self, i):
        c = self.cells.get(i)
        if c is None:
            if isinstance(self.size, int) and isinstance(i, int) and not (0 <= i < self.size):
                raise OutOfBounds(self, i)
            v = self.make(i) if self.make else UNDEF
            c = Cell(v, self, i)
            self.cells[i] = c
        return c

    def __repr__(self):
        return 'Region(%s)' % self.name


class Ptr:
    __slots__ = ('region', 'off', 'dims')

    def __init__(self, region, off=0, dims=None):
        self.region = region
        self.off = off
        self.dims = dims  # pointee is itself an array with these dimensions (pointer to row)

    def is_null(self):
        return self.region is None

    def __eq__(self, o):
        return isinstance(o, Ptr) and self.region is o.region and _same(self.off, o.off)

    def __ne__(self, o):
        return not self.__eq__(o)

    def __hash__(self):
        return hash((id(self.region), str(self.off)))

    def __repr__(self):
        return 'Ptr(null)' if self.region is None else 'Ptr(%s+%s)' % (self.region.name, self.off)


def _same(a, b):
    if isinstance(a, Poly) or isinstance(b, Poly):
        a = a if isinstance(a, Poly) else Poly.const(a)
        b = b if isinstance(b, Poly) else Poly.const(b)
        return a.equals(b)
    return a == b


NULL = Ptr(None, 0)


class ArrayView:
    """a (sub-)array of a flat region: value of an lvalue of array type"""
    __slots__ = ('region', 'off', 'dims')

    def __init__(self, region, off, dims):
        self.region = region
        self.off = off
        self.dims = dims

    def __repr__(self):
        return 'ArrayView(%s+%s,%s)' % (self.region.name, self.off, self.dims)


def _prod(xs):
    r = 1
    for x in xs:
        r *= x
    return r


class Obj:
    __slots__ = ('rec', 'fields', 'tag')

    def __init__(self, rec, fields=None, tag=None):
        self.rec = rec
        self.fields = fields or {}
        self.tag = tag

    def field(self, name):
        c = self.fields.get(name)
        if c is None:
            c = Cell(UNDEF, None, 0, '%s.%s' % (self.tag or self.rec, name))
            self.fields[name] = c
        return c

    def __repr__(self):
        return 'Obj<%s>{%s}' % (self.rec, ', '.join('%s=%r' % (k, v.value) for k, v in self.fields.items()))


class Ref:
    """value of a reference-typed field"""
    __slots__ = ('cell',)

    def __init__(self, cell):
        self.cell = cell

    def __repr__(self):
        return 'Ref(%s)' % self.cell.where()


class FuncRef:
    def __init__(self, name, fid=None, lam=None, captures=None):
        self.name = name
        self.fid = fid
        self.lam = lam
        self.captures = captures

    def __repr__(self):
        return 'FuncRef(%s)' % self.name


class Opaque:
    """an opaque non-numeric value (std::string, gsl handle ...)"""

    def __init__(self, what, payload=None):
        self.what = what
        self.payload = payload

    def __repr__(self):
        return 'Opaque(%s)' % self.what


class Cond:
    """symbolic boolean over polynomial comparisons"""
    __slots__ = ('kind', 'a', 'b', 'op')

    def __init__(self, kind, a=None, b=None, op=None):
        self.kind = kind  # 'cmp' | 'not' | 'and' | 'or' | 'atom'
        self.a = a
        self.b = b
        self.op = op

    def key(self):
        if self.kind == 'cmp':
            return ('cmp', self.op, self.a.key(), self.b.key())
        if self.kind == 'not':
            return ('not', self.a.key())
        if self.kind == 'atom':
            return ('atom', self.a)
        return (self.kind, self.a.key(), self.b.key())

    def negate(self):
        if self.kind == 'not':
            return self.a
        if self.kind == 'cmp':
            neg = {'<': '>=', '>': '<=', '<=': '>', '>=': '<', '==': '!=', '!=': '=='}[self.op]
            return Cond('cmp', self.a, self.b, neg)
        return Cond('not', self)

    def __repr__(self):
        if self.kind == 'cmp':
            return '(%s %s %s)' % (self.a, self.op, self.b)
        if self.kind == 'not':
            return '!%r' % (self.a,)
        if self.kind == 'atom':
            return str(self.a)
        return '(%r %s %r)' % (self.a, self.kind, self.b)


class ITE:
    """guarded value produced by merging the two arms of a data-dependent branch"""
    __slots__ = ('cond', 'a', 'b')

    def __init__(self, cond, a, b):
        self.cond = cond
        self.a = a
        self.b = b

    def __repr__(self):
        return 'ITE(%r ? %r : %r)' % (self.cond, self.a, self.b)


def same_value(a, b):
    """cheap structural identity of two abstract values (merging equal values needs no guard)"""
    if a is b:
        return True
    if isinstance(a, Ptr) and isinstance(b, Ptr):
        return a.region is b.region and type(a.off) is type(b.off) and a.off == b.off if not isinstance(a.off, Poly) else (isinstance(b.off, Poly) and a.off.equals(b.off))
    if isinstance(a, bool) or isinstance(b, bool):
        return type(a) is type(b) and a == b
    if isinstance(a, int) and isinstance(b, int):
        return a == b
    if isinstance(a, Poly) and isinstance(b, Poly):
        return a.equals(b)
    return False


class _Return(Exception):
    def __init__(self, value):
        self.value = value


class _Break(Exception):
    pass


class _Continue(Exception):
    pass


class Thrown(Exception):
    """a C++ throw reached on the interpreted path"""

    def __init__(self, node, what, unit):
        self.node = node
        self.what = what
        self.unit = unit

    def __str__(self):
        return 'throw at %s: %s' % (self.unit.loc(self.node) if self.node else '?', self.what)


class AssertionAbort(Thrown):
    """a failed assert(): the process is aborted (no C++ exception is raised), and the test vanishes under NDEBUG"""



INT_BITS = {'int': (32, True), 'unsigned int': (32, False), 'long': (64, True), 'unsigned long': (64, False),
            'long long': (64, True), 'unsigned long long': (64, False), 'short': (16, True),
            'unsigned short': (16, False), 'char': (8, True), 'signed char': (8, True), 'unsigned char': (8, False),
            'bool': (1, False)}


def base_type(t):
    if t.startswith('const '):
        t = t[6:]
    if t.endswith(' const'):
        t = t[:-6]
    return t


def wrap_int(v, t):
    if not isinstance(v, int) or isinstance(v, bool):
        if isinstance(v, bool):
            v = int(v)
        else:
            return v
    t = base_type(t)
    info = INT_BITS.get(t)
    if info is None:
        return v
    bits, signed = info
    if t == 'bool':
        return 1 if v else 0
    m = 1 << bits
    v &= m - 1
    if signed and v >= m >> 1:
        v -= m
    return v


def is_float_type(t):
    return base_type(t) in ('double', 'float', 'long double')


def is_int_type(t):
    return base_type(t) in INT_BITS


class Frame:
    def __init__(self, fdecl, this):
        self.fdecl = fdecl
        self.this = this
        self.vars = {}
        self.pending_returns = []  # (Cond, value): returns taken under a data-dependent condition
        self.locals = []  # cells of local objects with tracked lifetime (destroyed at function exit)
        self.temps = []   # cells of temporaries with tracked lifetime (destroyed at the end of the full-expression)


class Hooks:
    """engine-specific behaviour; the defaults refuse everything unknown"""

    def external_call(self, it, name, node, argnodes, this_cell):
        return NotImplemented

    def override_call(self, it, fdecl, node, argnodes, this_cell):
        return NotImplemented

    def on_write(self, it, cell, old, new, node):
        pass

    def on_read(self, it, cell, node):
        pass

    def on_new(self, it, node, count, elem_type):
        raise Unsupported('new-expression at %s' % it.unit.loc(node))

    def on_delete(self, it, node, ptr, is_array):
        raise Unsupported('delete-expression at %s' % it.unit.loc(node))

    def global_cell(self, it, node):
        raise Unsupported('global variable %s at %s' % (node.get('qname') or node.get('name'), it.unit.loc(node)))

    def symbolic_loop(self, it, node, cond):
        raise Unsupported('loop with data/symbol dependent condition at %s' % it.unit.loc(node))

    def on_divide(self, it, node, num, den):
        pass

    def float_to_int(self, it, node, value):
        raise Unsupported('floating to integral conversion of a symbolic value at %s' % it.unit.loc(node))

    def assume(self, it, cond, node):
        """called when one arm of a symbolic branch diverges (throws): the other arm continues under cond"""
        pass

    def tracked_record(self, rec):
        """records whose object lifetimes (destructor calls for locals and temporaries) are modelled"""
        return False

    statics = None  # optional store of function-local statics (thread_local or not) shared by several runs

    def static_local(self, it, d):
        # function-local statics keep their value between calls when the checker asks for it by providing a store;
        # otherwise every call sees a first call
        if self.statics is not None and (d['id'], id(it.unit)) in self.statics:
            return self.statics[(d['id'], id(it.unit))]
        return NotImplemented

    def static_store(self, it, d, cell):
        if self.statics is not None and cell is not None:
            self.statics.setdefault((d['id'], id(it.unit)), cell)

    def on_terminate(self, it, fdecl, thrown):
        raise Unsupported('exception "%s" reaches the boundary of the non-throwing function %s (std::terminate)' % (thrown.what, fdecl['name']))

    def on_ctor_abort(self, it, cell, fdecl):
        pass


MATH_FUNCS = {'sin': 'sin', 'cos': 'cos', 'sqrt': 'sqrt', 'fabs': 'fabs', 'std::abs': 'fabs', 'abs': 'fabs',
              'std::fabs': 'fabs', 'std::sqrt': 'sqrt', 'std::sin': 'sin', 'std::cos': 'cos', 'exp': 'exp',
              'std::exp': 'exp', 'log': 'log', 'std::log': 'log', 'cbrt': 'cbrt'}


class Interp:
    MAX_ITER = 100000

    def __init__(self, unit, hooks=None, max_depth=40):
        self.unit = unit
        self.hooks = hooks or Hooks()
        self.frames = []
        self.max_depth = max_depth
        self.journal = None  # list of (cell, old) when inside a symbolic branch
        self.post_returns = []  # [frame, cond, {id(cell): (cell, old)}]: writes made after a return taken under cond
        self.assumptions = []
        if getattr(hooks, 'unit_for_records', 0) is None:
            hooks.unit_for_records = unit
        self.loops = []  # active symbolic loops
        self.trace_calls = []

    # ------------------------------------------------------------------ helpers
    @property
    def frame(self):
        return self.frames[-1]

    def loc(self, node):
        return self.unit.loc(node)

    def write(self, cell, value, node=None):
        old = cell.value
        if self.journal is not None:
            self.journal.append((cell, old))
        for e in self.post_returns:
            if id(cell) not in e[2]:
                e[2][id(cell)] = (cell, old)
        cell.value = value
        self.hooks.on_write(self, cell, old, value, node)

    def read(self, cell, node=None):
        self.hooks.on_read(self, cell, node)
        v = cell.value
        if v is UNDEF:
            if node is not None and base_type(node.get('t', '')) == 'unsigned char':
                return UNDEF  # copying an indeterminate unsigned char is well defined; the value stays indeterminate
            if hasattr(self.hooks, 'on_undef_read'):
                r = self.hooks.on_undef_read(self, cell, node)
                if r is not NotImplemented:
                    return r
            raise Unsupported('read of undefined storage %s at %s' % (cell.where(), self.loc(node) if node else '?'))
        return v

    def copy_value(self, v):
        if isinstance(v, Obj):
            o = Obj(v.rec, None, v.tag)
            for k, c in v.fields.items():
                nc = o.field(k)
                nc.value = self.copy_value(c.value)
            if hasattr(v, '__dict__'):
                pass
            return o
        if isinstance(v, Region):
            r = Region(v.name + "'", v.size, v.make, v.kind, dict(v.meta))
            for i, c in v.cells.items():
                r.cell(i).value = self.copy_value(c.value)
            return r
        return v

    # ------------------------------------------------------------------ calls
    def call(self, fdecl, this_cell, argvals, node=None):
        """argvals: list aligned with fdecl['params']; a Cell for reference params, a value otherwise"""
        if len(self.frames) >= self.max_depth:
            raise Unsupported('call depth exceeded at %s' % fdecl['name'])
        fr = Frame(fdecl, this_cell)
        params = fdecl['params']
        if len(argvals) != len(params):
            raise Unsupported('arity mismatch calling %s' % fdecl['name'])
        for p, a in zip(params, argvals):
            if p.get('ref'):
                if not isinstance(a, Cell):
                    a = Cell(a, None, 0, 'tmp')
                fr.vars[p['id']] = a
            else:
                if isinstance(a, Cell):
                    a = a.value
                fr.vars[p['id']] = Cell(self.copy_value(a) if isinstance(a, Obj) else a, None, 0, p.get('name'))
        self.frames.append(fr)
        self.trace_calls.append(fdecl['name'])
        saved_unit = self.unit
        if fdecl.get('_unit') is not None:
            self.unit = fdecl['_unit']
        try:
            if fdecl.get('ctor'):
                self.run_ctor_inits(fdecl, this_cell)
                if fdecl.get('delegating'):
                    fr.delegated = True  # the target constructor has completed: the object exists from here on
            result = None
            try:
                if fdecl.get('body') is not None:
                    self.exec(fdecl['body'])
            except _Return as r:
                result = r.value
            for cond, val in reversed(fr.pending_returns):
                result = ITE(cond, val, result)
            self.unwind(fr, result)
            self.merge_post_returns(fr)
            return result
        except Thrown as t:
            self.post_returns = [e for e in self.post_returns if e[0] is not fr]
            self.unwind(fr, None)
            if fdecl.get('nothrow') and not isinstance(t, AssertionAbort):
                # [except.spec]: the exception does not leave the function; std::terminate is called
                self.hooks.on_terminate(self, fdecl, t)
            if fdecl.get('ctor') and this_cell is not None:
                if getattr(fr, 'delegated', False) and self.hooks.tracked_record(fdecl.get('record') or ''):
                    # [except.ctor]: an exception leaving the body of a delegating constructor after the target
                    # constructor completed destroys the (fully constructed) object
                    self.destroy(this_cell)
                    self.hooks.on_ctor_abort(self, this_cell, fdecl)
                else:
                    self.hooks.on_ctor_abort(self, this_cell, fdecl)
            raise
        finally:
            self.frames.pop()
            self.unit = saved_unit

    def merge_post_returns(self, fr):
        """the function returned early under a data-dependent condition c and went on under !c: every cell written
        since then holds its new value only under !c; under c it keeps what it held when the return was taken"""
        mine = [e for e in self.post_returns if e[0] is fr]
        if not mine:
            return
        self.post_returns = [e for e in self.post_returns if e[0] is not fr]
        for _fr, cond, written, early in reversed(mine):
            merged = dict(written)
            for cid, (cell, v1) in early.items():
                # written by the returning arm itself: under cond the cell holds that value
                merged[cid] = (cell, v1)
            for cid, (cell, old) in merged.items():
                new = cell.value
                if (old is UNDEF and cid not in early) or getattr(cell, '_dead', False) or same_value(new, old):
                    continue
                if self.journal is not None:
                    self.journal.append((cell, new))
                for e in self.post_returns:
                    if id(cell) not in e[2]:
                        e[2][id(cell)] = (cell, new)
                cell.value = ITE(cond, old, new)

    # ------------------------------------------------------------------ object lifetimes
    def track(self, cell, kind):
        v = cell.value
        if isinstance(v, Obj) and self.hooks.tracked_record(v.rec) and self.frames:
            (self.frame.locals if kind == 'local' else self.frame.temps).append(cell)

    def destroy(self, cell):
        v = cell.value
        if not isinstance(v, Obj) or getattr(cell, '_dead', False):
            return
        if v.tag == '<destroyed>':
            return
        dname = v.rec + '::~' + v.rec.split('::')[-1]
        dtors = self.unit.by_name.get(dname, [])
        if not dtors and getattr(self.unit, 'db', None) is not None:
            f = self.unit.db.link(dname, '')
            dtors = [f] if f else []
        if dtors:
            self.call(dtors[0], cell, [])
        elif hasattr(self.hooks, 'external_destroy'):
            self.hooks.external_destroy(self, cell)
        v.tag = '<destroyed>'

    def _same_obj(self, cell, keep):
        if keep is None:
            return False
        if isinstance(keep, Cell):
            keep = keep.value
        return cell.value is keep

    def end_full_expression(self, fr, mark, keep=None):
        temps = fr.temps[mark:]
        del fr.temps[mark:]
        for c in reversed(temps):
            if not self._same_obj(c, keep):
                self.destroy(c)

    def unwind(self, fr, result):
        self.end_full_expression(fr, 0, result)
        locs = fr.locals
        fr.locals = []
        for c in reversed(locs):
            if not self._same_obj(c, result):
                self.destroy(c)

    def run_ctor_inits(self, fdecl, this_cell):
        obj = this_cell.value
        for init in fdecl.get('inits', []):
            e = init['init']
            if 'member' in init:
                fc = obj.field(init['member'])
                mt = init.get('mt', '')
                if mt.endswith('&'):
                    fc.value = Ref(self.lval(e))
                    continue
                if e['k'] == 'CXXConstructExpr' and mt.endswith(']'):
                    # member array of class type: one default construction per element
                    try:
                        count = int(mt[mt.rindex('[') + 1:-1])
                    except ValueError:
                        raise Unsupported('member array %s of unknown extent' % mt)
                    reg = Region('%s.%s' % (obj.tag or obj.rec.split('::')[-1], init['member']), count, None, 'member')
                    for i in range(count):
                        c = reg.cell(i)
                        c.name = '%s[%d]' % (init['member'], i)
                        self.construct_into(c, e)
                        if isinstance(c.value, Obj):
                            c.value.tag = c.name
                    fc.value = reg
                elif e['k'] == 'CXXConstructExpr':
                    self.construct_into(fc, e)
                elif e['k'] == 'InitListExpr' and not is_int_type(mt) and not is_float_type(mt) and '*' not in mt:
                    self.write(fc, self.eval(e), e)
                elif e['k'] == 'ImplicitValueInitExpr':
                    self.write(fc, self.zero_of(mt), e)
                else:
                    v = self.eval(e)
                    self.write(fc, self.copy_value(v) if isinstance(v, Obj) else v, e)
            elif 'base' in init:
                # base sub-object shares the derived object's field map
                if e['k'] == 'CXXConstructExpr':
                    self.construct_into(this_cell, e, as_base=True)
                elif e['k'] == 'InitListExpr':
                    self.init_list_into(obj, e)
                else:
                    raise Unsupported('base initialiser %s at %s' % (e['k'], self.loc(e)))
            elif init.get('delegating'):
                inner = e
                while inner['k'] in ('ExprWithCleanups', 'CXXBindTemporaryExpr', 'MaterializeTemporaryExpr') and len(inner.get('c', [])) == 1:
                    inner = inner['c'][0]
                if inner['k'] not in ('CXXConstructExpr', 'CXXTemporaryObjectExpr'):
                    raise Unsupported('delegating initialiser %s at %s' % (inner['k'], self.loc(e)))
                self.construct_into(this_cell, inner, as_base=True)

    def zero_of(self, t):
        t = base_type(t)
        if is_float_type(t):
            return Poly.const(0)
        if is_int_type(t):
            return 0
        if t.endswith('*'):
            return NULL
        return UNDEF

    def init_list_into(self, obj, e):
        fields = e.get('fields')
        if fields is None:
            raise Unsupported('init list without record at %s' % self.loc(e))
        for fname, ce in zip(fields, e.get('c', [])):
            if fname.startswith('<base:'):
                if ce['k'] == 'InitListExpr':
                    self.init_list_into(obj, ce)
                elif ce['k'] == 'CXXConstructExpr':
                    tmp = Cell(obj, None, 0, 'base')
                    self.construct_into(tmp, ce, as_base=True)
                else:
                    raise Unsupported('base init %s' % ce['k'])
                continue
            fc = obj.field(fname)
            t = ce.get('t', '')
            if ce.get('lv') and self._field_is_ref(e, fname):
                fc.value = Ref(self.lval(ce))
            else:
                v = self.eval(ce)
                fc.value = self.copy_value(v) if isinstance(v, Obj) else v

    def _field_is_ref(self, ilist, fname):
        # reference-typed aggregate members are bound, not copied; the record table tells
        rec = base_type(ilist.get('t', ''))
        for r in self.unit.records:
            if r['name'] == rec or r.get('spec') == rec:
                for f in r['fields']:
                    if f['name'] == fname:
                        return f['t'].endswith('&')
        if ('<' in rec or '::' in rec) and not rec.startswith('std::'):
            # a class type this table does not know under that spelling (an alias in a template argument, say):
            # guessing "not a reference" would silently copy the operand
            raise Unsupported('aggregate initialisation of %s: record not found' % rec)
        return False

    def construct_into(self, cell, e, as_base=False):
        """evaluate CXXConstructExpr e constructing into cell"""
        fdecl = self.resolve(e)
        rec = e.get('record')
        if not as_base:
            cell.value = Obj(rec, None, cell.name)
        if fdecl is not None:
            r = self.hooks.override_call(self, fdecl, e, e['args'], cell)
            if r is not NotImplemented:
                return
            if e.get('zeroInit') and getattr(self.hooks, 'value_init_zero', False) and isinstance(cell.value, Obj) and not as_base:
                # value-initialisation through a constructor that is not user-provided: zero-initialised first
                # (modelled for the engines that ask for it: so far the cache engine)
                zt = base_type(e.get('t', '')) or rec
                while zt.endswith(']'):
                    zt = zt[:zt.rindex('[')].strip()
                self.zero_fill(cell.value, zt)
            argvals = self.eval_args(fdecl, e['args'])
            self.call(fdecl, cell, argvals, e)
            return
        # implicit / external constructor
        if (e.get('copyCtor') or e.get('moveCtor')) and len(e['args']) == 1:
            src = self.eval(e['args'][0]) if not e['args'][0].get('lv') and not e['args'][0].get('xv') else self.read(self.lval(e['args'][0]), e)
            if isinstance(src, Obj):
                cp = self.copy_value(src)
                if as_base:
                    for k, c in cp.fields.items():
                        cell.value.field(k).value = c.value
                else:
                    cp.tag = cell.name
                    cell.value = cp
                if e.get('moveCtor') and (rec or '').startswith('std::unique_ptr') and 'p' in src.fields:
                    src.fields['p'].value = NULL  # a moved-from smart pointer holds nothing
                return
            if not as_base:
                cell.value = src
                return
        if e.get('defaultCtor') and not e['args']:
            r = self.hooks.external_call(self, e.get('callee', rec), e, e['args'], cell)
            if r is NotImplemented:
                # implicit default constructor: members stay undefined unless they have in-class initialisers -
                # or the object is value-initialised (`T()`), which zeroes every member first
                if e.get('zeroInit') and getattr(self.hooks, 'value_init_zero', False) and isinstance(cell.value, Obj):
                    zt = base_type(e.get('t', '')) or rec
                    while zt.endswith(']'):
                        zt = zt[:zt.rindex('[')].strip()
                    self.zero_fill(cell.value, zt)
                return
            return
        r = self.hooks.external_call(self, e.get('callee', rec), e, e['args'], cell)
        if r is NotImplemented:
            raise Unsupported('constructor %s at %s' % (e.get('callee'), self.loc(e)))
        if r is not None and not as_base:
            cell.value = r

    def zero_fill(self, obj, rec_name, depth=0):
        """zero-initialisation of an object of class type: scalars 0, pointers null, members of class type recursively"""
        recs = [r for r in self.unit.records if (r.get('spec') or r['name']) == rec_name or r['name'] == rec_name]
        if not recs:
            # a member class of a template instantiation is named without its template arguments at the construction site
            import re as _re

            def bare(nm):
                prev = None
                while prev != nm:
                    prev, nm = nm, _re.sub(r'<[^<>]*>', '', nm)
                return nm
            cands = [r for r in self.unit.records if bare(r['name']) == rec_name]
            shapes = set(tuple((f['name'], bare(f['t'])) for f in r['fields']) for r in cands)
            if len(shapes) == 1:
                recs = cands[:1]  # every instantiation has the same members
        if not recs or depth > 6:
            return
        for f in recs[0]['fields']:
            t = f['t'].strip()
            if t.endswith(']'):
                continue  # member arrays are created on first access
            bt = base_type(t)
            if bt.endswith('*'):
                obj.field(f['name']).value = NULL
            elif is_float_type(bt):
                obj.field(f['name']).value = Poly.const(0)
            elif is_int_type(bt):
                obj.field(f['name']).value = 0
            elif not bt.startswith('std::'):
                sub = Obj(bt, None, f['name'])
                self.zero_fill(sub, bt, depth + 1)
                obj.field(f['name']).value = sub

    def eval_args(self, fdecl, argnodes):
        vals = []
        params = fdecl['params']
        for p, a in zip(params, argnodes):
            if p.get('ref'):
                vals.append(self.lval(a))
            else:
                vals.append(self.eval(a))
        if len(argnodes) != len(params):
            raise Unsupported('argument count mismatch for %s' % fdecl['name'])
        return vals

    def resolve(self, node):
        cid = node.get('calleeId')
        if not cid:
            return None
        f = self.unit.by_id.get(cid)
        if f is None and node.get('callee') and 'csig' in node:
            db = getattr(self.unit, 'db', None)
            if db is not None:
                f = db.link(node['callee'], node['csig'])
        return f

    def do_call(self, node):
        k = node['k']
        fn = node.get('fn')
        args = node['args']
        cid = node.get('calleeId')
        name = node.get('callee')
        this_cell = None
        fdecl = self.resolve(node)
        if k == 'CXXMemberCallExpr':
            me = self._strip_parens(fn)
            if me['k'] != 'MemberExpr':
                raise Unsupported('member call through %s at %s' % (me['k'], self.loc(node)))
            base = me['c'][0]
            if me.get('arrow'):
                p = self.eval(base)
                this_cell = self.deref(p, node)
            else:
                this_cell = self.lval(base)
        elif k == 'CXXOperatorCallExpr':
            is_member = False
            if fdecl is not None:
                is_member = bool(fdecl.get('record')) and not fdecl.get('staticMethod')
            else:
                is_member = len(node.get('pk', '')) == len(args) - 1
            if is_member:
                this_cell = self.lval(args[0])
                args = args[1:]
        if name is None:
            # call through a function pointer / lambda object
            f = self.eval(fn)
            if isinstance(f, FuncRef) and f.lam is not None:
                return self.call_lambda(f, args, node)
            raise Unsupported('indirect call at %s' % self.loc(node))
        if fdecl is not None:
            r = self.hooks.override_call(self, fdecl, node, args, this_cell)
            if r is not NotImplemented:
                return r
            if fdecl.get('lambda'):
                f = self.read(this_cell)
                return self.call_lambda(f, args, node)
            argvals = self.eval_args(fdecl, args)
            r = self.call(fdecl, this_cell, argvals, node)
            if isinstance(r, Obj) and self.hooks.tracked_record(r.rec):
                self.track(Cell(r, None, 0, 'tmp'), 'temp')
            return r
        if k == 'CXXOperatorCallExpr' and node.get('oop') == '()' and fdecl is None and this_cell is not None:
            f = this_cell.value
            if isinstance(f, FuncRef) and f.lam is not None:
                return self.call_lambda(f, args, node)
        if k == 'CXXOperatorCallExpr' and node.get('oop') == '=' and fdecl is None and this_cell is not None \
                and this_cell.value is UNDEF and len(args) == 1 and name.endswith('::operator='):
            src = self.lval(args[0]).value
            if isinstance(src, Obj):
                cp = self.copy_value(src)
                cp.tag = this_cell.name
                self.write(this_cell, cp, node)
                return this_cell
        if k == 'CXXOperatorCallExpr' and node.get('oop') == '=' and fdecl is None and this_cell is not None \
                and isinstance(this_cell.value, Obj) and len(args) == 1 and name.endswith('::operator='):
            # implicitly defined copy/move assignment: member-wise
            src = self.lval(args[0]).value
            if isinstance(src, Obj) and src.rec.split('<')[0] == this_cell.value.rec.split('<')[0]:
                cp = self.copy_value(src)
                for fk, fc in cp.fields.items():
                    self.write(this_cell.value.field(fk), fc.value, node)
                return this_cell
        # external
        bname = name.split('<')[0]
        if bname in ('std::isfinite', 'isfinite', 'std::isnan', 'isnan', 'std::isinf', 'isinf', '__builtin_isfinite', '__builtin_isnan', '__builtin_isinf') and len(args) == 1:
            # the engines compute over the reals: every value is finite, except the symbol that stands for a quiet NaN
            v = self.eval(args[0])
            v = v.value if isinstance(v, Cell) else v
            is_nan = NAN_SEEN[0] and isinstance(v, Poly) and NAN_NAME in v.vars()
            if bname.endswith('isfinite'):
                return 0 if is_nan else 1
            if bname.endswith('isnan'):
                return 1 if is_nan else 0
            return 0
        fnname = MATH_FUNCS.get(bname)
        if fnname and len(args) == 1:
            a = self.eval(args[0])
            if isinstance(a, int):
                a = Poly.const(a)
            if isinstance(a, Poly):
                return apply_func(fnname, a)
        if bname in ('pow', 'std::pow') and len(args) == 2:
            a = self.to_poly(self.eval(args[0]))
            b = self.eval(args[1])
            if isinstance(b, Poly) and b.is_const():
                bv = b.const_value()
                if bv == int(bv):
                    b = int(bv)
                elif a.is_const():
                    return Poly.const(mpmath.power(a.const_value(), bv))
                else:
                    return Poly.func('pow%s' % mpmath.nstr(bv, 17), a)
            if isinstance(b, int):
                if b >= 0:
                    return a ** b
                return Poly.const(1).div(a ** (-b))
            raise Unsupported('pow with symbolic exponent at %s' % self.loc(node))
        if bname in ('ldexp', 'std::ldexp', 'scalbn', 'std::scalbn') and len(args) == 2:
            # x * 2^e, exact for every int e (no intermediate integer power)
            a = self.to_poly(self.eval(args[0]))
            e = self.eval(args[1])
            if isinstance(e, Poly) and e.is_const() and e.const_value() == int(e.const_value()):
                e = int(e.const_value())
            if isinstance(e, int):
                return a.scale(mpmath.ldexp(mpmath.mpf(1), e))
            raise Unsupported('ldexp with symbolic exponent at %s' % self.loc(node))
        if bname in ('fmin', 'fmax', 'std::fmin', 'std::fmax') and len(args) == 2:
            bname = 'std::min' if bname.endswith('fmin') else 'std::max'  # (NaN arguments aside, which the real-number model does not have)
        if bname in ('std::min', 'std::max') and len(args) == 2:
            x, y = self.eval(args[0]), self.eval(args[1])
            x = x.value if isinstance(x, Cell) else x
            y = y.value if isinstance(y, Cell) else y
            if isinstance(x, int) and isinstance(y, int):
                return min(x, y) if bname == 'std::min' else max(x, y)
            if (isinstance(x, (Poly, ITE)) or isinstance(y, (Poly, ITE))) and isinstance(x, (Poly, ITE, int, float)) and isinstance(y, (Poly, ITE, int, float)) \
                    and not getattr(self.hooks, 'opaque_minmax', False):
                is_min = bname == 'std::min'

                def mm(a, b):
                    # a guarded operand: the selection is made under each of its guards
                    if isinstance(a, ITE):
                        return ITE(a.cond, mm(a.a, b), mm(a.b, b))
                    if isinstance(b, ITE):
                        return ITE(b.cond, mm(a, b.a), mm(a, b.b))
                    pa, pb = self.to_poly(a), self.to_poly(b)
                    if pa.is_const() and pb.is_const():
                        va, vb = pa.const_value(), pb.const_value()
                        return pa if ((va < vb) == is_min) or va == vb else pb
                    c = self.compare('<', pa, pb, node)
                    if isinstance(c, Cond):
                        return ITE(c, pa, pb) if is_min else ITE(c, pb, pa)
                    return (pa if c else pb) if is_min else (pb if c else pa)
                return mm(x, y)
        if bname in ('std::move', 'std::forward') and len(args) == 1:
            return self.lval(args[0])
        if name == '__builtin_assume' or name == '__builtin_unreachable' or name == '__builtin_expect':
            return None
        if name == '__builtin_assume_aligned':
            r = self.hooks.external_call(self, name, node, args, this_cell)
            return self.eval(args[0]) if r is NotImplemented else r
        r = self.hooks.external_call(self, name, node, args, this_cell)
        if r is NotImplemented and name.endswith('::operator=') and this_cell is not None and len(args) == 1 and fdecl is None:
            # implicitly defined copy/move assignment of a plain record (no definition in the sources): member-wise copy
            src = self.lval(args[0]).value if (args[0].get('lv') or args[0].get('xv')) else self.eval(args[0])
            if isinstance(src, Cell):
                src = src.value
            if isinstance(src, Obj):
                self.write(this_cell, self.copy_value(src), node)
                return this_cell
        if r is NotImplemented:
            raise Unsupported('call to external function %s at %s' % (name, self.loc(node)))
        return r

    def call_lambda(self, f, args, node):
        lam = f.lam
        fr = Frame({'name': '<lambda>', 'params': lam['params']}, self.frame.this)
        fr.vars.update(f.captures or {})
        for p, a in zip(lam['params'], args):
            if p.get('ref'):
                fr.vars[p['id']] = self.lval(a)
            else:
                fr.vars[p['id']] = Cell(self.eval(a), None, 0, p.get('name'))
        self.frames.append(fr)
        try:
            try:
                self.exec(lam['body'])
            except _Return as r:
                return r.value
            return None
        finally:
            self.frames.pop()

    def call_lambda_values(self, f, values):
        """call a closure with already evaluated arguments (cells for reference parameters)"""
        lam = f.lam
        fr = Frame({'name': '<lambda>', 'params': lam['params']}, self.frame.this)
        fr.vars.update(f.captures or {})
        for p, v in zip(lam['params'], values):
            if p.get('ref'):
                fr.vars[p['id']] = v if isinstance(v, Cell) else Cell(v, None, 0, p.get('name'))
            else:
                fr.vars[p['id']] = Cell(v.value if isinstance(v, Cell) else v, None, 0, p.get('name'))
        self.frames.append(fr)
        try:
            try:
                self.exec(lam['body'])
            except _Return as r:
                return r.value
            return None
        finally:
            self.frames.pop()

    def _strip_parens(self, n):
        while n['k'] in ('ParenExpr', 'ImplicitCastExpr') and len(n.get('c', [])) == 1:
            n = n['c'][0]
        return n

    # ------------------------------------------------------------------ lvalues
    def deref(self, p, node):
        if isinstance(p, Cell):
            return p
        if not isinstance(p, Ptr):
            raise Unsupported('dereference of non-pointer %r at %s' % (p, self.loc(node)))
        if p.region is None:
            raise NullDeref('null dereference at %s' % self.loc(node))
        off = p.off
        if isinstance(off, Poly):
            if off.is_const():
                off = int(off.const_value())
            else:
                off = ('sym', off.key(), off)
        try:
            return p.region.cell(off)
        except OutOfBounds as e:
            if e.where is None:
                e.where = self.loc(node)
            raise

    def const_global(self, node):
        """constant object at namespace/class scope (a table, a named constant): evaluated once from its declaration"""
        cache = self.__dict__.setdefault('_const_globals', {})
        key = (id(self.unit), node.get('id'))
        if key in cache:
            return cache[key]
        idx = self.unit.__dict__.get('_global_decls')
        if idx is None:
            idx = self.unit.__dict__['_global_decls'] = {g['id']: g['decl'] for g in self.unit.globals if 'decl' in g}
        d = idx.get(node.get('id'))
        if d is None:
            return None
        saved = self.frame.vars.get(d['id'])
        self.declare(d)
        c = self.frame.vars.pop(d['id'])
        if saved is not None:
            self.frame.vars[d['id']] = saved
        cache[key] = c
        return c

    def lookup_var(self, node):
        vid = node['id']
        for fr in (self.frame,):
            c = fr.vars.get(vid)
            if c is not None:
                return c
        if node.get('global'):
            if 'cv' in node:
                return Cell(node['cv'], None, 0, node.get('name'))  # constant with static storage (constexpr / const integral)
            c = self.const_global(node)
            if c is not None:
                return c
            return self.hooks.global_cell(self, node)
        # lambdas capture by reference in the sources of interest: search enclosing frames
        for fr in reversed(self.frames[:-1]):
            c = fr.vars.get(vid)
            if c is not None:
                return c
        raise Unsupported('unbound variable %s at %s' % (node.get('name'), self.loc(node)))

    def lval(self, node):
        k = node['k']
        if k == 'DeclRefExpr':
            if node.get('dk') in ('Function', 'CXXMethod'):
                return Cell(FuncRef(node.get('qname') or node['name'], node['id']))
            return self.lookup_var(node)
        if k == 'MemberExpr':
            if node.get('staticMember'):
                return self.hooks.global_cell(self, node)
            base = node['c'][0]
            if node.get('arrow'):
                p = self.eval(base)
                oc = self.deref(p, node)
            else:
                oc = self.lval(base)
            o = oc.value
            if isinstance(o, Ref):
                o = o.cell.value
            if not isinstance(o, Obj):
                raise Unsupported('member %s of non-object %r at %s' % (node['member'], o, self.loc(node)))
            fc = o.field(node['member'])
            if 'farr' in node and fc.value is UNDEF:
                dims = node.get('fdims') or [node['farr']]
                if len(dims) > 1:
                    fc.value = ArrayView(Region('%s.%s' % (o.tag or o.rec, node['member']), _prod(dims), None, 'member'), 0, list(dims))
                else:
                    fc.value = Region('%s.%s' % (o.tag or o.rec, node['member']), node['farr'], None, 'member')
            if node.get('fref'):
                v = fc.value
                if not isinstance(v, Ref):
                    raise Unsupported('unbound reference member %s at %s' % (node['member'], self.loc(node)))
                return v.cell
            return fc
        if k == 'ArraySubscriptExpr':
            b = self.eval(node['c'][0])
            i = self.eval(node['c'][1])
            if isinstance(b, Region):
                b = Ptr(b, 0)
            if isinstance(b, ArrayView):
                b = Ptr(b.region, b.off, b.dims[1:] if len(b.dims) > 1 else None)
            if not isinstance(b, Ptr):
                raise Unsupported('subscript of %r at %s' % (b, self.loc(node)))
            if b.dims:
                if not isinstance(i, int):
                    raise Unsupported('symbolic row index at %s' % self.loc(node))
                return Cell(ArrayView(b.region, b.off + i * _prod(b.dims), b.dims), None, 0, 'row')
            return self.deref(self.ptr_add(b, i), node)
        if k == 'UnaryOperator':
            op = node['op']
            if op == '*':
                return self.deref(self.eval(node['c'][0]), node)
            if op in ('++', '--') and not node.get('postfix'):
                c = self.lval(node['c'][0])
                self.incdec(c, op, node)
                return c
            if op in ('__real', '__imag', '__extension__'):
                pass
            raise Unsupported('lvalue unary %s at %s' % (op, self.loc(node)))
        if k in ('ParenExpr', 'ExprWithCleanups', 'CXXBindTemporaryExpr', 'ConstantExpr', 'SubstNonTypeTemplateParmExpr'):
            return self.lval(node['c'][0])
        if k in ('ImplicitCastExpr', 'CXXStaticCastExpr', 'CXXConstCastExpr', 'CStyleCastExpr', 'CXXFunctionalCastExpr',
                 'CXXReinterpretCastExpr'):
            ck = node['ck']
            if ck in ('NoOp', 'DerivedToBase', 'UncheckedDerivedToBase', 'BaseToDerived', 'LValueBitCast'):
                return self.lval(node['c'][0])
            # an rvalue conversion used where an lvalue is expected: materialise
            return Cell(self.eval(node), None, 0, 'tmp')
        if k == 'MaterializeTemporaryExpr':
            inner = node['c'][0]
            if inner.get('lv') or inner.get('xv'):
                return self.lval(inner)
            core = inner
            while core['k'] in ('CXXBindTemporaryExpr', 'ParenExpr', 'ExprWithCleanups') and len(core.get('c', [])) == 1:
                core = core['c'][0]
            if core['k'] in ('CallExpr', 'CXXMemberCallExpr', 'CXXOperatorCallExpr'):
                v = self.do_call(core)  # a summary may hand back the storage itself (proxy-reference types)
            else:
                v = self.eval(inner)
            if isinstance(v, Cell):
                return v
            c = Cell(v, None, 0, 'tmp')
            if isinstance(v, Obj) and v.tag is None:
                v.tag = 'tmp'
            return c
        if k in ('BinaryOperator', 'CompoundAssignOperator'):
            op = node['op']
            if op == '=' or op.endswith('=') and op not in ('==', '!=', '<=', '>='):
                return self.assign(node)
            if op == ',':
                self.eval(node['c'][0])
                return self.lval(node['c'][1])
            raise Unsupported('lvalue binary %s at %s' % (op, self.loc(node)))
        if k in ('CallExpr', 'CXXMemberCallExpr', 'CXXOperatorCallExpr'):
            r = self.do_call(node)
            if isinstance(r, Cell):
                return r
            return Cell(r, None, 0, 'tmp')
        if k == 'ConditionalOperator':
            c = self.truth(self.eval(node['cond']), node)
            return self.lval(node['then'] if c else node['else'])
        if k in ('CXXConstructExpr', 'CXXTemporaryObjectExpr', 'InitListExpr', 'CompoundLiteralExpr', 'LambdaExpr',
                 'CXXThisExpr', 'IntegerLiteral', 'FloatingLiteral', 'CXXBoolLiteralExpr', 'StringLiteral',
                 'CXXNullPtrLiteralExpr', 'CXXNewExpr', 'CXXDefaultArgExpr', 'UnaryExprOrTypeTraitExpr', 'GNUNullExpr',
                 'CXXScalarValueInitExpr', 'ImplicitValueInitExpr'):
            v = self.eval(node)
            if isinstance(v, Cell):
                return v
            c = Cell(v, None, 0, 'tmp')
            if isinstance(v, Obj) and v.tag is None:
                v.tag = 'tmp'
            return c
        raise Unsupported('lvalue of %s at %s' % (k, self.loc(node)))

    def ptr_add(self, p, i):
        if isinstance(i, Cell):
            i = i.value
        if isinstance(p.off, int) and isinstance(i, int):
            return Ptr(p.region, p.off + i)
        return Ptr(p.region, self.to_poly(p.off) + self.to_poly(i))

    def incdec(self, cell, op, node):
        v = self.read(cell, node)
        t = node['t']
        d = 1 if op == '++' else -1
        if isinstance(v, Ptr):
            nv = self.ptr_add(v, d)
        elif isinstance(v, int):
            nv = wrap_int(v + d, t)
        elif isinstance(v, Poly):
            nv = v + Poly.const(d)
        else:
            raise Unsupported('++/-- on %r at %s' % (v, self.loc(node)))
        self.write(cell, nv, node)
        return v

    # ------------------------------------------------------------------ rvalues
    def to_poly(self, v):
        if isinstance(v, Poly):
            return v
        if isinstance(v, bool):
            return Poly.const(int(v))
        if isinstance(v, int):
            return Poly.const(v)
        if isinstance(v, ITE):
            return v
        raise Unsupported('numeric value expected, got %r' % (v,))

    def truth(self, v, node):
        if isinstance(v, bool):
            return v
        if isinstance(v, int):
            return v != 0
        if isinstance(v, Ptr):
            return not v.is_null()
        if isinstance(v, Poly) and v.is_const():
            return v.const_value() != 0
        if isinstance(v, Cond):
            return v
        if isinstance(v, Poly):
            return Cond('cmp', v, Poly.const(0), '!=')
        if isinstance(v, Opaque) and v.what == 'string':
            return True
        if isinstance(v, FuncRef):
            return True
        if isinstance(v, ITE):
            ta, tb = self.truth(v.a, node), self.truth(v.b, node)
            if not isinstance(ta, Cond) and not isinstance(tb, Cond):
                if bool(ta) == bool(tb):
                    return bool(ta)
                return v.cond if ta else v.cond.negate()
            ca = ta if isinstance(ta, Cond) else None
            cb = tb if isinstance(tb, Cond) else None
            left = (Cond('and', v.cond, ca) if ca is not None else (v.cond if ta else None))
            right = (Cond('and', v.cond.negate(), cb) if cb is not None else (v.cond.negate() if tb else None))
            if left is None:
                return right if right is not None else False
            if right is None:
                return left
            return Cond('or', left, right)
        raise Unsupported('truth value of %r at %s' % (v, self.loc(node)))

    def eval(self, node):
        k = node['k']
        m = getattr(self, 'e_' + k, None)
        if m is None:
            raise Unsupported('expression kind %s at %s' % (k, self.loc(node)))
        return m(node)

    def e_IntegerLiteral(self, n):
        return wrap_int(n['v'], n.get('t', 'int'))

    def e_CXXBoolLiteralExpr(self, n):
        return n['v']

    def e_CharacterLiteral(self, n):
        return n['v']

    def e_FloatingLiteral(self, n):
        src = n.get('src')
        if src:
            s = src.rstrip('fFlL')
            try:
                return Poly.const(mpmath.mpf(s))
            except Exception:
                pass
        return Poly.const(mpmath.mpf(n['v']))

    def e_StringLiteral(self, n):
        return Opaque('string', n.get('v'))

    def e_CXXNullPtrLiteralExpr(self, n):
        return NULL

    def e_GNUNullExpr(self, n):
        return 0

    def e_ParenExpr(self, n):
        return self.eval(n['c'][0])

    e_ExprWithCleanups = e_ParenExpr
    e_CXXBindTemporaryExpr = e_ParenExpr
    e_ConstantExpr = e_ParenExpr
    e_SubstNonTypeTemplateParmExpr = e_ParenExpr
    e_CXXDefaultArgExpr = e_ParenExpr
    e_CXXDefaultInitExpr = e_ParenExpr

    def e_MaterializeTemporaryExpr(self, n):
        inner = n['c'][0]
        return self.eval(inner)

    def e_CXXThisExpr(self, n):
        th = self.frame.this
        if th is None:
            raise Unsupported('this outside a method at %s' % self.loc(n))
        if th.region is not None:
            return Ptr(th.region, th.idx)
        r = Region(th.name or 'obj', 1, None, 'obj')
        r.cells[0] = th
        th.region = r
        th.idx = 0
        return Ptr(r, 0)

    def e_DeclRefExpr(self, n):
        if 'cv' in n and n.get('dk') in ('EnumConstant', 'NonTypeTemplateParm'):
            return n['cv']
        if n.get('dk') in ('Function', 'CXXMethod'):
            return FuncRef(n.get('qname') or n['name'], n['id'])
        c = self.lookup_var_or_const(n)
        if isinstance(c, Cell):
            return self.read(c, n)
        return c

    def lookup_var_or_const(self, n):
        try:
            return self.lookup_var(n)
        except Unsupported:
            if 'cv' in n:
                return n['cv']
            raise

    def e_MemberExpr(self, n):
        if n.get('method'):
            return FuncRef(n['member'], n['id'])
        if 'cv' in n and n.get('staticMember'):
            return n['cv']
        return self.read(self.lval(n), n)

    def e_ArraySubscriptExpr(self, n):
        return self.read(self.lval(n), n)

    def e_ImplicitCastExpr(self, n):
        ck = n['ck']
        c = n['c'][0]
        t = n['t']
        if ck == 'LValueToRValue':
            if 'cv' in c and c['k'] == 'DeclRefExpr' and c.get('global'):
                return c['cv']
            if 'cv' in c and c['k'] == 'MemberExpr' and c.get('staticMember'):
                return c['cv']
            return self.read(self.lval(c), n)
        if ck in ('NoOp', 'DerivedToBase', 'UncheckedDerivedToBase', 'BaseToDerived', 'ConstructorConversion',
                  'UserDefinedConversion', 'FunctionToPointerDecay', 'BuiltinFnToFnPtr', 'BitCast', 'FloatingCast',
                  'AtomicToNonAtomic', 'NonAtomicToAtomic'):
            if (c.get('lv') or c.get('xv')) and ck in ('NoOp', 'DerivedToBase', 'UncheckedDerivedToBase') and n.get('lv'):
                return self.read(self.lval(c), n)
            return self.eval(c)
        if ck == 'ArrayToPointerDecay':
            if c['k'] == 'StringLiteral':
                return Opaque('string', c.get('v'))
            cell = self.lval(c)
            r = cell.value
            if isinstance(r, Region):
                return Ptr(r, 0)
            if isinstance(r, ArrayView):
                return Ptr(r.region, r.off, r.dims[1:] if len(r.dims) > 1 else None)
            raise Unsupported('array decay of %r at %s' % (r, self.loc(n)))
        if ck == 'IntegralCast':
            v = self.eval(c)
            return wrap_int(v, t)
        if ck == 'IntegralToBoolean':
            v = self.eval(c)
            if isinstance(v, int):
                return 1 if v else 0
            return self.truth(v, n)
        if ck == 'IntegralToFloating':
            v = self.eval(c)
            return self.to_poly(v)
        if ck == 'FloatingToIntegral':
            v = self.eval(c)
            if isinstance(v, Poly) and v.is_const():
                return wrap_int(int(v.const_value()), t)
            return self.hooks.float_to_int(self, n, v)
        if ck == 'FloatingToBoolean':
            return self.truth(self.eval(c), n)
        if ck == 'PointerToBoolean':
            v = self.eval(c)
            return self.truth(v, n)
        if ck == 'NullToPointer':
            return NULL
        if ck == 'ToVoid':
            self.eval(c)
            return None
        if ck in ('PointerToIntegral', 'IntegralToPointer'):
            v = self.eval(c)
            return self.hooks.pointer_int(self, n, v) if hasattr(self.hooks, 'pointer_int') else self._unsup(n, 'pointer/integer cast')
        raise Unsupported('cast kind %s at %s' % (ck, self.loc(n)))

    e_CStyleCastExpr = e_ImplicitCastExpr
    e_CXXStaticCastExpr = e_ImplicitCastExpr
    e_CXXFunctionalCastExpr = e_ImplicitCastExpr
    e_CXXConstCastExpr = e_ImplicitCastExpr
    e_CXXReinterpretCastExpr = e_ImplicitCastExpr

    def _unsup(self, n, what):
        raise Unsupported('%s at %s' % (what, self.loc(n)))

    def e_UnaryOperator(self, n):
        op = n['op']
        c = n['c'][0]
        if op in ('++', '--'):
            cell = self.lval(c)
            old = self.incdec(cell, op, n)
            return old if n.get('postfix') else cell.value
        if op == '&':
            if c['k'] == 'DeclRefExpr' and c.get('dk') in ('Function', 'CXXMethod'):
                return FuncRef(c.get('qname') or c['name'], c['id'])
            core = c
            while core['k'] == 'ParenExpr':
                core = core['c'][0]
            if core['k'] == 'ArraySubscriptExpr':
                # &p[i] is pointer arithmetic (also for the one-past-the-end element): no access takes place
                b = self.eval(core['c'][0])
                i = self.eval(core['c'][1])
                if isinstance(b, Ptr) and not b.dims:
                    return self.ptr_add(b, i)
            cell = self.lval(c)
            if cell.region is None:
                r = Region(cell.name or 'obj', 1, None, 'obj')
                r.cells[0] = cell
                cell.region = r
                cell.idx = 0
            idx = cell.idx
            if isinstance(idx, tuple) and idx and idx[0] == 'sym':
                idx = idx[2]
            return Ptr(cell.region, idx)
        if op == '*':
            return self.read(self.deref(self.eval(c), n), n)
        v = self.eval(c)
        if op == '-':
            if isinstance(v, int):
                return wrap_int(-v, n['t'])
            if isinstance(v, ITE):
                return self.map_ite(v, lambda x: -x)
            return -self.to_poly(v)
        if op == '+':
            return v
        if op == '!':
            tv = self.truth(v, n)
            if isinstance(tv, Cond):
                return tv.negate()
            return 0 if tv else 1
        if op == '~':
            if isinstance(v, int):
                return wrap_int(~v, n['t'])
        raise Unsupported('unary %s on %r at %s' % (op, v, self.loc(n)))

    def map_ite(self, v, f):
        if isinstance(v, ITE):
            return ITE(v.cond, self.map_ite(v.a, f), self.map_ite(v.b, f))
        return f(v)

    def map_ite2(self, a, b, f):
        if isinstance(a, ITE):
            return ITE(a.cond, self.map_ite2(a.a, b, f), self.map_ite2(a.b, b, f))
        if isinstance(b, ITE):
            return ITE(b.cond, self.map_ite2(a, b.a, f), self.map_ite2(a, b.b, f))
        return f(a, b)

    def arith(self, op, a, b, t, node):
        if isinstance(a, Cell):
            a = a.value
        if isinstance(b, Cell):
            b = b.value
        if isinstance(a, ITE) or isinstance(b, ITE):
            return self.map_ite2(a, b, lambda x, y: self.arith(op, x, y, t, node))
        if isinstance(a, Ptr) or isinstance(b, Ptr):
            if op == '+':
                return self.ptr_add(a, b) if isinstance(a, Ptr) else self.ptr_add(b, a)
            if op == '-' and isinstance(a, Ptr) and isinstance(b, Ptr):
                if a.region is not b.region:
                    raise Unsupported('difference of pointers into different regions at %s' % self.loc(node))
                if isinstance(a.off, int) and isinstance(b.off, int):
                    return a.off - b.off
                return self.to_poly(a.off) - self.to_poly(b.off)
            if op == '-' and isinstance(a, Ptr):
                if isinstance(b, int):
                    return self.ptr_add(a, -b)
                return self.ptr_add(a, -self.to_poly(b))
            raise Unsupported('pointer arithmetic %s at %s' % (op, self.loc(node)))
        if isinstance(a, (int, bool)) and isinstance(b, (int, bool)) and not is_float_type(t):
            a, b = int(a), int(b)
            if op == '+':
                r = a + b
            elif op == '-':
                r = a - b
            elif op == '*':
                r = a * b
            elif op == '/':
                if b == 0:
                    raise Unsupported('integer division by zero at %s' % self.loc(node))
                r = abs(a) // abs(b)
                if (a < 0) != (b < 0):
                    r = -r
            elif op == '%':
                if b == 0:
                    raise Unsupported('integer modulo by zero at %s' % self.loc(node))
                r = abs(a) % abs(b)
                if a < 0:
                    r = -r
            elif op == '<<':
                r = a << b
            elif op == '>>':
                r = a >> b
            elif op == '&':
                r = a & b
            elif op == '|':
                r = a | b
            elif op == '^':
                r = a ^ b
            else:
                raise Unsupported('integer operator %s at %s' % (op, self.loc(node)))
            return wrap_int(r, t)
        pa, pb = self.to_poly(a), self.to_poly(b)
        if op == '+':
            return pa + pb
        if op == '-':
            return pa - pb
        if op == '*':
            return pa * pb
        if op == '/':
            if not is_float_type(t) and not (pa.is_const() and pb.is_const()):
                # symbolic integer division: keep as opaque quotient
                return Poly.func('idiv', pa) * Poly.func('inv', pb) if False else self._sym_idiv(pa, pb, node)
            if pb.is_const() and pb.const_value() == 0:
                raise DivisionByZero('floating division by literal zero at %s' % self.loc(node), self.loc(node))
            if not pb.is_const():
                self.hooks.on_divide(self, node, pa, pb)
            return pa.div(pb)
        if op == '%':
            return self._sym_mod(pa, pb, node)
        raise Unsupported('operator %s on symbolic operands at %s' % (op, self.loc(node)))

    def _sym_idiv(self, a, b, node):
        if hasattr(self.hooks, 'sym_idiv'):
            return self.hooks.sym_idiv(self, a, b, node)
        raise Unsupported('symbolic integer division at %s' % self.loc(node))

    def _sym_mod(self, a, b, node):
        if hasattr(self.hooks, 'sym_mod'):
            return self.hooks.sym_mod(self, a, b, node)
        raise Unsupported('symbolic modulo at %s' % self.loc(node))

    def compare(self, op, a, b, node):
        if isinstance(a, ITE) or isinstance(b, ITE):
            # case split on the guard of the guarded operand
            g = a if isinstance(a, ITE) else b
            if isinstance(a, ITE):
                x, y = self.compare(op, a.a, b, node), self.compare(op, a.b, b, node)
            else:
                x, y = self.compare(op, a, b.a, node), self.compare(op, a, b.b, node)
            if not isinstance(x, Cond) and not isinstance(y, Cond) and x == y:
                return x
            cx = x if isinstance(x, Cond) else Cond('atom', bool(x))
            cy = y if isinstance(y, Cond) else Cond('atom', bool(y))
            if not isinstance(x, Cond):
                return Cond('and', g.cond.negate(), cy) if not x else Cond('or', g.cond, cy)
            if not isinstance(y, Cond):
                return Cond('and', g.cond, cx) if not y else Cond('or', g.cond.negate(), cx)
            return Cond('or', Cond('and', g.cond, cx), Cond('and', g.cond.negate(), cy))
        if isinstance(a, Ptr) or isinstance(b, Ptr):
            if isinstance(a, int) and a == 0:
                a = NULL
            if isinstance(b, int) and b == 0:
                b = NULL
            if not (isinstance(a, Ptr) and isinstance(b, Ptr)):
                raise Unsupported('pointer comparison with %r/%r at %s' % (a, b, self.loc(node)))
            if op in ('==', '!='):
                if hasattr(self.hooks, 'ptr_equal'):
                    r = self.hooks.ptr_equal(self, a, b, node)
                    if r is not NotImplemented:
                        return (1 if r else 0) if op == '==' else (0 if r else 1)
                eq = (a == b)
                return (1 if eq else 0) if op == '==' else (0 if eq else 1)
            if a.region is b.region and isinstance(a.off, int) and isinstance(b.off, int):
                return self.compare(op, a.off, b.off, node)
            raise Unsupported('ordered comparison of pointers at %s' % self.loc(node))
        if isinstance(a, (int, bool)) and isinstance(b, (int, bool)):
            a, b = int(a), int(b)
            r = {'<': a < b, '>': a > b, '<=': a <= b, '>=': a >= b, '==': a == b, '!=': a != b}[op]
            return 1 if r else 0
        if isinstance(a, Opaque) or isinstance(b, Opaque) or isinstance(a, FuncRef) or isinstance(b, FuncRef):
            if hasattr(self.hooks, 'opaque_compare'):
                return self.hooks.opaque_compare(self, op, a, b, node)
            raise Unsupported('comparison of opaque values at %s' % self.loc(node))
        pa, pb = self.to_poly(a), self.to_poly(b)
        if NAN_SEEN[0] and (NAN_NAME in pa.vars() or NAN_NAME in pb.vars()):
            return 1 if op == '!=' else 0  # IEEE: every comparison with a NaN is false, except !=
        d = (pa - pb).clean()
        if d.is_const():
            v = d.const_value()
            r = {'<': v < 0, '>': v > 0, '<=': v <= 0, '>=': v >= 0, '==': v == 0, '!=': v != 0}[op]
            return 1 if r else 0
        if self.assumptions:
            r = self.implied(op, d)
            if r is not None:
                return r
        if hasattr(self.hooks, 'decide_cmp'):
            r = self.hooks.decide_cmp(self, op, pa, pb, node)
            if r is not NotImplemented:
                return r
        return Cond('cmp', pa, pb, op)

    _SIGNS = {'<': {-1}, '<=': {-1, 0}, '>': {1}, '>=': {0, 1}, '==': {0}, '!=': {-1, 1}}

    def implied(self, op, d):
        """is `d op 0` settled by the conditions this path has already passed?  (an `if(c) throw` seen earlier leaves !c in
        force for the rest of the path: conditions are over input symbols, whose values do not change).  Only
        comparisons of the same quantity (or its negative) are used."""
        known = {-1, 0, 1}
        hit = False
        for a in self.assumptions:
            if not (isinstance(a, Cond) and a.kind == 'cmp' and isinstance(a.a, Poly) and isinstance(a.b, Poly)):
                continue
            da = (a.a - a.b).clean()
            if da.equals(d):
                known &= self._SIGNS[a.op]
                hit = True
            elif da.equals(-d):
                known &= {-x for x in self._SIGNS[a.op]}
                hit = True
        if not hit or not known:
            return None  # nothing known, or contradictory conditions (an infeasible path): not decided here
        q = self._SIGNS[op]
        if known <= q:
            return 1
        if not (known & q):
            return 0
        return None

    def e_BinaryOperator(self, n):
        op = n['op']
        if op == '=':
            c = self.assign(n)
            return c.value
        if op == ',':
            self.eval(n['c'][0])
            return self.eval(n['c'][1])
        if op in ('&&', '||'):
            a = self.truth(self.eval(n['c'][0]), n)
            if not isinstance(a, Cond):
                if op == '&&' and not a:
                    return 0
                if op == '||' and a:
                    return 1
                b = self.truth(self.eval(n['c'][1]), n)
                if isinstance(b, Cond):
                    return b
                return 1 if b else 0
            b = self.truth(self.eval(n['c'][1]), n)
            if not isinstance(b, Cond):
                if op == '&&':
                    return a if b else 0
                return 1 if b else a
            return Cond('and' if op == '&&' else 'or', a, b)
        a = self.eval(n['c'][0])
        b = self.eval(n['c'][1])
        if op in ('<', '>', '<=', '>=', '==', '!='):
            return self.compare(op, a, b, n)
        if op in ('.*', '->*'):
            raise Unsupported('pointer to member at %s' % self.loc(n))
        if op in ('|', '&', '^') and (isinstance(a, Cond) or isinstance(b, Cond)):
            # bit operations on the 0/1 results of comparisons: the non-short-circuit forms of ||, && and !=
            ta, tb = self.truth(a, n), self.truth(b, n)
            if op == '^':
                if not isinstance(ta, Cond):
                    return tb.negate() if ta else tb
                if not isinstance(tb, Cond):
                    return ta.negate() if tb else ta
                return Cond('or', Cond('and', ta, tb.negate()), Cond('and', ta.negate(), tb))
            if not isinstance(ta, Cond):
                return (tb if ta else 0) if op == '&' else (1 if ta else tb)
            if not isinstance(tb, Cond):
                return (ta if tb else 0) if op == '&' else (1 if tb else ta)
            return Cond('and' if op == '&' else 'or', ta, tb)
        return self.arith(op, a, b, n['t'], n)

    def e_CompoundAssignOperator(self, n):
        return self.assign(n).value

    def assign(self, n):
        op = n['op']
        lhs, rhs = n['c'][0], n['c'][1]
        if op == '=':
            # C++ sequencing: right operand first
            if rhs.get('t', '').endswith('&'):
                v = self.eval(rhs)
            else:
                v = self.eval(rhs)
            cell = self.lval(lhs)
            if isinstance(v, Obj):
                v = self.copy_value(v)
                v.tag = cell.value.tag if isinstance(cell.value, Obj) else (cell.name or v.tag)
            self.write(cell, v, n)
            return cell
        bop = op[:-1]
        v = self.eval(rhs)
        cell = self.lval(lhs)
        old = self.read(cell, n)
        ct = n.get('ct', n['t'])
        nv = self.arith(bop, old, v, ct, n)
        if is_int_type(n['t']) and isinstance(nv, int):
            nv = wrap_int(nv, n['t'])
        self.write(cell, nv, n)
        return cell

    def e_ConditionalOperator(self, n):
        c = self.truth(self.eval(n['cond']), n)
        if isinstance(c, Cond):
            a = self.eval(n['then'])
            b = self.eval(n['else'])
            return ITE(c, a, b)
        return self.eval(n['then'] if c else n['else'])

    def e_CallExpr(self, n):
        r = self.do_call(n)
        if isinstance(r, Cell):
            # call returning a reference used as an rvalue
            return self.read(r, n)
        return r

    e_CXXMemberCallExpr = e_CallExpr
    e_CXXOperatorCallExpr = e_CallExpr

    def e_CXXConstructExpr(self, n):
        c = Cell(UNDEF, None, 0, 'tmp')
        self.construct_into(c, n)
        self.track(c, 'temp')
        return c.value

    e_CXXTemporaryObjectExpr = e_CXXConstructExpr

    def e_InitListExpr(self, n):
        t = base_type(n.get('t', ''))
        if 'fields' in n:
            o = Obj(t)
            self.init_list_into(o, n)
            return o
        if is_int_type(t) or is_float_type(t) or t.endswith('*'):
            if n.get('c'):
                return self.eval(n['c'][0])
            return self.zero_of(t)
        # array
        vals = [self.eval(c) for c in n.get('c', [])]
        r = Region('initlist', len(vals), None, 'stack')
        for i, v in enumerate(vals):
            r.cell(i).value = v
        return r

    def e_CXXStdInitializerListExpr(self, n):
        v = self.eval(n['c'][0])
        if isinstance(v, Cell):
            v = v.value
        return v  # the backing array (Region)

    def e_CompoundLiteralExpr(self, n):
        return self.eval(n['c'][0])

    def e_ImplicitValueInitExpr(self, n):
        return self.zero_of(n.get('t', ''))

    e_CXXScalarValueInitExpr = e_ImplicitValueInitExpr

    def e_UnaryExprOrTypeTraitExpr(self, n):
        if 'cv' in n:
            return n['cv']
        raise Unsupported('sizeof at %s' % self.loc(n))

    def e_CXXThrowExpr(self, n):
        what = None
        for x in _walk_strings(n):
            what = x
            break
        raise Thrown(n, what, self.unit)

    def e_CXXNewExpr(self, n):
        count = None
        if n.get('array'):
            count = self.eval(n['size'])
        return self.hooks.on_new(self, n, count, n.get('alloc'))

    def e_CXXDeleteExpr(self, n):
        p = self.eval(n['c'][0])
        self.hooks.on_delete(self, n, p, bool(n.get('array')))
        return None

    def e_LambdaExpr(self, n):
        return FuncRef('<lambda>', n.get('callop'), lam=n, captures=dict(self.frame.vars))

    def e_CXXNoexceptExpr(self, n):
        return n.get('cv', 0)

    # ------------------------------------------------------------------ statements
    def exec(self, n):
        if n is None:
            return
        k = n['k']
        if k == 'CompoundStmt':
            for c in n.get('c', []):
                self.exec(c)
            return
        fr = self.frame
        mark = len(fr.temps)
        if mark == 0 and not fr.locals and not self.hooks.tracked_record:
            return self.exec1(n, k)
        try:
            self.exec1(n, k)
        except _Return as r:
            self.end_full_expression(fr, mark, r.value)
            raise
        except (_Break, _Continue):
            self.end_full_expression(fr, mark)
            raise
        except Thrown:
            self.end_full_expression(fr, mark)
            raise
        self.end_full_expression(fr, mark)

    def exec1(self, n, k):
        if k == 'DeclStmt':
            for d in n['decls']:
                if d['k'] == 'VarDecl':
                    self.declare(d)
            return
        if k == 'IfStmt':
            self.exec_if(n)
            return
        if k == 'ForStmt':
            self.exec_for(n)
            return
        if k == 'WhileStmt':
            it = 0
            while True:
                c = self.truth(self.eval(n['cond']), n)
                if isinstance(c, Cond):
                    self.hooks.symbolic_loop(self, n, c)
                    return
                if not c:
                    break
                try:
                    self.exec(n['body'])
                except _Break:
                    break
                except _Continue:
                    pass
                it += 1
                if it > self.MAX_ITER:
                    raise Unsupported('iteration bound exceeded at %s' % self.loc(n))
            return
        if k == 'DoStmt':
            it = 0
            while True:
                try:
                    self.exec(n['body'])
                except _Break:
                    break
                except _Continue:
                    pass
                c = self.truth(self.eval(n['cond']), n)
                if isinstance(c, Cond):
                    raise Unsupported('do-while with symbolic condition at %s' % self.loc(n))
                if not c:
                    break
                it += 1
                if it > self.MAX_ITER:
                    raise Unsupported('iteration bound exceeded at %s' % self.loc(n))
            return
        if k == 'ReturnStmt':
            c = n.get('c') or []
            if not c or c[0] is None:
                raise _Return(None)
            e = c[0]
            ret = self.frame.fdecl.get('ret', '')
            if ret.endswith('&'):
                raise _Return(self.lval(e))
            raise _Return(self.eval(e))
        if k == 'SwitchStmt':
            self.exec_switch(n)
            return
        if k == 'BreakStmt':
            raise _Break()
        if k == 'ContinueStmt':
            raise _Continue()
        if k == 'NullStmt':
            return
        if k in ('CaseStmt', 'DefaultStmt'):
            self.exec(n['sub'])
            return
        if k == 'CXXTryStmt':
            raise Unsupported('try block at %s' % self.loc(n))
        if k == 'CXXForRangeStmt':
            self.exec_range_for(n)
            return
        # expression statement (discarded-value expression: no lvalue-to-rvalue conversion of the result)
        e = n
        while e['k'] in ('ExprWithCleanups', 'ParenExpr') and len(e.get('c', [])) == 1:
            e = e['c'][0]
        if e['k'] in ('CallExpr', 'CXXMemberCallExpr', 'CXXOperatorCallExpr'):
            self.do_call(e)
        elif e['k'] in ('BinaryOperator', 'CompoundAssignOperator') and e['op'] not in ('==', '!=', '<=', '>=') and e['op'].endswith('='):
            self.assign(e)
        else:
            self.eval(e)

    def declare(self, d):
        self._declare(d)
        if (d.get('staticLocal') or d.get('tls')) and hasattr(self.hooks, 'static_store'):
            self.hooks.static_store(self, d, self.frame.vars.get(d['id']))

    def _declare(self, d):
        cell = Cell(UNDEF, None, 0, d.get('name'))
        self.frame.vars[d['id']] = cell
        t = d.get('t', '')
        init = d.get('init')
        if d.get('staticLocal') or d.get('tls'):
            if hasattr(self.hooks, 'static_local'):
                r = self.hooks.static_local(self, d)
                if r is not NotImplemented:
                    self.frame.vars[d['id']] = r
                    return
        if d.get('ref'):
            if init is None:
                raise Unsupported('reference without initialiser at %s' % self.loc(d))
            self.frame.vars[d['id']] = self.lval(init)
            return
        if 'dims' in d:
            dims = []
            for de in d['dims']:
                v = self.eval(de)
                dims.append(v)
            cell.value = self.make_array(d.get('name'), dims)
            if init is not None and init['k'] == 'InitListExpr' and isinstance(cell.value, ArrayView):
                # rows of a two-dimensional array: each a nested list, missing trailing elements value-initialised
                av = cell.value
                et = base_type(t)
                while et.endswith(']'):
                    et = et[:et.rindex('[')].strip()
                width = _prod(av.dims[1:])
                if is_int_type(et) or is_float_type(et):
                    for i in range(av.region.size):
                        av.region.cell(i).value = self.zero_of(et)
                for r, rowinit in enumerate(init.get('c', [])):
                    if rowinit['k'] == 'InitListExpr':
                        for j, k_ in enumerate(rowinit.get('c', [])):
                            if k_['k'] == 'InitListExpr':
                                raise Unsupported('initialiser of an array of more than two dimensions at %s' % self.loc(d))
                            av.region.cell(r * width + j).value = self.eval(k_)
                    else:
                        av.region.cell(r).value = self.eval(rowinit)  # brace elision: a flat list
                return
            if init is not None and init['k'] == 'InitListExpr':
                vals = [self.eval(c) for c in init.get('c', [])]
                for i, v in enumerate(vals):
                    cell.value.cell(i).value = v
                # elements without an initialiser are value-initialised (arithmetic element types)
                et = base_type(t)
                while et.endswith(']'):
                    et = et[:et.rindex('[')].strip()
                arr = cell.value
                if isinstance(arr, Region) and isinstance(arr.size, int) and (is_int_type(et) or is_float_type(et)):
                    for i in range(len(vals), arr.size):
                        arr.cell(i).value = self.zero_of(et)
            elif init is not None and init['k'] == 'CXXConstructExpr':
                # array of class type: one default construction per element
                arr = cell.value
                reg = arr.region if isinstance(arr, ArrayView) else arr
                if not isinstance(reg.size, int):
                    raise Unsupported('array of objects with symbolic extent at %s' % self.loc(d))
                for i in range(reg.size):
                    c = reg.cell(i)
                    c.name = '%s[%d]' % (d.get('name'), i)
                    self.construct_into(c, init)
                    if isinstance(c.value, Obj):
                        c.value.tag = c.name
                    if not (d.get('staticLocal') or d.get('tls')):
                        self.track(c, 'local')
            elif init is None and (d.get('staticLocal') or d.get('tls')):
                # static storage duration: zero-initialised before anything else happens
                et = base_type(t)
                while et.endswith(']'):
                    et = et[:et.rindex('[')].strip()
                arr = cell.value
                reg = arr.region if isinstance(arr, ArrayView) else arr
                if isinstance(reg, Region) and isinstance(reg.size, int) and (is_int_type(et) or is_float_type(et) or et.endswith('*')):
                    for i in range(reg.size):
                        reg.cell(i).value = self.zero_of(et)
            return
        if init is None:
            bt = base_type(t)
            if not (is_int_type(bt) or is_float_type(bt) or bt.endswith('*')):
                cell.value = Obj(bt, None, d.get('name'))
            elif d.get('staticLocal') or d.get('tls'):
                cell.value = self.zero_of(bt)
            return
        if init['k'] in ('CXXConstructExpr', 'CXXTemporaryObjectExpr'):
            self.construct_into(cell, init)
            if isinstance(cell.value, Obj):
                cell.value.tag = d.get('name')
            self.track(cell, 'local')
            return
        inner = init
        while inner['k'] in ('ExprWithCleanups', 'CXXBindTemporaryExpr') and len(inner.get('c', [])) == 1:
            inner = inner['c'][0]
        if inner['k'] in ('CXXConstructExpr', 'CXXTemporaryObjectExpr'):
            self.construct_into(cell, inner)
            if isinstance(cell.value, Obj):
                cell.value.tag = d.get('name')
            self.track(cell, 'local')
            return
        v = self.eval(init)
        if isinstance(v, Cell):
            v = v.value
        if isinstance(v, Obj):
            v = self.copy_value(v)
            v.tag = d.get('name')
        if is_int_type(t) and isinstance(v, int):
            v = wrap_int(v, t)
        self.write(cell, v, d)
        if isinstance(v, Obj) and not (d.get('staticLocal') or d.get('tls')):
            self.track(cell, 'local')  # an aggregate-initialised local of a class with a destructor (a scope guard)

    def make_array(self, name, dims):
        if len(dims) == 1:
            return Region(name, dims[0], None, 'stack')
        for x in dims:
            if not isinstance(x, int):
                raise Unsupported('multi-dimensional array with symbolic extent')
        return ArrayView(Region(name, _prod(dims), None, 'stack'), 0, list(dims))

    def exec_if(self, n):
        if n.get('init'):
            self.exec(n['init'])
        c = self.truth(self.eval(n['cond']), n)
        if not isinstance(c, Cond):
            if c:
                self.exec(n['then'])
            elif n.get('else'):
                self.exec(n['else'])
            return
        self.symbolic_if(n, c)

    def symbolic_if(self, n, c):
        """interpret both arms from the same store and merge written cells into ITE values"""
        outer = self.journal

        def run(arm, assumption):
            self.journal = []
            thrown = None
            mark = len(self.assumptions)
            self.assumptions.append(assumption)
            try:
                if arm is not None:
                    self.exec(arm)
            except Thrown as t:
                thrown = t
            except _Return as r:
                thrown = r  # the arm's own writes (if any) take effect under the branch condition only
            finally:
                # the arm's condition, and whatever was assumed further inside the arm, holds in the arm only
                del self.assumptions[mark:]
            j = self.journal
            writes = {}
            for cell, old in j:
                if id(cell) not in writes:
                    writes[id(cell)] = (cell, old)
            final = {cid: (cell, cell.value) for cid, (cell, old) in writes.items()}
            # roll back
            for cell, old in reversed(j):
                cell.value = old
            return writes, final, thrown

        try:
            w1, f1, t1 = run(n['then'], c)
            w2, f2, t2 = run(n.get('else'), c.negate())
        finally:
            self.journal = outer
        if t1 is not None and t2 is not None:
            if isinstance(t1, _Return) and isinstance(t2, _Return):
                for cid in set(f1) | set(f2):
                    cell = (f1.get(cid) or f2.get(cid))[0]
                    a = f1[cid][1] if cid in f1 else cell.value
                    b = f2[cid][1] if cid in f2 else cell.value
                    self.write(cell, a if same_value(a, b) else ITE(c, a, b), n)
                raise _Return(t1.value if same_value(t1.value, t2.value) else ITE(c, t1.value, t2.value))
            if isinstance(t1, _Return) or isinstance(t2, _Return):
                raise Unsupported('return and throw in the arms of a data-dependent branch at %s' % self.loc(n))
            raise t1
        for tt, cc, ff in ((t1, c, f1), (t2, c.negate(), f2)):
            if isinstance(tt, _Return):
                self.frame.pending_returns.append((cc, tt.value))
                self.post_returns.append([self.frame, cc, {}, dict(ff)])
        if t1 is not None or t2 is not None:
            # one arm diverges: continue with the other under the assumption
            keep, assumption = (f2, c.negate()) if t1 is not None else (f1, c)
            self.hooks.assume(self, assumption, n)
            self.assumptions.append(assumption)  # stays for the rest of the function (popped by caller scope)
            for cid, (cell, v) in keep.items():
                self.write(cell, v, n)
            return
        for cid in set(f1) | set(f2):
            cell = (f1.get(cid) or f2.get(cid))[0]
            a = f1[cid][1] if cid in f1 else cell.value
            b = f2[cid][1] if cid in f2 else cell.value
            if same_value(a, b):
                nv = a
            else:
                nv = ITE(c, a, b)
            self.write(cell, nv, n)

    def exec_for(self, n):
        if n.get('init'):
            self.exec(n['init'])
        it = 0
        while True:
            if n.get('cond') is not None:
                c = self.truth(self.eval(n['cond']), n)
                if isinstance(c, Cond):
                    if type(self.hooks).symbolic_loop is not Hooks.symbolic_loop:
                        self.hooks.symbolic_loop(self, n, c)
                        return
                    # a data-dependent exit (`k<n && !found`): the remaining iterations are `if(cond){ body; inc; loop }`,
                    # unrolled until the condition becomes decidable (bounded)
                    depth = n.get('_depth', 0)
                    if depth > 16:
                        raise Unsupported('loop with a data-dependent condition does not settle within 16 iterations at %s' % self.loc(n))
                    tail = {'k': 'ForStmt', 'cond': n['cond'], 'body': n['body'], 'inc': n.get('inc'), 'l': n.get('l'), '_depth': depth + 1}
                    body = [n['body']] + ([n['inc']] if n.get('inc') is not None else []) + [tail]
                    self.exec_if({'k': 'IfStmt', 'cond': n['cond'], 'then': {'k': 'CompoundStmt', 'c': body, 'l': n.get('l')}, 'l': n.get('l')})
                    return
                if not c:
                    break
            try:
                self.exec(n['body'])
            except _Break:
                break
            except _Continue:
                pass
            if n.get('inc') is not None:
                self.eval(n['inc'])
            it += 1
            if it > self.MAX_ITER:
                raise Unsupported('iteration bound exceeded at %s' % self.loc(n))

    def exec_range_for(self, n):
        if hasattr(self.hooks, 'range_for'):
            return self.hooks.range_for(self, n)
        rng = n['range']
        v = self.lval(rng) if (rng.get('lv') or rng.get('xv')) else self.eval(rng)
        if isinstance(v, Cell):
            v = v.value
        if isinstance(v, Ref):
            v = v.cell.value
        cells = None
        if isinstance(v, Region):
            if not isinstance(v.size, int):
                raise Unsupported('range-for over an array of unknown extent at %s' % self.loc(n))
            cells = [v.cell(k) for k in range(v.size)]
        elif isinstance(v, ArrayView):
            if len(v.dims) != 1:
                w = _prod(v.dims[1:])
                cells = [Cell(ArrayView(v.region, v.off + k * w, list(v.dims[1:])), None, 0, 'row') for k in range(v.dims[0])]
            else:
                cells = [v.region.cell(v.off + k) for k in range(v.dims[0])]
        elif isinstance(v, Obj) and 'data' in v.fields and 'n' in v.fields:  # abstract std::vector
            reg, cnt = v.fields['data'].value, v.fields['n'].value
            if not isinstance(cnt, int):
                raise Unsupported('range-for over a vector of symbolic length at %s' % self.loc(n))
            cells = [reg.cell(k) for k in range(cnt)]
        if cells is None:
            raise Unsupported('range-for over %r at %s' % (v, self.loc(n)))
        var = n['var']
        for c in cells:
            if var.get('ref'):
                self.frame.vars[var['id']] = c
            else:
                val = self.read(c, n)
                self.frame.vars[var['id']] = Cell(self.copy_value(val) if isinstance(val, Obj) else val, None, 0, var.get('name'))
            try:
                self.exec(n['body'])
            except _Break:
                break
            except _Continue:
                pass

    def exec_switch(self, n):
        v = self.eval(n['cond'])
        if isinstance(v, Cell):
            v = v.value
        if not isinstance(v, int):
            raise Unsupported('switch on symbolic value at %s' % self.loc(n))
        body = n['body']
        stmts = body.get('c', []) if body['k'] == 'CompoundStmt' else [body]
        # find the entry label (labels may be nested: case 1: case 2: stmt)
        start = None
        default = None
        for i, s in enumerate(stmts):
            cur = s
            depth = 0
            while cur is not None and cur['k'] in ('CaseStmt', 'DefaultStmt'):
                if cur['k'] == 'CaseStmt':
                    lv = cur['lhs']
                    cvv = lv.get('cv', lv.get('v'))
                    if cvv is None:
                        cvv = self.eval(lv)
                    if cvv == v and start is None:
                        start = (i, depth)
                else:
                    if default is None:
                        default = (i, depth)
                cur = cur['sub']
                depth += 1
        entry = start or default
        if entry is None:
            return
        i0, depth = entry
        try:
            first = stmts[i0]
            for _ in range(depth + 1):
                first = first['sub']
            self.exec(first)
            for s in stmts[i0 + 1:]:
                self.exec(s)
        except _Break:
            pass


def _walk_strings(n):
    from astdb import walk
    for x in walk(n):
        if x.get('k') == 'StringLiteral' and 'v' in x:
            yield x['v']
