"""Engine F — resource pairing for GSL objects (rule F.pair) and RAII holder classes (rule F.holder).

Intraprocedural, on the structured AST: a raw resource obtained from an allocator call and bound to a
local variable must, on every path to every exit of the function (return, end of body, throw
statement, call to a repository function that can throw), have been released by the matching free
function or handed over to an owning object (std::unique_ptr constructor, return of the raw pointer).
Members of holder classes are owned by the object: the class must release them in its destructor and
before re-allocating."""
from astdb import walk, strip, sig

ALLOC_FREE = {
    'gsl_matrix_alloc': 'gsl_matrix_free', 'gsl_matrix_calloc': 'gsl_matrix_free',
    'gsl_matrix_complex_alloc': 'gsl_matrix_complex_free', 'gsl_matrix_complex_calloc': 'gsl_matrix_complex_free',
    'gsl_vector_alloc': 'gsl_vector_free', 'gsl_vector_calloc': 'gsl_vector_free',
    'gsl_vector_complex_alloc': 'gsl_vector_complex_free',
    'gsl_eigen_hermv_alloc': 'gsl_eigen_hermv_free', 'gsl_eigen_herm_alloc': 'gsl_eigen_herm_free',
    'gsl_permutation_alloc': 'gsl_permutation_free', 'gsl_rng_alloc': 'gsl_rng_free',
    'gsl_odeiv2_driver_alloc_y_new': 'gsl_odeiv2_driver_free', 'gsl_odeiv2_driver_alloc_standard_new': 'gsl_odeiv2_driver_free',
}
FREES = set(ALLOC_FREE.values())

# calls that cannot throw in their calling context although the callee contains a throw statement:
# one named (caller, callee) pair per line, with the reason (confirmed by reading and by the C06 interpretation).
CANNOT_THROW = {
    ('squids::SU_vector::GetGSLMatrix', 'squids::SU_vector::GetGSLMatrix'):
        'the one-argument overload throws only in the switch default (dimension outside 2..6), which an initialised vector cannot have (C14 constructor guards); the caller has just tested isinit||isinit_d',
    ('squids::Const::GetTransformationMatrix', 'squids::Const::GetMixingAngle'):
        'called with i<j<dim<=MAX established by the loop bounds and the entry guard (interpreted for all dims in C06)',
    ('squids::Const::GetTransformationMatrix', 'squids::Const::GetPhase'):
        'called with i<j<dim<=MAX established by the loop bounds and the entry guard (interpreted for all dims in C06)',
}


def alloc_in(expr):
    """the allocator call inside expr (through casts), or None"""
    e = strip(expr)
    if e is not None and e.get('k') == 'CallExpr' and e.get('callee') in ALLOC_FREE:
        return e
    return None


def var_of(expr):
    e = strip(expr)
    if e is None:
        return None
    if e['k'] == 'DeclRefExpr':
        return ('var', e['id'], e.get('name'))
    if e['k'] == 'MemberExpr':
        base = strip(e['c'][0]) if e.get('c') else None
        if base is not None and base['k'] == 'CXXThisExpr':
            return ('member', e['id'], e.get('member'))
    return None


def compute_may_throw(db, unit_names):
    """names of repository functions that contain a throw statement, transitively through repository callees"""
    direct = {}
    calls = {}
    for un in unit_names:
        for f in db.unit(un).functions:
            name = (f['name'], ','.join(p['t'] for p in f['params']))
            has = False
            cs = set()
            for n in walk(f.get('body')):
                k = n.get('k')
                if k == 'CXXThrowExpr':
                    has = True
                elif k in ('CallExpr', 'CXXMemberCallExpr', 'CXXOperatorCallExpr', 'CXXConstructExpr', 'CXXTemporaryObjectExpr') and n.get('callee'):
                    cs.add((n['callee'], n.get('csig', '')))
            for ini in f.get('inits', []) or []:
                for n in walk(ini.get('init')):
                    if n.get('k') == 'CXXThrowExpr':
                        has = True
                    elif n.get('callee'):
                        cs.add((n['callee'], n.get('csig', '')))
            direct[name] = direct.get(name, False) or has
            calls.setdefault(name, set()).update(cs)
    may = set(n for n, h in direct.items() if h)
    changed = True
    while changed:
        changed = False
        for n, cs in calls.items():
            if n not in may and cs & may:
                may.add(n)
                changed = True
    return may


class Pairing:
    def __init__(self, unit, fdecl, may_throw):
        self.unit = unit
        self.f = fdecl
        self.may = may_throw
        self.findings = []
        self.resources = 0
        self.scoped = 0  # resources allocated directly into a smart pointer (nothing to pair)
        self.exits = 0

    def run(self):
        open_ = {}
        open_ = self.stmt(self.f.get('body'), open_)
        self.exit('end of function', self.f, open_)
        return self.findings

    def exit(self, what, node, open_):
        self.exits += 1
        for key, (name, site, callee) in open_.items():
            self.findings.append((name, callee, site, what, self.unit.loc(node)))

    def stmt(self, n, open_):
        if n is None:
            return open_
        k = n['k']
        if k == 'CompoundStmt':
            for c in n.get('c', []):
                open_ = self.stmt(c, open_)
            return open_
        if k == 'IfStmt':
            open_ = self.expr(n.get('cond'), open_)
            a = self.stmt(n.get('then'), dict(open_))
            b = self.stmt(n.get('else'), dict(open_)) if n.get('else') else dict(open_)
            a.update(b)
            return a
        if k in ('ForStmt', 'WhileStmt', 'DoStmt', 'CXXForRangeStmt'):
            for key in ('init', 'cond', 'inc'):
                if isinstance(n.get(key), dict):
                    open_ = self.stmt(n[key], open_) if n[key]['k'].endswith('Stmt') else self.expr(n[key], open_)
            body = self.stmt(n.get('body'), dict(open_))
            open_.update(body)
            return open_
        if k == 'SwitchStmt':
            open_ = self.expr(n.get('cond'), open_)
            return self.stmt(n.get('body'), open_)
        if k in ('CaseStmt', 'DefaultStmt'):
            return self.stmt(n.get('sub'), open_)
        if k == 'DeclStmt':
            for d in n.get('decls', []):
                if d.get('k') != 'VarDecl':
                    continue
                init = d.get('init')
                if init is None:
                    continue
                a = alloc_in(init)
                if a is not None and '*' in d.get('t', ''):
                    self.resources += 1
                    open_ = dict(open_)
                    open_[d['id']] = (d.get('name'), self.unit.loc(d), a['callee'])
                else:
                    open_ = self.expr(init, open_)
            return open_
        if k == 'ReturnStmt':
            c = (n.get('c') or [None])[0]
            open_ = self.expr(c, open_)
            # returning the raw pointer hands it to the caller
            v = var_of(c) if c is not None else None
            if v and v[1] in open_:
                open_ = dict(open_)
                del open_[v[1]]
            self.exit('return', n, open_)
            return {}
        if k in ('BreakStmt', 'ContinueStmt', 'NullStmt'):
            return open_
        return self.expr(n, open_)

    def expr(self, n, open_):
        """process an expression in evaluation order approximated by a post-order walk"""
        if n is None:
            return open_
        nodes = list(walk(n))
        # handle assignment of an allocation to a variable
        for x in nodes:
            k = x.get('k')
            if k == 'BinaryOperator' and x.get('op') == '=':
                a = alloc_in(x['c'][1])
                v = var_of(x['c'][0])
                if a is not None and v is not None and v[0] == 'var':
                    self.resources += 1
                    open_ = dict(open_)
                    open_[v[1]] = (v[2], self.unit.loc(x), a['callee'])
        for x in nodes:
            k = x.get('k')
            if k == 'CallExpr' and x.get('callee') in FREES:
                v = var_of(x['args'][0]) if x.get('args') else None
                if v and v[1] in open_:
                    want = ALLOC_FREE.get(open_[v[1]][2])
                    if want != x['callee']:
                        self.findings.append((open_[v[1]][0], open_[v[1]][2], open_[v[1]][1], 'released with %s instead of %s' % (x['callee'], want), self.unit.loc(x)))
                    open_ = dict(open_)
                    del open_[v[1]]
            elif k in ('CXXConstructExpr', 'CXXTemporaryObjectExpr') and x.get('record') == 'std::unique_ptr' and x.get('args'):
                v = var_of(x['args'][0])
                if v and v[1] in open_:
                    open_ = dict(open_)
                    del open_[v[1]]
                elif alloc_in(x['args'][0]) is not None:
                    self.scoped += 1  # allocated straight into its owner
            elif k == 'CXXMemberCallExpr' and (x.get('callee') or '').startswith('std::unique_ptr<') and (x.get('callee') or '').endswith('::reset') and x.get('args'):
                # owner.reset(p): the smart pointer takes the resource over
                v = var_of(x['args'][0])
                if v and v[1] in open_:
                    open_ = dict(open_)
                    del open_[v[1]]
                elif alloc_in(x['args'][0]) is not None:
                    self.scoped += 1
            elif k == 'CXXThrowExpr':
                self.exit('throw', x, open_)
            elif k in ('CallExpr', 'CXXMemberCallExpr', 'CXXOperatorCallExpr', 'CXXConstructExpr', 'CXXTemporaryObjectExpr'):
                cal = x.get('callee')
                if (cal, x.get('csig', '')) in self.may and (self.f['qname'], cal) not in CANNOT_THROW and (self.f['name'], cal) not in CANNOT_THROW:
                    if open_:
                        self.exit('call to %s, which can throw' % cal, x, open_)
        return open_


def analyse_units(db, unit_names):
    """returns (findings, stats); finding = (function sig, variable, allocator, alloc site, exit kind, exit loc)"""
    may = compute_may_throw(db, unit_names)
    out = []
    stats = {'functions': 0, 'resources': 0, 'scoped': 0, 'exits': 0, 'names': []}
    seen = set()
    for un in unit_names:
        unit = db.unit(un)
        for f in unit.functions:
            key = sig(f)
            if key in seen or f.get('body') is None:
                continue
            has_alloc = any(n.get('k') == 'CallExpr' and n.get('callee') in ALLOC_FREE for n in walk(f['body']))
            if not has_alloc:
                continue
            seen.add(key)
            p = Pairing(unit, f, may)
            fs = p.run()
            stats['functions'] += 1
            stats['resources'] += p.resources
            stats['scoped'] += p.scoped
            stats['exits'] += p.exits
            stats['names'].append(key)
            for (name, callee, site, what, where) in fs:
                out.append((key, name, callee, site, what, where))
    return out, stats


def analyse_holders(db, unit_names):
    """RAII classes with pointer members assigned from allocators: destructor releases each such member, and every
    re-assignment is preceded (in the same function) by a release of the old value.  returns (findings, n_classes)"""
    out = []
    classes = {}
    for un in unit_names:
        unit = db.unit(un)
        for f in unit.functions:
            rec = f.get('record')
            if not rec or f.get('body') is None:
                continue
            for n in walk(f['body']):
                if n.get('k') == 'BinaryOperator' and n.get('op') == '=':
                    a = alloc_in(n['c'][1])
                    v = var_of(n['c'][0])
                    if a is not None and v is not None and v[0] == 'member':
                        classes.setdefault(rec, {}).setdefault(v[2], []).append((unit, f, n, a['callee']))
            for ini in f.get('inits', []) or []:
                a = alloc_in(ini.get('init')) if ini.get('init') else None
                if a is not None and 'member' in ini:
                    classes.setdefault(rec, {}).setdefault(ini['member'], []).append((unit, f, ini['init'], a['callee']))
    # member functions per record, and what each releases (directly or through member helpers it calls on `this`)
    methods = {}
    for un in unit_names:
        for f in db.unit(un).functions:
            if f.get('record') and f.get('body') is not None:
                methods.setdefault(f['record'], {}).setdefault(f['name'], f)

    def direct_frees(f):
        got = set()
        for n in walk(f['body']):
            if n.get('k') == 'CallExpr' and n.get('callee') in ALLOC_FREE.values():
                v = var_of(n['args'][0]) if n.get('args') else None
                if v and v[0] == 'member':
                    got.add((v[2], n['callee']))
        return got

    def helper_of(rec, n):
        """n is a call of another member function of the same record on this object"""
        if n.get('k') == 'CXXMemberCallExpr':
            g = methods.get(rec, {}).get(n.get('callee'))
            if g is not None:
                me = n.get('fn') or {}
                base = me.get('c', [None])[0] if isinstance(me, dict) else None
                while base is not None and base.get('k') in ('ImplicitCastExpr', 'ParenExpr'):
                    base = base['c'][0]
                if base is None or base.get('k') == 'CXXThisExpr':
                    return g
        return None

    def frees_of(rec, f, seen=None):
        seen = seen or set()
        if f['name'] in seen:
            return set()
        seen.add(f['name'])
        got = direct_frees(f)
        for n in walk(f['body']):
            g = helper_of(rec, n)
            if g is not None:
                got |= frees_of(rec, g, seen)
        return got

    for rec, members in classes.items():
        # find destructor
        dtor = None
        for un in unit_names:
            for f in db.unit(un).functions:
                if f.get('record') == rec and f.get('dtor'):
                    dtor = (db.unit(un), f)
        dtor_frees = frees_of(rec, dtor[1]) if dtor is not None else set()
        for m, sites in members.items():
            want = ALLOC_FREE[sites[0][3]]
            if (m, want) not in dtor_frees:
                u, f, node, cal = sites[0]
                out.append((rec, m, cal, u.loc(node), 'the destructor does not release this member with %s' % want, u.loc(dtor[1]) if dtor else u.loc(f)))
            for (u, f, node, cal) in sites:
                if f.get('ctor'):
                    continue
                # a release of the same member must occur earlier in the function body (directly or in a member helper)
                released = False
                for n in walk(f['body']):
                    if n is node:
                        break
                    if n.get('k') == 'CallExpr' and n.get('callee') == want:
                        v = var_of(n['args'][0])
                        if v and v[2] == m:
                            released = True
                    g = helper_of(rec, n)
                    if g is not None and (m, want) in frees_of(rec, g):
                        released = True
                if not released:
                    out.append((rec, m, cal, u.loc(node), 're-allocation in %s without releasing the previous object' % f['name'], u.loc(node)))
    return out, len(classes)
