"""C13 — factory operators are exactly the documented projectors, identity and generators.
Engine A: each factory body is abstractly interpreted for every d in 2..6 and every admissible
index (a finite parameter domain); the resulting component vector is mapped through the basis
extracted from the conversion table (C01) and compared with the documented 0/1 diagonal matrix."""
from astdb import AnalysisBroken
from interp import Interp, Obj, Cell, Thrown
from kernels import KernelHooks
from poly import Poly, CPoly
import basis

DIMS = basis.DIMS

FACTORIES = {
    # name -> (index range for dimension d, documented set of diagonal positions carrying a 1)
    'Projector': (lambda d: range(0, d), lambda d, i: {i}),
    # every index the factory admits (0 <= k < d), including the edge k = 0 (no ones at all)
    'PosProjector': (lambda d: range(0, d), lambda d, k: set(range(0, k))),
    'NegProjector': (lambda d: range(0, d), lambda d, k: set(range(d - k, d))),
}


class FactoryHooks(KernelHooks):
    """storage obtained by the factory (from new[] or from the block cache, which hands back blocks released earlier)
    holds arbitrary previous contents: named symbols OLD<k>, so that a component that is accumulated onto, or never
    written, shows up in the result"""

    def _old_contents(self):
        for reg in self.heap:
            if reg.make is None and not reg.cells:
                reg.make = lambda k, nm=reg.name: Poly.var('OLD_%s_%d' % (nm.replace('#', ''), k))

    def on_new(self, it, node, count, elem_type):
        p = KernelHooks.on_new(self, it, node, count, elem_type)
        self._old_contents()
        return p

    def override_call(self, it, fdecl, node, args, this_cell):
        r = KernelHooks.override_call(self, it, fdecl, node, args, this_cell)
        if fdecl['name'] == 'squids::SU_vector::alloc_aligned':
            self._old_contents()
        return r


def run_factory(db, name, args):
    unit = db.unit('SUNalg')
    f = db.one('SUNalg', 'squids::SU_vector::' + name, len(args))
    it = Interp(unit, FactoryHooks())
    r = it.call(f, None, list(args))
    return f, r


def vector_matrix(db, d, obj):
    if not isinstance(obj, Obj) or obj.fields.get('dim') is None:
        raise AnalysisBroken('factory did not return an SU_vector')
    if obj.fields['dim'].value != d or obj.fields['size'].value != d * d:
        return None
    p = obj.fields['components'].value
    comps = []
    for k in range(d * d):
        v = p.region.cell(p.off + k).value
        if not isinstance(v, Poly):
            return None
        comps.append(v)
    return basis.matrix_from(db, d, comps), comps


def stale_note(res):
    """mention components that still carry the previous contents of the storage block"""
    if not res:
        return ''
    old = sorted(set(v for p in res[1] if isinstance(p, Poly) for v in p.vars() if v.startswith('OLD_')))
    return ('; components depend on what the storage block held before (%s%s): they are accumulated onto or never written'
            % (', '.join(old[:3]), ', ...' if len(old) > 3 else '')) if old else ''


def diag_str(M, d):
    out = []
    for i in range(d):
        z = M[i][i]
        out.append(str(round(float(z.re.const_value()), 6)) if z.re.is_const() else '?')
    return 'diag(' + ','.join(out) + ')'


def compare_diag(M, d, ones):
    for r in range(d):
        for c in range(d):
            want = CPoly(1 if (r == c and r in ones) else 0, 0)
            if not M[r][c].equals(want):
                return False
    return True


def run(db, rep, tier):
    unit = db.unit('SUNalg')
    rep.trusted += ['clang 14 AST of /repo sources', 'sqdump extractor + abstract interpreter', 'basis extracted from GetGSLMatrix (C01)',
                    'summary of make_aligned/alloc_aligned as a fresh block of d*d doubles (ownership is analysed under C08/C15)']
    n = 0
    for name, (rng, ones_of) in FACTORIES.items():
        for d in DIMS:
            for idx in rng(d):
                n += 1
                site = '%s/%d/%d' % (name, d, idx)
                try:
                    f, r = run_factory(db, name, (d, idx))
                except Thrown as t:
                    rep.fail('A.fact.set', site, unit.loc(t.node), 'the operator for admissible index %d' % idx, 'throw: %s' % t.what,
                             'squids::SU_vector::' + name)
                    continue
                rep.fn(f['name'])
                res = vector_matrix(db, d, r)
                ones = ones_of(d, idx)
                if res is not None and compare_diag(res[0], d, ones):
                    rep.ok('A.fact.set')
                    if d == 4:
                        rep.sample('A.fact.set', '%s(%d,%d) = %s' % (name, d, idx, diag_str(res[0], d)))
                else:
                    want = 'diag(' + ','.join('1' if i in ones else '0' for i in range(d)) + ')'
                    rep.fail('A.fact.set', site, unit.loc(f), want, (diag_str(res[0], d) if res else 'wrong shape') + stale_note(res), f['name'])
    for d in DIMS:
        n += 1
        try:
            f, r = run_factory(db, 'Identity', (d,))
        except Thrown as t:
            rep.fail('A.fact.set', 'Identity/%d' % d, unit.loc(t.node), 'identity operator', 'throw: %s' % t.what, 'squids::SU_vector::Identity')
            continue
        rep.fn(f['name'])
        res = vector_matrix(db, d, r)
        if res is not None and compare_diag(res[0], d, set(range(d))):
            rep.ok('A.fact.set')
        else:
            rep.fail('A.fact.set', 'Identity/%d' % d, unit.loc(f), 'unit matrix', (diag_str(res[0], d) if res else 'wrong shape') + stale_note(res), f['name'])
    rep.floor('A.fact.set', n, 20 + 2 * 20 + 5)
    m = 0
    for d in DIMS:
        for k in range(d * d):
            m += 1
            try:
                f, r = run_factory(db, 'Generator', (d, k))
            except Thrown as t:
                rep.fail('A.fact.gen', 'Generator/%d/%d' % (d, k), unit.loc(t.node), 'unit vector %d' % k, 'throw: %s' % t.what, 'squids::SU_vector::Generator')
                continue
            rep.fn(f['name'])
            res = vector_matrix(db, d, r)
            ok = res is not None and all(res[1][j].equals(Poly.const(1 if j == k else 0)) for j in range(d * d))
            if ok:
                rep.ok('A.fact.gen')
            else:
                rep.fail('A.fact.gen', 'Generator/%d/%d' % (d, k), unit.loc(f), 'unit vector along component %d' % k,
                         ('other' if res else 'wrong shape') + stale_note(res), f['name'])
    rep.floor('A.fact.gen', m, 90)
