"""C13 — factory operators are exactly the documented projectors, identity and generators.
Engine A: each factory body is abstractly interpreted for every d in 2..6 and every admissible
index (a finite parameter domain); the resulting component vector is mapped through the basis
extracted from the conversion table (C01) and compared with the documented 0/1 diagonal matrix."""
from astdb import AnalysisBroken
from interp import Interp, Obj, Cell, Thrown, DivisionByZero
from kernels import KernelHooks
from gslmodel import GslHooks
from poly import Poly, CPoly
import basis

DIMS = basis.DIMS

FACTORIES = {
    # name -> (index range for dimension d, documented set of diagonal positions carrying a 1)
    'Projector': (lambda d: range(0, d), lambda d, i: {i}),
    # every index the factory admits (0 <= k < d), including the edge k = 0 (no ones at all)
    'PosProjector': (lambda d: range(0, d), lambda d, k: set(range(0, k))),
    'NegProjector': (lambda d: range(0, d), lambda d, k: set(range(d - k, d))),
}


class FactoryHooks(GslHooks):
    """storage obtained by the factory (from new[] or from the block cache, which hands back blocks released earlier)
    holds arbitrary previous contents: named symbols OLD<k>, so that a component that is accumulated onto, or never
    written, shows up in the result"""

    def _old_contents(self):
        for reg in self.heap:
            if reg.make is None and not reg.cells:
                reg.make = lambda k, nm=reg.name: Poly.var('OLD_%s_%d' % (nm.replace('#', ''), k))

    def on_new(self, it, node, count, elem_type):
        p = GslHooks.on_new(self, it, node, count, elem_type)
        self._old_contents()
        return p

    def override_call(self, it, fdecl, node, args, this_cell):
        r = GslHooks.override_call(self, it, fdecl, node, args, this_cell)
        if fdecl['name'] == 'squids::SU_vector::alloc_aligned':
            self._old_contents()
        return r


HIST = '/after calls with another dimension and a caller overwriting an earlier result'


def run_factory(db, name, args, history=False):
    """history=False: a first call.  history=True: the same thread has used the factory before - with another dimension
    (largest admissible index) and with these very arguments, and the caller has overwritten the vector it got then - so
    that anything the factory keeps between calls (function-local statics, memoised results) takes part"""
    unit = db.unit('SUNalg')
    f = db.one('SUNalg', 'squids::SU_vector::' + name, len(args))
    hooks = FactoryHooks()
    if not history:
        return f, Interp(unit, hooks).call(f, None, list(args))
    hooks.statics = {}
    d = args[0]
    dp = d + 1 if d < DIMS[-1] else d - 1
    prime = (dp,) if len(args) == 1 else ((dp, dp * dp - 1) if name == 'Generator' else (dp, dp - 1))
    Interp(unit, hooks).call(f, None, list(prime))
    r1 = Interp(unit, hooks).call(f, None, list(args))
    if isinstance(r1, Obj) and r1.fields.get('components') is not None and r1.fields['size'].value == d * d:
        p = r1.fields['components'].value
        for k in range(d * d):
            p.region.cell(p.off + k).value = Poly.var('SCRIBBLE%d' % k)  # the caller modifies its own vector in place
    return f, Interp(unit, hooks).call(f, None, list(args))


def vector_matrix(db, d, obj):
    if not isinstance(obj, Obj) or obj.fields.get('dim') is None:
        raise AnalysisBroken('factory did not return an SU_vector')
    if obj.fields['dim'].value != d or obj.fields['size'].value != d * d:
        return None
    p = obj.fields['components'].value
    comps = []
    for k in range(d * d):
        v = p.region.cell(p.off + k).value
        if not isinstance(v, Poly):
            return None
        comps.append(v)
    return basis.matrix_from(db, d, comps), comps


def stale_note(res):
    """mention components that still carry the previous contents of the storage block"""
    if not res:
        return ''
    scr = sorted(set(v for p in res[1] if isinstance(p, Poly) for v in p.vars() if v.startswith('SCRIBBLE')))
    if scr:
        return '; the result shows what a caller wrote into the vector it obtained from an earlier call (%s): the factory hands out shared storage' % ', '.join(scr[:3])
    old = sorted(set(v for p in res[1] if isinstance(p, Poly) for v in p.vars() if v.startswith('OLD_')))
    return ('; components depend on what the storage block held before (%s%s): they are accumulated onto or never written'
            % (', '.join(old[:3]), ', ...' if len(old) > 3 else '')) if old else ''


def diag_str(M, d):
    out = []
    for i in range(d):
        z = M[i][i]
        out.append(str(round(float(z.re.const_value()), 6)) if z.re.is_const() else '?')
    return 'diag(' + ','.join(out) + ')'


def offdiag_note(res, d):
    if not res:
        return ''
    M = res[0]
    for r in range(d):
        for c in range(d):
            if r != c and not M[r][c].equals(CPoly(0, 0)):
                return '; entry (%d,%d) is %s instead of 0' % (r, c, M[r][c])
    return ''


def compare_diag(M, d, ones):
    for r in range(d):
        for c in range(d):
            want = CPoly(1 if (r == c and r in ones) else 0, 0)
            if not M[r][c].equals(want):
                return False
    return True


def run(db, rep, tier):
    unit = db.unit('SUNalg')
    rep.trusted += ['clang 14 AST of /repo sources', 'sqdump extractor + abstract interpreter', 'basis extracted from GetGSLMatrix (C01)',
                    'summary of make_aligned/alloc_aligned as a fresh block of d*d doubles (ownership is analysed under C08/C15)']
    n = 0
    for name, (rng, ones_of) in FACTORIES.items():
        for d in DIMS:
            for idx, hist in [(i, h) for i in rng(d) for h in (False, True)]:
                n += 1
                site = '%s/%d/%d%s' % (name, d, idx, HIST if hist else '')
                try:
                    f, r = run_factory(db, name, (d, idx), hist)
                except Thrown as t:
                    rep.fail('A.fact.set', site, unit.loc(t.node), 'the operator for admissible index %d' % idx, 'throw: %s' % t.what,
                             'squids::SU_vector::' + name)
                    continue
                except DivisionByZero as z:
                    rep.fail('A.fact.set', site, z.where or unit.loc(db.one('SUNalg', 'squids::SU_vector::' + name, 2)), 'the operator for admissible index %d' % idx,
                             'a component is computed by %s: it becomes NaN or infinite' % z, 'squids::SU_vector::' + name)
                    continue
                rep.fn(f['name'])
                res = vector_matrix(db, d, r)
                ones = ones_of(d, idx)
                if res is not None and compare_diag(res[0], d, ones):
                    rep.ok('A.fact.set')
                    if d == 4 and not hist:
                        rep.sample('A.fact.set', '%s(%d,%d) = %s' % (name, d, idx, diag_str(res[0], d)))
                else:
                    want = 'diag(' + ','.join('1' if i in ones else '0' for i in range(d)) + ')'
                    rep.fail('A.fact.set', site, unit.loc(f), want, (diag_str(res[0], d) if res else 'wrong shape') + offdiag_note(res, d) + stale_note(res), f['name'])
    for d, hist in [(d, h) for d in DIMS for h in (False, True)]:
        n += 1
        site = 'Identity/%d%s' % (d, HIST if hist else '')
        try:
            f, r = run_factory(db, 'Identity', (d,), hist)
        except Thrown as t:
            rep.fail('A.fact.set', site, unit.loc(t.node), 'identity operator', 'throw: %s' % t.what, 'squids::SU_vector::Identity')
            continue
        rep.fn(f['name'])
        res = vector_matrix(db, d, r)
        if res is not None and compare_diag(res[0], d, set(range(d))):
            rep.ok('A.fact.set')
        else:
            rep.fail('A.fact.set', site, unit.loc(f), 'unit matrix', (diag_str(res[0], d) if res else 'wrong shape') + stale_note(res), f['name'])
    rep.floor('A.fact.set', n, 20 + 2 * 20 + 5)
    m = 0
    for d in DIMS:
        for k, hist in [(k, h) for k in range(d * d) for h in (False, True)]:
            m += 1
            site = 'Generator/%d/%d%s' % (d, k, HIST if hist else '')
            try:
                f, r = run_factory(db, 'Generator', (d, k), hist)
            except Thrown as t:
                rep.fail('A.fact.gen', site, unit.loc(t.node), 'unit vector %d' % k, 'throw: %s' % t.what, 'squids::SU_vector::Generator')
                continue
            rep.fn(f['name'])
            res = vector_matrix(db, d, r)
            ok = res is not None and all(res[1][j].equals(Poly.const(1 if j == k else 0)) for j in range(d * d))
            if ok:
                rep.ok('A.fact.gen')
            else:
                rep.fail('A.fact.gen', site, unit.loc(f), 'unit vector along component %d' % k,
                         ('other' if res else 'wrong shape') + stale_note(res), f['name'])
    rep.floor('A.fact.gen', m, 90)
