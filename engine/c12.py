"""C12 — the eigen-decomposition returned for a vector is valid for every Hermitian input.
Engine G + C (structure of GetEigenSystem): on every path the eigenvalues and eigenvectors handed
back are produced by the trusted Hermitian eigensolver (gsl_eigen_hermv) applied to exactly the
matrix the vector represents (the C01 conversion), they are sorted ascending iff ordering is
requested, nothing else writes to them, and the function contains no division, root or argument
function of an input-dependent quantity outside that solver (such closed forms have vanishing
denominators on structured inputs).  The accuracy of GSL's solver itself is trusted."""
from astdb import AnalysisBroken, walk, strip
from interp import Interp, Obj, Cell, Ptr, Region, Thrown, Unsupported
from kernels import make_suv, matrix_of
from gslmodel import GslHooks, IndexViolation
from poly import Poly, CPoly
import basis

DIMS = basis.DIMS
RISKY_CALLS = ('sqrt', 'cbrt', 'pow', 'std::arg', 'std::pow', 'std::sqrt', 'log', 'std::log', 'acos', 'atan2', 'std::acos')


class EigHooks(GslHooks):
    def __init__(self):
        GslHooks.__init__(self)
        self.calls = []
        self.vectors = []
        self.vec_writes = {}
        self.nonzero = set()  # component symbols that are non-zero in the input class under analysis
        self.witness = None   # concrete values of the component symbols (a member of the class), for order comparisons
        self.witness_used = 0
        self.nsolve = 0
        self.real_tags = set()  # solver calls made with the real-symmetric routine (eigenvectors have no imaginary part)

    @staticmethod
    def family(data, V, n, real_tags=None):
        """(family, tag, permutation) if the vector holds the symbols <family><tag><pi(k)> and column k of V is column
        pi(k) of the matching eigenvector symbols; None otherwise.  family 'L' = as the solver returned them, 'LS' =
        after the trusted ascending sort"""
        import re
        perm = []
        fam = None
        for k in range(n):
            x = data.cell(k).value
            if not isinstance(x, Poly):
                return None
            q = x.clean()
            if len(q.t) != 1:
                return None
            (mono, c), = q.t.items()
            if c != 1 or len(mono) != 1 or mono[0][1] != 1:
                return None
            from poly import atom_of
            a = atom_of(mono[0][0])
            if a[0] != 'v':
                return None
            m = re.match(r'^(LS|LX\d+|L)(_\d+)?(\d+)$', a[1])
            if not m:
                return None
            f = (m.group(1), m.group(2) or '')
            if fam is None:
                fam = f
            elif fam != f:
                return None
            perm.append(int(m.group(3)))
        if fam is None:
            return None
        pre = ('V%s' if fam[0] == 'L' else 'W' + fam[0] + '%s')
        for k in range(n):
            for r in range(n):
                e = V.entries.get((r, k))
                if fam[0] == 'L':
                    want = CPoly(Poly.var('VR%s_%d_%d' % (fam[1], r, perm[k])), Poly.var('VI%s_%d_%d' % (fam[1], r, perm[k])))
                else:
                    want = CPoly(Poly.var('W%sR%s_%d_%d' % (fam[0], fam[1], r, perm[k])), Poly.var('W%sI%s_%d_%d' % (fam[0], fam[1], r, perm[k])))
                if e is not None and not e.equals(want) and real_tags and fam[1] in real_tags and e.re.equals(want.re) and e.im.is_zero():
                    continue
                if e is None or not e.equals(want):
                    return (fam[0], fam[1], perm, 'column %d of the eigenvector matrix is not the eigenvector of eigenvalue %d (entry (%d,%d) is %s)' % (k, k, r, k, e))
        return (fam[0], fam[1], perm)

    def decide_cmp(self, it, op, pa, pb, node):
        # is a component of the input class zero?  (the class fixes which components vanish identically)
        if isinstance(pa, Poly) and isinstance(pb, Poly) and pb.is_const() and pb.const_value() == 0 and op in ('==', '!='):
            vs = pa.vars()
            q = pa.clean()
            if len(vs) == 1 and len(q.t) == 1 and list(vs)[0] in self.nonzero:
                return 1 if op == '!=' else 0
        # order comparisons between entries of the matrix: decided on the concrete instance of the class, if one is given
        if self.witness is not None and isinstance(pa, Poly) and isinstance(pb, Poly):
            try:
                x, y = pa.subst(self.witness), pb.subst(self.witness)
            except (ValueError, KeyError, ZeroDivisionError):
                return NotImplemented
            if x.is_const() and y.is_const():
                x, y = x.const_value(), y.const_value()
                self.witness_used += 1
                return 1 if {'<': x < y, '>': x > y, '<=': x <= y, '>=': x >= y, '==': x == y, '!=': x != y}[op] else 0
        return NotImplemented

    def vec_of(self, it, p, node):
        """(Obj gsl_vector, data region, n) behind a gsl_vector*"""
        if not isinstance(p, Ptr) or p.region is None or 'gslvec' not in p.region.meta:
            raise Unsupported('not a gsl_vector at %s' % it.loc(node))
        o = p.region.cell(0).value
        return o, o.fields['data'].value.region, p.region.meta['gslvec']

    def external_call(self, it, name, node, args, this_cell):
        if name in ('gsl_vector_alloc', 'gsl_vector_calloc'):
            n = it.eval(args[0])
            r = Region('gslv#%d' % len(self.vectors), 1, None, 'heap', {'gslvec': n})
            o = Obj('gsl_vector')
            data = Region('gslv#%d.data' % len(self.vectors), n, (lambda k: Poly.const(0)) if name.endswith('calloc') else None, 'heap')
            o.field('size').value = n
            o.field('stride').value = 1
            o.field('data').value = Ptr(data, 0)
            r.cell(0).value = o
            self.vectors.append(r)
            return Ptr(r, 0)
        if name in ('gsl_vector_free', 'gsl_eigen_hermv_free'):
            self.calls.append((name, it.eval(args[0])))
            return None
        if name == 'gsl_eigen_hermv_alloc':
            n = it.eval(args[0])
            r = Region('ws', 1, None, 'heap', {'ws': n})
            r.cell(0).value = Obj('gsl_eigen_hermv_workspace')
            r.cell(0).value.field('size').value = n
            return Ptr(r, 0)
        if name == 'gsl_eigen_hermv':
            vals = [it.eval(a) for a in args]
            m = matrix_of(vals[0])
            self.nsolve += 1
            tag = '' if self.nsolve == 1 else '_%d' % self.nsolve
            self.calls.append(('gsl_eigen_hermv', self.entries_of(m), vals[1], vals[2], vals[3], it.loc(node)))
            # the trusted outputs: eigenvalue k is the symbol L<k>, its eigenvector the column (VR_r_k + i VI_r_k)_r
            o, data, n = self.vec_of(it, vals[1], node)
            for k in range(n):
                data.cell(k).value = Poly.var('L%s%d' % (tag, k))
            V = matrix_of(vals[2])
            for r in range(V.n1):
                for c in range(V.n2):
                    V.entries[(r, c)] = CPoly(Poly.var('VR%s_%d_%d' % (tag, r, c)), Poly.var('VI%s_%d_%d' % (tag, r, c)))
            return 0
        if name in ('gsl_eigen_symmv_alloc', 'gsl_eigen_herm_alloc', 'gsl_eigen_symm_alloc'):
            n = it.eval(args[0])
            r = Region('ws', 1, None, 'heap', {'ws': n})
            r.cell(0).value = Obj(name[:-6] + '_workspace')
            r.cell(0).value.field('size').value = n
            return Ptr(r, 0)
        if name in ('gsl_eigen_symmv_free', 'gsl_eigen_herm_free', 'gsl_eigen_symm_free'):
            return None
        if name == 'gsl_eigen_symmv':
            # the trusted real-symmetric solver: same contract as the Hermitian one, for the real matrix it is given
            vals = [it.eval(a) for a in args]
            m = matrix_of(vals[0])
            self.nsolve += 1
            tag = '' if self.nsolve == 1 else '_%d' % self.nsolve
            self.real_tags.add(tag)
            self.calls.append(('gsl_eigen_hermv', self.entries_of(m), vals[1], vals[2], vals[3], it.loc(node)))
            o, data, n = self.vec_of(it, vals[1], node)
            for k in range(n):
                data.cell(k).value = Poly.var('L%s%d' % (tag, k))
            V = matrix_of(vals[2])
            for r in range(V.n1):
                for c in range(V.n2):
                    V.entries[(r, c)] = CPoly(Poly.var('VR%s_%d_%d' % (tag, r, c)), 0)
            return 0
        if name in ('gsl_eigen_symmv_sort',):
            vals = [it.eval(a) for a in args]
            raise Unsupported('gsl_eigen_symmv_sort is not summarised at %s' % it.loc(node))
        if name == 'gsl_eigen_hermv_sort':
            vals = [it.eval(a) for a in args]
            self.calls.append(('gsl_eigen_hermv_sort', vals[0], vals[1], vals[2], it.loc(node)))
            # the trusted sort of a consistent (values, columns) pair: the result is named LS<k> / WS_r_k (ascending for
            # type 0); applied to anything else it is not summarised
            o, data, n = self.vec_of(it, vals[0], node)
            V = matrix_of(vals[1])
            fam = self.family(data, V, n, self.real_tags)
            if fam is None and self.nsolve == 0:
                return 0  # values the path built itself (no solver call): the call is recorded, the contents are judged as built
            if fam is None or fam[0] != 'L' or fam[2] != list(range(n)):
                raise Unsupported('gsl_eigen_hermv_sort applied to something that is not the output of the solver at %s' % it.loc(node))
            kind = 'LS' if vals[2] == 0 else 'LX%s' % vals[2]
            for k in range(n):
                data.cell(k).value = Poly.var('%s%s%d' % (kind, fam[1], k))
            for r in range(V.n1):
                for c in range(V.n2):
                    V.entries[(r, c)] = CPoly(Poly.var('W%sR%s_%d_%d' % (kind, fam[1], r, c)), Poly.var('W%sI%s_%d_%d' % (kind, fam[1], r, c)))
            return 0
        if name == 'gsl_vector_set':
            v = it.eval(args[0])
            i = it.eval(args[1])
            val = it.eval(args[2])
            self.calls.append(('gsl_vector_set', v, it.loc(node)))
            o, data, n = self.vec_of(it, v, node)
            if not isinstance(i, int) or not (0 <= i < n):
                raise IndexViolation('gsl_vector_set(%r) outside a vector of %d' % (i, n), it.loc(node))
            data.cell(i).value = it.to_poly(val)
            self.vec_writes.setdefault(v.region.name, {})[i] = it.to_poly(val)
            return None
        if name == 'gsl_vector_get':
            v = it.eval(args[0])
            i = it.eval(args[1])
            o, data, n = self.vec_of(it, v, node)
            if not isinstance(i, int) or not (0 <= i < n):
                raise IndexViolation('gsl_vector_get(%r) outside a vector of %d' % (i, n), it.loc(node))
            x = data.cell(i).value
            if not isinstance(x, Poly):
                raise Unsupported('read of an eigenvalue that was never set at %s' % it.loc(node))
            return x
        if name == 'gsl_vector_memcpy':
            d_, s_ = it.eval(args[0]), it.eval(args[1])
            od, dd, nd = self.vec_of(it, d_, node)
            os_, ds, ns = self.vec_of(it, s_, node)
            if nd != ns:
                raise IndexViolation('gsl_vector_memcpy between vectors of %d and %d' % (nd, ns), it.loc(node))
            for k in range(ns):
                dd.cell(k).value = ds.cell(k).value
            return 0
        if name in ('gsl_matrix_complex_swap_columns', 'gsl_matrix_complex_swap_rows'):
            m = matrix_of(it.eval(args[0]))
            i, j = it.eval(args[1]), it.eval(args[2])
            cols = name.endswith('columns')
            for k in range(m.n1 if cols else m.n2):
                a, b = ((k, i), (k, j)) if cols else ((i, k), (j, k))
                m.entries[a], m.entries[b] = m.get(*b), m.get(*a)
            return 0
        if name == 'gsl_vector_swap_elements':
            o, data, n = self.vec_of(it, it.eval(args[0]), node)
            i, j = it.eval(args[1]), it.eval(args[2])
            x, y = data.cell(i).value, data.cell(j).value
            data.cell(i).value, data.cell(j).value = y, x
            return 0
        if name.startswith('std::make_pair') or name.startswith('std::pair<'):
            vals = []
            for a in args:
                vals.append(it.lval(a).value if (a.get('lv') or a.get('xv')) else it.eval(a))
            o = Obj('std::pair')
            o.field('first').value = vals[0]
            o.field('second').value = vals[1]
            if this_cell is not None:
                this_cell.value = o
                return None
            return o
        return GslHooks.external_call(self, it, name, node, args, this_cell)


def syntactic(db, rep, f, unit):
    """writes to the outputs and input-dependent divisions/roots outside the solver"""
    outs = set()
    body = f['body']
    for n in walk(body):
        if n.get('k') == 'VarDecl' and n.get('init') is not None:
            e = strip(n['init'])
            if e is not None and e.get('k') == 'CallExpr' and e.get('callee') in ('gsl_vector_alloc', 'gsl_matrix_complex_alloc'):
                outs.add(n['id'])
    nbad = 0
    for n in walk(body):
        k = n.get('k')
        if k == 'CallExpr' and n.get('callee') in ('gsl_vector_set', 'gsl_matrix_complex_set', 'gsl_matrix_complex_set_all'):
            a0 = strip(n['args'][0]) if n.get('args') else None
            if a0 is not None and a0.get('k') == 'DeclRefExpr' and a0.get('id') in outs:
                # a path that writes the outputs itself is judged by the interpretation below (it must be an exact
                # decomposition for the class of inputs that reaches it); by itself it is not a violation
                rep.notes.append('outputs also written directly by %s at %s' % (n['callee'], unit.loc(n)))
        elif k == 'BinaryOperator' and n.get('op') == '/' and n.get('t') in ('double', 'std::complex<double>'):
            den = strip(n['c'][1])
            if den is not None and den.get('k') not in ('FloatingLiteral', 'IntegerLiteral') and not ('cv' in den):
                # denominators that are arithmetic over literals only are constants
                if any(x.get('k') in ('DeclRefExpr', 'MemberExpr', 'ArraySubscriptExpr') for x in walk(den)):
                    nbad += 1
                    if nbad <= 3:
                        rep.fail('A.div.guard', 'GetEigenSystem/div@%s' % unit.loc(n), unit.loc(n),
                                 'no division by an input-dependent quantity outside the eigensolver', 'unguarded division', f['name'])
        elif k in ('CallExpr',) and (n.get('callee') or '').split('<')[0] in RISKY_CALLS:
            base = (n.get('callee') or '').split('<')[0]
            if base in ('pow', 'std::pow') and len(n.get('args', [])) == 2:
                ex = strip(n['args'][1])
                if ex is not None and ex.get('k') == 'IntegerLiteral' and ex.get('v', -1) >= 0:
                    continue  # integer power: a polynomial, no singularity
            if any(x.get('k') in ('DeclRefExpr', 'MemberExpr', 'ArraySubscriptExpr') and x.get('dk') != 'Function' for a in n.get('args', []) for x in walk(a)):
                nbad += 1
                if nbad <= 3:
                    rep.fail('A.div.guard', 'GetEigenSystem/root@%s' % unit.loc(n), unit.loc(n),
                             'no root/argument function of an input-dependent quantity outside the eigensolver', 'call to %s' % n['callee'], f['name'])
    if nbad > 3:
        rep.notes.append('%d further closed-form sites in GetEigenSystem not listed' % (nbad - 3))
    if nbad == 0:
        rep.ok('G.eig.path')
        rep.ok('A.div.guard')
    return nbad


def diagonal_witnesses(d, diag_slots):
    """concrete values for the diagonal components: several members of the class whose diagonal entries come in
    different orders (a small deterministic generator; ties in the last instance)"""
    from mpmath import mpf
    out = []
    seed = 12345
    for w in range(7):
        m = {}
        for k in diag_slots:
            seed = (seed * 1103515245 + 12345) % (2 ** 31)
            m[('v', 'a%d' % k)] = Poly.const(mpf(seed % 2001 - 1000) / 64)
        out.append(m)
    out.append({('v', 'a%d' % k): Poly.const(0 if k else 3) for k in diag_slots})  # multiple of the identity: all entries tie
    return out


class Undecided(Exception):
    """the abstract run cannot be judged without a concrete instance of the order of the eigenvalues"""


def eigen_witnesses(d):
    """concrete values for the eigenvalues as the solver returns them (L<k>, and those of a second solver call): every
    order for d <= 4, a selection with long cycles beyond; plus an instance with a tie"""
    import itertools
    from mpmath import mpf
    base = [mpf(3 * k - 4) / 2 for k in range(d)]
    if d <= 4:
        orders = list(itertools.permutations(range(d)))
    else:
        ident = list(range(d))
        orders = [tuple(ident), tuple(reversed(ident)), tuple(ident[1:] + ident[:1]), tuple(ident[-1:] + ident[:-1]),
                  tuple([1, 2, 0] + ident[3:]), tuple([2, 0, 1] + ident[3:]), tuple(ident[:d - 3] + [d - 2, d - 1, d - 3]),
                  tuple([1, 0] + ident[2:]), tuple([d - 1] + ident[1:d - 1] + [0]), tuple(ident[2:] + ident[:2])]
    out = []
    for o in orders:
        w = {}
        for k in range(d):
            for tag in ('', '_2', '_3'):
                w[('v', 'L%s%d' % (tag, k))] = Poly.const(base[o[k]])
        out.append(w)
    # instances with exactly repeated eigenvalues (projectors, multiples of the identity): the last two tie with the
    # largest first; all equal; two groups of equal values, the larger group first
    ties = [[base[min(k, d - 2)] if k != 0 else base[d - 1] for k in range(d)],
            [base[0]] * d,
            [base[1] if k < (d + 1) // 2 else base[0] for k in range(d)],
            [base[0] if k % 2 else base[1] for k in range(d)]]
    for vals in ties:
        w = {}
        for k in range(d):
            for tag in ('', '_2', '_3'):
                w[('v', 'L%s%d' % (tag, k))] = Poly.const(vals[k])
        out.append(w)
    return out


def judge_path(db, rep, unit, f, d, klass, order, zero, content, S, wit, nbad, site, prior_order=None):
    """one abstract run of GetEigenSystem on an input class (optionally on a concrete member `wit` of it); with
    prior_order, the same thread has decomposed the same vector before with that ordering flag (function-local statics
    are shared between the two calls)"""
    this, reg = make_suv('v', d, 'a', content)
    hooks = EigHooks()
    hooks.nonzero = set('a%d' % k for k in range(d * d) if k not in zero)
    hooks.witness = wit
    if prior_order is not None:
        hooks.statics = {}
    it = Interp(unit, hooks)
    try:
        if prior_order is not None:
            it.call(f, this, [prior_order])
            it = Interp(unit, hooks)
        res = it.call(f, this, [order])
    except Thrown as t:
        rep.fail('G.eig.path', site, unit.loc(t.node), 'a decomposition for dimension %d' % d, 'throw: %s' % t.what, f['name'])
        return
    except (Unsupported, IndexViolation) as e:
        if nbad:
            rep.notes.append('%s: path not interpretable (%s); closed-form sites already reported' % (site, str(e)[:120]))
            return
        if 'order is not decidable' in str(e) or 'comparison of' in str(e) or 'numeric value expected' in str(e):
            raise Undecided(str(e))
        raise
    solver = [c for c in hooks.calls if c[0] == 'gsl_eigen_hermv']
    sorts = [c for c in hooks.calls if c[0] == 'gsl_eigen_hermv_sort']
    first = res.fields['first'].value if isinstance(res, Obj) and 'first' in res.fields else None
    second = res.fields['second'].value if isinstance(res, Obj) and 'second' in res.fields else None
    pf = first.fields['p'].value if isinstance(first, Obj) and 'p' in first.fields else None
    ps = second.fields['p'].value if isinstance(second, Obj) and 'p' in second.fields else None
    # the matrix of the input under analysis
    mapping = {('v', 'a%d' % k): Poly.const(0) for k in zero}
    Sin = {rc: CPoly(e.re.subst(mapping), e.im.subst(mapping)) for rc, e in S.entries.items()}
    ok = True
    why = ''
    fam = None
    try:
        o_, data, n_ = hooks.vec_of(it, pf, None) if isinstance(pf, Ptr) else (None, None, None)
        V = matrix_of(ps) if ps is not None else None
    except Unsupported:
        data, V, n_ = None, None, None
    if data is not None and V is not None and n_ == d:
        if any(not isinstance(data.cell(k).value, Poly) for k in range(d)):
            if solver and wit is None:
                raise Undecided('eigenvalues depend on a data-dependent branch')
        fam = EigHooks.family(data, V, d, hooks.real_tags)
    if solver:
        # outputs of the trusted solver, possibly copied, possibly permuted (consistently): which call, on which matrix
        if fam is None:
            if wit is None and any(isinstance(data.cell(k).value, Poly) and data.cell(k).value.vars() for k in range(d)) and data is not None:
                pass
            ok, why = False, 'the values returned are not the eigenvalues and eigenvectors the solver produced (as returned, or consistently reordered)'
        elif len(fam) == 4:
            ok, why = False, fam[3]
        else:
            idx = 0 if fam[1] == '' else int(fam[1][1:]) - 1
            if not (0 <= idx < len(solver)):
                ok, why = False, 'the values returned come from no recorded solver call'
            else:
                entries = solver[idx][1]
                for (r, c), e in Sin.items():
                    if not entries[(r, c)].equals(e):
                        ok, why = False, 'matrix entry (%d,%d) passed to the solver is %s, not that of the represented matrix' % (r, c, entries[(r, c)])
                        break
            if ok and sorted(fam[2]) != list(range(d)):
                ok, why = False, 'eigenvalues returned %s: not a permutation of the solver output' % (fam[2],)
            if ok and order:
                if fam[0] == 'LS' and fam[2] == list(range(d)):
                    pass  # sorted ascending by the trusted routine
                elif fam[0].startswith('LX'):
                    ok, why = False, 'ordering requested but the outputs were sorted with type %s, not ascending by value' % fam[0][2:]
                elif fam[0] == 'LS':
                    ok, why = False, 'the sorted outputs were reordered afterwards: %s' % (fam[2],)
                else:
                    # as the solver returned them, reordered by the path itself with permutation fam[2]
                    if wit is None or ('v', 'L0') not in wit:
                        if fam[2] == list(range(d)) and not hooks.witness_used:
                            ok, why = False, 'ordering requested but the outputs are in the order the solver produced them (sort calls: %d)' % len(sorts)
                        else:
                            raise Undecided('the path orders the eigenvalues itself')
                    else:
                        nums = [wit[('v', 'L%s%d' % (fam[1], j))].const_value() for j in fam[2]]
                        if any(nums[i] > nums[i + 1] for i in range(d - 1)):
                            ok, why = False, 'ordering requested: when the solver returns the eigenvalues as %s they are handed back as %s' % (
                                [str(wit[('v', 'L%s%d' % (fam[1], j))].const_value()) for j in range(d)], [str(x) for x in nums])
        evals, evecs = pf, ps
    else:
        # a path that builds the outputs itself: accepted only as the exact decomposition of a diagonal matrix
        wr = hooks.vec_writes.get(pf.region.name, {}) if isinstance(pf, Ptr) and pf.region is not None else {}
        if klass != 'diagonal' and V is not None and all(
                V.entries.get((r, c)) is not None and V.entries[(r, c)].equals(CPoly(1 if r == c else 0, 0)) for r in range(d) for c in range(d)):
            rep.fail('G.eig.path', site, unit.loc(f), 'outputs = a valid decomposition of the represented matrix',
                     'a matrix with non-zero off-diagonal entries (%s) bypasses the eigensolver and is given the unit vectors as eigenvectors' % klass, f['name'])
            return
        if klass != 'diagonal' or V is None or sorted(wr) != list(range(d)):
            rep.break_('%s: the outputs are produced without the Hermitian eigensolver by a path this analysis cannot validate' % site)
            return
        cols = {}
        for i in range(d):
            ones = [r for r in range(d) if V.entries.get((r, i)) is not None and V.entries[(r, i)].equals(CPoly(1, 0))]
            zeros = [r for r in range(d) if V.entries.get((r, i)) is not None and V.entries[(r, i)].is_zero()]
            if len(ones) != 1 or len(zeros) != d - 1:
                ok, why = False, 'eigenvector %d of a diagonal matrix is not a unit vector' % i
                break
            cols[i] = ones[0]
            if not wr[i].equals(Sin[(ones[0], ones[0])].re):
                ok, why = False, 'eigenvalue %d is %s, not the diagonal entry %d of the matrix' % (i, wr[i], ones[0])
                break
        if ok and sorted(cols.values()) != list(range(d)):
            ok, why = False, 'eigenvectors are not a permutation of the unit vectors'
        if ok and order and not sorts:
            if wit is None:
                raise Undecided('the path orders a diagonal matrix itself')
            nums = []
            for i in range(d):
                x = wr[i].subst(wit)
                nums.append(x.const_value() if x.is_const() else None)
            if any(x is None for x in nums) or any(nums[i] > nums[i + 1] for i in range(d - 1)):
                ok, why = False, 'ordering requested: on the instance with diagonal %s the eigenvalues come out as %s' % (
                    [str(Sin[(r, r)].re.subst(wit)) for r in range(d)], [str(x) for x in nums])
    if ok and hooks.divisions:
        ok, why = False, 'input-dependent division at %s' % unit.loc(hooks.divisions[0][0])
    if ok:
        rep.ok('G.eig.path')
        if d == 3 and klass == 'dense' and prior_order is None and wit is None:
            rep.sample('G.eig.path', 'd=3 order=%d: hermv(S_3(c)) -> (eigenvalues, eigenvectors)%s' % (order, ', sorted ascending' if order else ''))
    else:
        rep.fail('G.eig.path', site, unit.loc(f), 'outputs = a valid decomposition of the represented matrix (outputs of the Hermitian eigensolver for that matrix, '
                 'consistently ordered, or exact for a diagonal matrix); ascending when ordering is requested', why, f['name'])


def run(db, rep, tier):
    rep.trusted += ['clang 14 AST of /repo sources', 'sqdump extractor + abstract interpreter',
                    'gsl_eigen_hermv / gsl_eigen_hermv_sort (documented semantics: eigen-decomposition of a Hermitian matrix; sort by value ascending)',
                    'the matrix passed to the solver is compared with the conversion table extracted under C01']
    rep.declined += ['accuracy of GSL\'s eigensolver']
    unit = db.unit('SUNalg')
    f = db.one('SUNalg', 'squids::SU_vector::GetEigenSystem', 1)
    rep.fn(f['name'])
    nbad = syntactic(db, rep, f, unit)
    n = 0
    for d in DIMS:
        S, _ = basis.extract_S(db, d, 'a')
        lam = basis.basis(db, d)
        diag_slots = [k for k in range(d * d) if all(r == c or lam[k][r][c].is_zero() for r in range(d) for c in range(d))]
        re_slots = [i * d + j for i in range(d) for j in range(i + 1, d)]  # real parts of the off-diagonal entries
        im_slots = [j * d + i for i in range(d) for j in range(i + 1, d)]  # their imaginary parts
        for klass in ('dense', 'diagonal', 'imaginary off-diagonal only', 'real off-diagonal only', 'imaginary parts in the last row and column only'):
            for order in (0, 1):
                n += 1
                site = 'GetEigenSystem/%d/%s/order=%d' % (d, klass, order)
                zero = set()
                if klass == 'diagonal':
                    zero = set(range(d * d)) - set(diag_slots)
                elif klass == 'imaginary off-diagonal only':
                    zero = set(re_slots)
                elif klass == 'real off-diagonal only':
                    zero = set(im_slots)
                elif klass == 'imaginary parts in the last row and column only':
                    zero = set(j * d + i for i in range(d) for j in range(i + 1, d) if j != d - 1)
                content = lambda k, z=zero: Poly.const(0) if k in z else Poly.var('a%d' % k)
                # first without a concrete instance; a path that compares input-dependent numbers itself (ordering a
                # diagonal matrix, or the eigenvalues the solver returned) is then run on concrete instances: several
                # orders of the diagonal resp. every order of the eigenvalues (ties included)
                for prior in (None, 1 - order):
                    if prior is not None and klass != 'dense':
                        continue
                    psite = site + ('' if prior is None else '/after the same vector was decomposed with order=%d' % prior)
                    try:
                        judge_path(db, rep, unit, f, d, klass, order, zero, content, S, None, nbad, psite, prior)
                    except Undecided as u:
                        rep.notes.append('%s: %s; judged on concrete instances' % (psite, str(u)[:100]))
                        wits = eigen_witnesses(d)
                        if klass == 'diagonal':
                            dw = diagonal_witnesses(d, diag_slots)
                            wits = [{**w, **dw[i % len(dw)]} for i, w in enumerate(wits)] + [{**wits[0], **x} for x in dw]
                        for wi, wit in enumerate(wits):
                            try:
                                judge_path(db, rep, unit, f, d, klass, order, zero, content, S, wit, nbad, psite + '/instance%d' % wi, prior)
                            except Undecided as u2:
                                rep.break_('%s: cannot be judged even on a concrete instance (%s)' % (psite, str(u2)[:120]))
                                break
    rep.floor('G.eig.path', n, 50)
