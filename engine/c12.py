"""C12 — the eigen-decomposition returned for a vector is valid for every Hermitian input.
Engine G + C (structure of GetEigenSystem): on every path the eigenvalues and eigenvectors handed
back are produced by the trusted Hermitian eigensolver (gsl_eigen_hermv) applied to exactly the
matrix the vector represents (the C01 conversion), they are sorted ascending iff ordering is
requested, nothing else writes to them, and the function contains no division, root or argument
function of an input-dependent quantity outside that solver (such closed forms have vanishing
denominators on structured inputs).  The accuracy of GSL's solver itself is trusted."""
from astdb import AnalysisBroken, walk, strip
from interp import Interp, Obj, Cell, Ptr, Region, Thrown, Unsupported
from kernels import make_suv, matrix_of
from gslmodel import GslHooks, IndexViolation
from poly import Poly, CPoly
import basis

DIMS = basis.DIMS
RISKY_CALLS = ('sqrt', 'cbrt', 'pow', 'std::arg', 'std::pow', 'std::sqrt', 'log', 'std::log', 'acos', 'atan2', 'std::acos')


class EigHooks(GslHooks):
    def __init__(self):
        GslHooks.__init__(self)
        self.calls = []
        self.vectors = []
        self.vec_writes = {}
        self.nonzero = set()  # component symbols that are non-zero in the input class under analysis
        self.witness = None   # concrete values of the component symbols (a member of the class), for order comparisons
        self.witness_used = 0

    def decide_cmp(self, it, op, pa, pb, node):
        # is a component of the input class zero?  (the class fixes which components vanish identically)
        if isinstance(pa, Poly) and isinstance(pb, Poly) and pb.is_const() and pb.const_value() == 0 and op in ('==', '!='):
            vs = pa.vars()
            q = pa.clean()
            if len(vs) == 1 and len(q.t) == 1 and list(vs)[0] in self.nonzero:
                return 1 if op == '!=' else 0
        # order comparisons between entries of the matrix: decided on the concrete instance of the class, if one is given
        if self.witness is not None and isinstance(pa, Poly) and isinstance(pb, Poly):
            try:
                x, y = pa.subst(self.witness), pb.subst(self.witness)
            except (ValueError, KeyError, ZeroDivisionError):
                return NotImplemented
            if x.is_const() and y.is_const():
                x, y = x.const_value(), y.const_value()
                self.witness_used += 1
                return 1 if {'<': x < y, '>': x > y, '<=': x <= y, '>=': x >= y, '==': x == y, '!=': x != y}[op] else 0
        return NotImplemented

    def external_call(self, it, name, node, args, this_cell):
        if name == 'gsl_vector_alloc':
            n = it.eval(args[0])
            r = Region('gslv#%d' % len(self.vectors), 1, None, 'heap', {'gslvec': n})
            r.cell(0).value = Obj('gsl_vector')
            r.cell(0).value.field('size').value = n
            r.cell(0).value.field('stride').value = 1
            self.vectors.append(r)
            return Ptr(r, 0)
        if name in ('gsl_vector_free', 'gsl_eigen_hermv_free'):
            self.calls.append((name, it.eval(args[0])))
            return None
        if name == 'gsl_eigen_hermv_alloc':
            n = it.eval(args[0])
            r = Region('ws', 1, None, 'heap', {'ws': n})
            r.cell(0).value = Obj('gsl_eigen_hermv_workspace')
            return Ptr(r, 0)
        if name == 'gsl_eigen_hermv':
            vals = [it.eval(a) for a in args]
            m = matrix_of(vals[0])
            self.calls.append(('gsl_eigen_hermv', self.entries_of(m), vals[1], vals[2], vals[3], it.loc(node)))
            return 0
        if name == 'gsl_eigen_hermv_sort':
            vals = [it.eval(a) for a in args]
            self.calls.append(('gsl_eigen_hermv_sort', vals[0], vals[1], vals[2], it.loc(node)))
            return 0
        if name in ('gsl_vector_set',):
            v = it.eval(args[0])
            i = it.eval(args[1])
            val = it.eval(args[2])
            self.calls.append(('gsl_vector_set', v, it.loc(node)))
            self.vec_writes.setdefault(v.region.name, {})[i] = it.to_poly(val)
            return None
        if name.startswith('std::make_pair') or name.startswith('std::pair<'):
            vals = []
            for a in args:
                vals.append(it.lval(a).value if (a.get('lv') or a.get('xv')) else it.eval(a))
            o = Obj('std::pair')
            o.field('first').value = vals[0]
            o.field('second').value = vals[1]
            if this_cell is not None:
                this_cell.value = o
                return None
            return o
        return GslHooks.external_call(self, it, name, node, args, this_cell)


def syntactic(db, rep, f, unit):
    """writes to the outputs and input-dependent divisions/roots outside the solver"""
    outs = set()
    body = f['body']
    for n in walk(body):
        if n.get('k') == 'VarDecl' and n.get('init') is not None:
            e = strip(n['init'])
            if e is not None and e.get('k') == 'CallExpr' and e.get('callee') in ('gsl_vector_alloc', 'gsl_matrix_complex_alloc'):
                outs.add(n['id'])
    nbad = 0
    for n in walk(body):
        k = n.get('k')
        if k == 'CallExpr' and n.get('callee') in ('gsl_vector_set', 'gsl_matrix_complex_set', 'gsl_matrix_complex_set_all'):
            a0 = strip(n['args'][0]) if n.get('args') else None
            if a0 is not None and a0.get('k') == 'DeclRefExpr' and a0.get('id') in outs:
                # a path that writes the outputs itself is judged by the interpretation below (it must be an exact
                # decomposition for the class of inputs that reaches it); by itself it is not a violation
                rep.notes.append('outputs also written directly by %s at %s' % (n['callee'], unit.loc(n)))
        elif k == 'BinaryOperator' and n.get('op') == '/' and n.get('t') in ('double', 'std::complex<double>'):
            den = strip(n['c'][1])
            if den is not None and den.get('k') not in ('FloatingLiteral', 'IntegerLiteral') and not ('cv' in den):
                # denominators that are arithmetic over literals only are constants
                if any(x.get('k') in ('DeclRefExpr', 'MemberExpr', 'ArraySubscriptExpr') for x in walk(den)):
                    nbad += 1
                    if nbad <= 3:
                        rep.fail('A.div.guard', 'GetEigenSystem/div@%s' % unit.loc(n), unit.loc(n),
                                 'no division by an input-dependent quantity outside the eigensolver', 'unguarded division', f['name'])
        elif k in ('CallExpr',) and (n.get('callee') or '').split('<')[0] in RISKY_CALLS:
            base = (n.get('callee') or '').split('<')[0]
            if base in ('pow', 'std::pow') and len(n.get('args', [])) == 2:
                ex = strip(n['args'][1])
                if ex is not None and ex.get('k') == 'IntegerLiteral' and ex.get('v', -1) >= 0:
                    continue  # integer power: a polynomial, no singularity
            if any(x.get('k') in ('DeclRefExpr', 'MemberExpr', 'ArraySubscriptExpr') and x.get('dk') != 'Function' for a in n.get('args', []) for x in walk(a)):
                nbad += 1
                if nbad <= 3:
                    rep.fail('A.div.guard', 'GetEigenSystem/root@%s' % unit.loc(n), unit.loc(n),
                             'no root/argument function of an input-dependent quantity outside the eigensolver', 'call to %s' % n['callee'], f['name'])
    if nbad > 3:
        rep.notes.append('%d further closed-form sites in GetEigenSystem not listed' % (nbad - 3))
    if nbad == 0:
        rep.ok('G.eig.path')
        rep.ok('A.div.guard')
    return nbad


def diagonal_witnesses(d, diag_slots):
    """concrete values for the diagonal components: several members of the class whose diagonal entries come in
    different orders (a small deterministic generator; ties in the last instance)"""
    from mpmath import mpf
    out = []
    seed = 12345
    for w in range(7):
        m = {}
        for k in diag_slots:
            seed = (seed * 1103515245 + 12345) % (2 ** 31)
            m[('v', 'a%d' % k)] = Poly.const(mpf(seed % 2001 - 1000) / 64)
        out.append(m)
    out.append({('v', 'a%d' % k): Poly.const(0 if k else 3) for k in diag_slots})  # multiple of the identity: all entries tie
    return out


def judge_path(db, rep, unit, f, d, klass, order, zero, content, S, wit, nbad, site):
    """one abstract run of GetEigenSystem on an input class (optionally on a concrete member `wit` of it)"""
    this, reg = make_suv('v', d, 'a', content)
    hooks = EigHooks()
    hooks.nonzero = set('a%d' % k for k in range(d * d) if k not in zero)
    hooks.witness = wit
    it = Interp(unit, hooks)
    try:
        res = it.call(f, this, [order])
    except Thrown as t:
        rep.fail('G.eig.path', site, unit.loc(t.node), 'a decomposition for dimension %d' % d, 'throw: %s' % t.what, f['name'])
        return
    except (Unsupported, IndexViolation) as e:
        if nbad:
            rep.notes.append('%s: path not interpretable (%s); closed-form sites already reported' % (site, str(e)[:120]))
            return
        if wit is None and klass == 'diagonal' and order and 'order is not decidable' in str(e):
            rep.notes.append('%s: the path orders input-dependent entries itself; judged on the concrete instances of the class' % site)
            return
        raise
    solver = [c for c in hooks.calls if c[0] == 'gsl_eigen_hermv']
    sorts = [c for c in hooks.calls if c[0] == 'gsl_eigen_hermv_sort']
    first = res.fields['first'].value if isinstance(res, Obj) and 'first' in res.fields else None
    second = res.fields['second'].value if isinstance(res, Obj) and 'second' in res.fields else None
    pf = first.fields['p'].value if isinstance(first, Obj) and 'p' in first.fields else None
    ps = second.fields['p'].value if isinstance(second, Obj) and 'p' in second.fields else None
    # the matrix of the input under analysis
    mapping = {('v', 'a%d' % k): Poly.const(0) for k in zero}
    Sin = {rc: CPoly(e.re.subst(mapping), e.im.subst(mapping)) for rc, e in S.entries.items()}
    ok = True
    why = ''
    if len(solver) == 1:
        _, entries, evals, evecs, ws, where = solver[0]
        for (r, c), e in Sin.items():
            if not entries[(r, c)].equals(e):
                ok, why = False, 'matrix entry (%d,%d) passed to the solver is %s, not that of the represented matrix' % (r, c, entries[(r, c)])
                break
        if ok and not (pf == evals and ps == evecs):
            ok, why = False, 'the objects returned are not the solver outputs'
        if ok and hooks.vec_writes.get(evals.region.name):
            ok, why = False, 'eigenvalues overwritten after the solver call'
    elif len(solver) == 0:
        # a path that builds the outputs itself: accepted only as the exact decomposition of a diagonal matrix
        wr = hooks.vec_writes.get(pf.region.name, {}) if isinstance(pf, Ptr) and pf.region is not None else {}
        try:
            V = matrix_of(ps) if ps is not None else None
        except Unsupported:
            V = None
        if klass != 'diagonal' and V is not None and all(
                V.entries.get((r, c)) is not None and V.entries[(r, c)].equals(CPoly(1 if r == c else 0, 0)) for r in range(d) for c in range(d)):
            rep.fail('G.eig.path', site, unit.loc(f), 'outputs = a valid decomposition of the represented matrix',
                     'a matrix with non-zero off-diagonal entries (%s) bypasses the eigensolver and is given the unit vectors as eigenvectors' % klass, f['name'])
            return
        if klass != 'diagonal' or V is None or sorted(wr) != list(range(d)):
            rep.break_('%s: the outputs are produced without the Hermitian eigensolver by a path this analysis cannot validate' % site)
            return
        cols = {}
        for i in range(d):
            ones = [r for r in range(d) if V.entries.get((r, i)) is not None and V.entries[(r, i)].equals(CPoly(1, 0))]
            zeros = [r for r in range(d) if V.entries.get((r, i)) is not None and V.entries[(r, i)].is_zero()]
            if len(ones) != 1 or len(zeros) != d - 1:
                ok, why = False, 'eigenvector %d of a diagonal matrix is not a unit vector' % i
                break
            cols[i] = ones[0]
            if not wr[i].equals(Sin[(ones[0], ones[0])].re):
                ok, why = False, 'eigenvalue %d is %s, not the diagonal entry %d of the matrix' % (i, wr[i], ones[0])
                break
        if ok and sorted(cols.values()) != list(range(d)):
            ok, why = False, 'eigenvectors are not a permutation of the unit vectors'
        evals, evecs = pf, ps
    else:
        ok, why = False, 'the Hermitian eigensolver is called %d times on this path' % len(solver)
    if ok and order and len(solver) == 0 and wit is not None and not sorts:
        # the path ordered the entries itself: on this concrete member of the class the eigenvalues must ascend
        nums = []
        for i in range(d):
            x = wr[i].subst(wit)
            nums.append(x.const_value() if x.is_const() else None)
        if any(x is None for x in nums) or any(nums[i] > nums[i + 1] for i in range(d - 1)):
            ok, why = False, 'ordering requested: on the instance with diagonal %s the eigenvalues come out as %s' % (
                [str(Sin[(r, r)].re.subst(wit)) for r in range(d)], [str(x) for x in nums])
    elif ok and order and not (len(sorts) == 1 and sorts[0][1] == evals and sorts[0][2] == evecs and sorts[0][3] == 0):
        ok, why = False, 'ordering requested but the outputs are not sorted ascending by value on this path (sort calls: %d)' % len(sorts)
    if ok and not order and sorts:
        ok, why = False, 'sorted although ordering was not requested'
    if ok and hooks.divisions:
        ok, why = False, 'input-dependent division at %s' % unit.loc(hooks.divisions[0][0])
    if ok:
        rep.ok('G.eig.path')
        if d == 3 and klass == 'dense':
            rep.sample('G.eig.path', 'd=3 order=%d: hermv(S_3(c)) -> (eigenvalues, eigenvectors)%s' % (order, ', sorted ascending' if order else ''))
    else:
        rep.fail('G.eig.path', site, unit.loc(f), 'outputs = a valid decomposition of the represented matrix (Hermitian eigensolver, or exact for a diagonal matrix); sorted ascending iff requested',
                 why, f['name'])


def run(db, rep, tier):
    rep.trusted += ['clang 14 AST of /repo sources', 'sqdump extractor + abstract interpreter',
                    'gsl_eigen_hermv / gsl_eigen_hermv_sort (documented semantics: eigen-decomposition of a Hermitian matrix; sort by value ascending)',
                    'the matrix passed to the solver is compared with the conversion table extracted under C01']
    rep.declined += ['accuracy of GSL\'s eigensolver']
    unit = db.unit('SUNalg')
    f = db.one('SUNalg', 'squids::SU_vector::GetEigenSystem', 1)
    rep.fn(f['name'])
    nbad = syntactic(db, rep, f, unit)
    n = 0
    for d in DIMS:
        S, _ = basis.extract_S(db, d, 'a')
        lam = basis.basis(db, d)
        diag_slots = [k for k in range(d * d) if all(r == c or lam[k][r][c].is_zero() for r in range(d) for c in range(d))]
        re_slots = [i * d + j for i in range(d) for j in range(i + 1, d)]  # real parts of the off-diagonal entries
        im_slots = [j * d + i for i in range(d) for j in range(i + 1, d)]  # their imaginary parts
        for klass in ('dense', 'diagonal', 'imaginary off-diagonal only', 'real off-diagonal only'):
            for order in (0, 1):
                n += 1
                site = 'GetEigenSystem/%d/%s/order=%d' % (d, klass, order)
                zero = set()
                if klass == 'diagonal':
                    zero = set(range(d * d)) - set(diag_slots)
                elif klass == 'imaginary off-diagonal only':
                    zero = set(re_slots)
                elif klass == 'real off-diagonal only':
                    zero = set(im_slots)
                content = lambda k, z=zero: Poly.const(0) if k in z else Poly.var('a%d' % k)
                # a path that orders the entries of a diagonal matrix itself compares input-dependent numbers: it is
                # run on several concrete members of the class (different orderings of the diagonal, ties included)
                witnesses = [None]
                if klass == 'diagonal' and order:
                    witnesses = [None] + diagonal_witnesses(d, diag_slots)
                for wit in witnesses:
                    judge_path(db, rep, unit, f, d, klass, order, zero, content, S, wit, nbad, site + ('' if wit is None else '/instance%d' % witnesses.index(wit)))
    rep.floor('G.eig.path', n, 40)
