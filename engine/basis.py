"""Extraction of the conversion tables S_d (SU_vector -> matrix) and M_d (matrix -> SU_vector)
from the current sources, and the basis matrices lambda_k they define.  Shared by C01, C02,
C03, C06, C11, C13."""
from astdb import AnalysisBroken
from interp import Interp, Obj, Cell, Ptr, Region, Thrown, Unsupported, UNDEF, ITE
from kernels import KernelHooks, make_suv, GslMatrix, SUV
from gslmodel import GslHooks
from poly import Poly, CPoly, mat_zero

DIMS = (2, 3, 4, 5, 6)
_cache = {}


def f_getgslmatrix(db):
    return db.one('SUNalg', 'squids::SU_vector::GetGSLMatrix', 1)


def f_matrix_ctor(db):
    return db.one('SUNalg', 'squids::SU_vector::SU_vector', 1,
                  lambda f: f['params'][0]['t'].startswith('const gsl_matrix_complex'))


class HelperAbsent(Exception):
    """an internal helper this analysis looks at directly is not part of the library any more"""


def f_components_from_matrices(db):
    # a file-local helper: its enclosing (unnamed) namespace is an implementation detail, and it may disappear
    fs = [f for f in db.unit('SUNalg').functions if f['name'].split('<')[0].split('::')[-1] == 'ComponentsFromMatrices' and len(f['params']) == 4]
    if not fs:
        raise HelperAbsent('ComponentsFromMatrices')
    if len(fs) > 1:
        raise AnalysisBroken('several definitions of ComponentsFromMatrices')
    return fs[0]


def extract_S(db, d, prefix='c'):
    """returns (GslMatrix with entries as CPoly in <prefix>k, interpreter hooks)"""
    key = ('S', d, prefix, id(db))
    if key in _cache:
        return _cache[key]
    unit = db.unit('SUNalg')
    f = f_getgslmatrix(db)
    hooks = GslHooks()
    this, reg = make_suv('v', d, prefix)
    m = GslMatrix(d, d)
    it = Interp(unit, hooks)
    it.call(f, this, [m.ptr])
    # entries that depend on the components through a data-dependent branch: the table is the value in a
    # neighbourhood of a generic input of ordinary scale; the guarded form is kept for C01 (which holds the conversion
    # to be one linear map for every input) and for the comparisons of the callers
    m.guarded = {}
    for rc, e in list(m.entries.items()):
        if isinstance(e.re, ITE) or isinstance(e.im, ITE):
            import guarded
            from mpmath import mpf
            point = {('v', '%s%d' % (prefix, k)): Poly.const(mpf(3 * k + 2) / 7 * (-1) ** k) for k in range(d * d)}
            re, im = guarded.leaf_at(e.re, point), guarded.leaf_at(e.im, point)
            if not isinstance(re, Poly) or not isinstance(im, Poly):
                raise AnalysisBroken('S_%d: entry %s is guarded by a condition this analysis cannot evaluate: %s' % (d, rc, e))
            m.guarded[rc] = e
            m.entries[rc] = CPoly(re, im)
    _cache[key] = (m, hooks)
    return m, hooks


def basis(db, d):
    """lambda_k as d x d lists of CPoly constants, from S_d (requires every entry set: else AnalysisBroken)"""
    key = ('B', d, id(db))
    if key in _cache:
        return _cache[key]
    m, _ = extract_S(db, d)
    lam = []
    for k in range(d * d):
        a = ('v', 'c%d' % k)
        L = mat_zero(d)
        for r in range(d):
            for c in range(d):
                e = m.entries.get((r, c))
                if e is None:
                    raise AnalysisBroken('S_%d: entry (%d,%d) never set; basis undefined' % (d, r, c))
                L[r][c] = CPoly(e.re.coeff_of(a), e.im.coeff_of(a))
        lam.append(L)
    _cache[key] = lam
    return lam


def matrix_from(db, d, comp):
    """the matrix sum_k comp[k]*lambda_k (comp: list of Poly)"""
    lam = basis(db, d)
    M = mat_zero(d)
    for k in range(d * d):
        if comp[k].is_zero():
            continue
        ck = CPoly(comp[k], 0)
        for r in range(d):
            for c in range(d):
                if not lam[k][r][c].is_zero():
                    M[r][c] = M[r][c] + lam[k][r][c] * ck
    return M


def project(db, d, X):
    """components of a Hermitian matrix X over the extracted basis using the trace form:
    c_0 = Tr(X lambda_0)/Tr(lambda_0^2), c_k = Tr(X lambda_k)/Tr(lambda_k^2) (orthogonality is a C01 obligation)"""
    lam = basis(db, d)
    out = []
    for k in range(d * d):
        num = CPoly()
        nrm = CPoly()
        for r in range(d):
            for c in range(d):
                l = lam[k][c][r]
                if l.is_zero():
                    continue
                num = num + X[r][c] * l
                nrm = nrm + lam[k][r][c] * l
        n = nrm.re.const_value()
        if n == 0:
            raise AnalysisBroken('basis element %d of dimension %d has zero norm' % (k, d))
        out.append((num.re.scale(1 / n), num.im.scale(1 / n)))
    return out


def run_matrix_ctor(db, d, entry):
    """abstractly interpret SU_vector(const gsl_matrix_complex*) on a d x d matrix whose (r,c) entry is entry(r,c);
    returns (object, components region, hooks)"""
    unit = db.unit('SUNalg')
    f = f_matrix_ctor(db)
    hooks = GslHooks()
    m = GslMatrix(d, d, entry, 'm')
    this = Cell(Obj(SUV, None, 'v'), None, 0, 'v')
    it = Interp(unit, hooks)
    it.call(f, this, [m.ptr])
    comp = this.value.fields['components'].value
    return this.value, comp, hooks, it


def run_cfm(db, d, re, im):
    """ComponentsFromMatrices(components, dim, m_real, m_imag) on zero-filled components"""
    unit = db.unit('SUNalg')
    f = f_components_from_matrices(db)
    hooks = GslHooks()
    comp = Region('components', d * d, lambda k: Poly.const(0), 'heap')

    def arr(name, fn):
        o = Obj('sq_array_2D', None, name)
        o.field('d').value = d
        reg = Region(name, d * d, lambda k: fn(k // d, k % d), 'stack')
        o.field('data').value = Ptr(reg, 0)
        return Cell(o, None, 0, name)
    it = Interp(unit, hooks)
    it.call(f, None, [Ptr(comp, 0), d, arr('m_real', re), arr('m_imag', im)])
    return comp, hooks
