"""Analysis of SU_vector::operator== (rule A.loop.eq)."""
from interp import Interp, ITE, Cond, Thrown
from kernels import make_suv, flatten_ite
from stdmodel import StdHooks
from gslmodel import GslHooks
from poly import Poly


class BitwiseCompare(Exception):
    def __init__(self, where):
        self.where = where


class EqHooks(GslHooks):
    def external_call(self, it, name, node, args, this_cell):
        base = name.split('<')[0]
        if base in ('memcmp', 'std::memcmp', '__builtin_memcmp', 'bcmp'):
            # a byte-wise comparison is not numeric equality: +0.0 / -0.0 differ, identical NaNs compare equal
            raise BitwiseCompare(it.loc(node))
        if base == 'std::equal' and len(args) == 3:
            a, b, c = it.eval(args[0]), it.eval(args[1]), it.eval(args[2])
            n = b.off - a.off
            res = 1
            for k in reversed(range(n)):
                x = it.read(it.deref(it.ptr_add(a, k), node), node)
                y = it.read(it.deref(it.ptr_add(c, k), node), node)
                cnd = it.compare('!=', x, y, node)
                if isinstance(cnd, Cond):
                    res = ITE(cnd, 0, res)
                elif cnd:
                    res = 0
            return res
        return GslHooks.external_call(self, it, name, node, args, this_cell)


def _run(db, f, this, other):
    it = Interp(db.unit('SUNalg'), EqHooks())
    r = it.call(f, this, [other])
    return r


def _truth(v):
    if isinstance(v, bool):
        return v
    if isinstance(v, int):
        return v != 0
    return None


def analyse_equality(db, f):
    """yields (site, ok, expected, found)"""
    try:
        for x in _analyse_equality(db, f):
            yield x
    except BitwiseCompare as e:
        yield ('operator==/bitwise', False, 'components compared numerically (a[k] != b[k])',
               'byte-wise comparison at %s: +0.0 and -0.0 compare unequal, identical NaN patterns compare equal' % e.where)


def _analyse_equality(db, f):
    # 1. different dimensions -> false, for every ordered pair
    for d1 in (2, 3, 4, 5, 6):
        for d2 in (2, 3, 4, 5, 6):
            if d1 == d2:
                continue
            a, _ = make_suv('a', d1, 'a')
            b, _ = make_suv('b', d2, 'b')
            r = _run(db, f, a, b)
            yield ('operator==/dims/%d,%d' % (d1, d2), _truth(r) is False, 'false for dimensions %d and %d' % (d1, d2), repr(r))
    # 2. emptiness: both default-constructed -> true; one empty (dim 0) vs. initialised -> false (via dim)
    e1, _ = make_suv('e1', 0, 'x', flags=(False, False))
    e2, _ = make_suv('e2', 0, 'y', flags=(False, False))
    r = _run(db, f, e1, e2)
    yield ('operator==/empty', _truth(r) is True, 'two empty vectors compare equal', repr(r))
    for fl1, fl2 in (((False, False), (True, False)), ((True, False), (False, False)), ((False, False), (False, True))):
        a, _ = make_suv('a', 3, 'a', flags=fl1)
        b, _ = make_suv('b', 3, 'b', flags=fl2)
        r = _run(db, f, a, b)
        yield ('operator==/emptiness/%s%s' % (fl1, fl2), _truth(r) is False,
               'a vector with data and one without are unequal', repr(r))
    # 3. equal dimension, symbolic components: true iff all component pairs equal
    for d in (2, 3, 4, 5, 6):
        for fl in ((True, False), (False, True)):
            a, _ = make_suv('a', d, 'a', flags=fl)
            b, _ = make_suv('b', d, 'b', flags=(True, False))
            r = _run(db, f, a, b)
            # the result as a boolean function of the d*d facts e_k: "a[k] == b[k]".  It must be their conjunction: true
            # when all hold, false when exactly one fails (every k), false when several fail (sampled)
            ok = True
            why = ''
            try:
                nn = d * d
                if evaluate(r, d, [True] * nn) is not True:
                    ok, why = False, 'equal components do not compare equal'
                if ok:
                    for k in range(nn):
                        asg = [True] * nn
                        asg[k] = False
                        if evaluate(r, d, asg) is not False:
                            ok, why = False, 'vectors differing only in component %d compare equal (that component is not compared)' % k
                            break
                if ok:
                    seed = 987654321
                    for _ in range(64):
                        asg = []
                        for k in range(nn):
                            seed = (seed * 1103515245 + 12345) % (2 ** 31)
                            asg.append((seed >> 16) % 3 != 0)
                        if all(asg):
                            continue
                        if evaluate(r, d, asg) is not False:
                            ok, why = False, 'vectors differing in components %s compare equal' % [k for k in range(nn) if not asg[k]]
                            break
            except NotExact as e:
                ok, why = False, 'unrecognised comparison %s' % e
            yield ('operator==/components/%d/%s' % (d, 'owned' if fl[0] else 'external'), ok,
                   'true iff a[k]==b[k] for all k<%d (exact comparison)' % (d * d), why or 'ok')
            # same object contents -> true
        a, _ = make_suv('a', d, 'a')
        b, _ = make_suv('b', d, 'a')
        r = _run(db, f, a, b)
        yield ('operator==/same/%d' % d, _truth(r) is True, 'equal components compare equal', repr(r))


class NotExact(Exception):
    pass


def evaluate(v, d, asg):
    """value of the guarded boolean result under the assignment asg[k] = (a[k] == b[k])"""
    if isinstance(v, ITE):
        return evaluate(v.a if cond_value(v.cond, d, asg) else v.b, d, asg)
    if isinstance(v, Cond):
        return cond_value(v, d, asg)
    t = _truth(v)
    if t is None:
        raise NotExact('non-boolean result %r' % (v,))
    return t


def cond_value(c, d, asg):
    if c.kind == 'cmp':
        kind = classify(c, True, d)
        if kind is None:
            raise NotExact('%r (components are compared exactly, pair by pair)' % (c,))
        eq = asg[kind[1]]
        return (not eq) if kind[0] == 'ne' else eq
    if c.kind == 'not':
        return not cond_value(c.a, d, asg)
    if c.kind in ('and', 'or'):
        x = cond_value(c.a, d, asg) if isinstance(c.a, Cond) else bool(c.a)
        y = cond_value(c.b, d, asg) if isinstance(c.b, Cond) else bool(c.b)
        return (x and y) if c.kind == 'and' else (x or y)
    raise NotExact(repr(c))


def classify(cond, pol, d):
    if not isinstance(cond, Cond) or cond.kind != 'cmp' or cond.op not in ('!=', '=='):
        return None
    diff = (cond.a - cond.b).clean()
    for k in range(d * d):
        w = Poly.var('a%d' % k) - Poly.var('b%d' % k)
        if diff.equals(w) or diff.equals(-w):
            ne = (cond.op == '!=') == pol
            return ('ne' if ne else 'eq', k)
    return None
