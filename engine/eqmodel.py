"""Analysis of SU_vector::operator== (rule A.loop.eq)."""
from interp import Interp, ITE, Cond, Thrown
from kernels import make_suv, flatten_ite
from stdmodel import StdHooks
from poly import Poly


class BitwiseCompare(Exception):
    def __init__(self, where):
        self.where = where


class EqHooks(StdHooks):
    def external_call(self, it, name, node, args, this_cell):
        base = name.split('<')[0]
        if base in ('memcmp', 'std::memcmp', '__builtin_memcmp', 'bcmp'):
            # a byte-wise comparison is not numeric equality: +0.0 / -0.0 differ, identical NaNs compare equal
            raise BitwiseCompare(it.loc(node))
        if base == 'std::equal' and len(args) == 3:
            a, b, c = it.eval(args[0]), it.eval(args[1]), it.eval(args[2])
            n = b.off - a.off
            res = 1
            for k in reversed(range(n)):
                x = it.read(it.deref(it.ptr_add(a, k), node), node)
                y = it.read(it.deref(it.ptr_add(c, k), node), node)
                cnd = it.compare('!=', x, y, node)
                if isinstance(cnd, Cond):
                    res = ITE(cnd, 0, res)
                elif cnd:
                    res = 0
            return res
        return StdHooks.external_call(self, it, name, node, args, this_cell)


def _run(db, f, this, other):
    it = Interp(db.unit('SUNalg'), EqHooks())
    r = it.call(f, this, [other])
    return r


def _truth(v):
    if isinstance(v, bool):
        return v
    if isinstance(v, int):
        return v != 0
    return None


def analyse_equality(db, f):
    """yields (site, ok, expected, found)"""
    try:
        for x in _analyse_equality(db, f):
            yield x
    except BitwiseCompare as e:
        yield ('operator==/bitwise', False, 'components compared numerically (a[k] != b[k])',
               'byte-wise comparison at %s: +0.0 and -0.0 compare unequal, identical NaN patterns compare equal' % e.where)


def _analyse_equality(db, f):
    # 1. different dimensions -> false, for every ordered pair
    for d1 in (2, 3, 4, 5, 6):
        for d2 in (2, 3, 4, 5, 6):
            if d1 == d2:
                continue
            a, _ = make_suv('a', d1, 'a')
            b, _ = make_suv('b', d2, 'b')
            r = _run(db, f, a, b)
            yield ('operator==/dims/%d,%d' % (d1, d2), _truth(r) is False, 'false for dimensions %d and %d' % (d1, d2), repr(r))
    # 2. emptiness: both default-constructed -> true; one empty (dim 0) vs. initialised -> false (via dim)
    e1, _ = make_suv('e1', 0, 'x', flags=(False, False))
    e2, _ = make_suv('e2', 0, 'y', flags=(False, False))
    r = _run(db, f, e1, e2)
    yield ('operator==/empty', _truth(r) is True, 'two empty vectors compare equal', repr(r))
    for fl1, fl2 in (((False, False), (True, False)), ((True, False), (False, False)), ((False, False), (False, True))):
        a, _ = make_suv('a', 3, 'a', flags=fl1)
        b, _ = make_suv('b', 3, 'b', flags=fl2)
        r = _run(db, f, a, b)
        yield ('operator==/emptiness/%s%s' % (fl1, fl2), _truth(r) is False,
               'a vector with data and one without are unequal', repr(r))
    # 3. equal dimension, symbolic components: true iff all component pairs equal
    for d in (2, 3, 4, 5, 6):
        for fl in ((True, False), (False, True)):
            a, _ = make_suv('a', d, 'a', flags=fl)
            b, _ = make_suv('b', d, 'b', flags=(True, False))
            r = _run(db, f, a, b)
            paths = flatten_ite(r)
            ok = True
            why = ''
            true_leaves = 0
            for path, leaf in paths:
                atoms = set()
                for cond, pol in path:
                    kind = classify(cond, pol, d)
                    if kind is None:
                        ok = False
                        why = 'unrecognised comparison %r' % (cond,)
                        break
                    atoms.add(kind)
                if not ok:
                    break
                tv = _truth(leaf)
                if tv is None:
                    ok = False
                    why = 'non-boolean result %r' % (leaf,)
                    break
                all_eq = atoms == set(('eq', k) for k in range(d * d))
                if tv:
                    true_leaves += 1
                    if not all_eq:
                        ok = False
                        missing = sorted(set(range(d * d)) - set(k for t, k in atoms if t == 'eq'))
                        why = 'returns true without comparing components %s' % missing
                        break
                else:
                    if not any(t == 'ne' for t, k in atoms):
                        ok = False
                        why = 'returns false although all compared components are equal'
                        break
            if ok and true_leaves != 1:
                ok = False
                why = '%d paths return true' % true_leaves
            yield ('operator==/components/%d/%s' % (d, 'owned' if fl[0] else 'external'), ok,
                   'true iff a[k]==b[k] for all k<%d (exact comparison)' % (d * d), why or 'ok')
            # same object contents -> true
        a, _ = make_suv('a', d, 'a')
        b, _ = make_suv('b', d, 'a')
        r = _run(db, f, a, b)
        yield ('operator==/same/%d' % d, _truth(r) is True, 'equal components compare equal', repr(r))


def classify(cond, pol, d):
    if not isinstance(cond, Cond) or cond.kind != 'cmp' or cond.op not in ('!=', '=='):
        return None
    diff = (cond.a - cond.b).clean()
    for k in range(d * d):
        w = Poly.var('a%d' % k) - Poly.var('b%d' % k)
        if diff.equals(w) or diff.equals(-w):
            ne = (cond.op == '!=') == pol
            return ('ne' if ne else 'eq', k)
    return None
