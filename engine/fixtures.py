"""Positive controls (DESIGN 2.4): the rules whose expected number of hits on a healthy tree is zero are run,
with the same code, on fixtures/bad_shapes.cpp; each must fire there, otherwise the check is analysis-broken."""
import os

import astdb
from report import Report

FX = os.path.join(astdb.VERIF, 'fixtures', 'bad_shapes.cpp')


class FixtureDB:
    def __init__(self):
        path = astdb.extract_file(FX, 'bad_shapes')
        self.u = astdb.Unit('fixture', path)
        self.u.db = self
        self.units = {'fixture': self.u}

    def unit(self, name):
        return self.u

    def link(self, name, csig, exclude=None):
        return None

    def one(self, unit, name, nparams=None, pred=None):
        fs = [f for f in self.u.by_name.get(name, []) if (nparams is None or len(f['params']) == nparams) and (pred is None or pred(f))]
        if len(fs) != 1:
            raise astdb.AnalysisBroken('fixture anchor %s' % name)
        return fs[0]


class Scratch(Report):
    """collects rule outcomes without writing evidence"""

    def __init__(self):
        self.fired = {}
        self.known = []
        self.analysed = {'functions': set()}
        self.samples = []
        self.rules = {}
        self.notes = []
        self.broken = []
        self.floors = {}
        self.obligations = self.discharged = 0
        self.violations = []
        self.known_hits = []
        self.known_rules = {}

    def fail(self, rule, site, where, expected, found, function=None):
        self.fired.setdefault(rule, []).append(site)
        self.details = getattr(self, 'details', [])
        self.details.append((rule, site, where, found))


def controls_c18(rep):
    import c18
    db = FixtureDB()
    sc = Scratch()
    tls = c18.check_storage(db, sc, units=['fixture'], floors=False)
    c18.check_const_queries(db, sc, unit_name='fixture', floors=False)
    c18.check_deny(db, sc, units=['fixture'])
    c18.check_escape(db, sc, tls, units=['fixture'])
    for rule, must in (('E.static', 'last'), ('E.tls.dtor', 'pool'), ('E.const.write', 'Get_t'), ('E.deny', 'gsl_rng_env_setup'), ('E.escape', 'escaping_scratch'), ('E.escape', 'view@')):
        hit = any(must in s for s in sc.fired.get(rule, []))
        rep.fixture('%s on fixtures/bad_shapes.cpp (%s)' % (rule, must), hit)
    sc2 = Scratch()
    c18.check_const_queries(db, sc2, unit_name='fixture', floors=False, record='squids::Locked')
    fired = sc2.fired.get('E.const.write', [])
    rep.fixture('E.const.write on lock-guarded mutable data: unlocked access flagged', any('bad' in s_ and 'unlocked' in s_ for s_ in fired))
    rep.fixture('E.const.write on lock-guarded mutable data: escaping reference flagged', any('leak' in s_ and 'escape' in s_ for s_ in fired))
    rep.fixture('E.const.write silent on access under a scoped lock', not any('good' in s_ for s_ in fired))
    rep.fixture('E.const.write on object storage handed to a writer through a smart pointer member', any('through_scratch' in s_ for s_ in fired))
    rep.fixture('E.const.write silent when the callee takes a pointer to const', not any('reads_scratch' in s_ for s_ in fired))
    # and the fixture's harmless const query must stay quiet
    rep.fixture('E.const.write silent on the harmless fixture query Get_x', not any('Get_x' in s for s in sc.fired.get('E.const.write', [])))


def controls_c15(rep):
    import respair
    db = FixtureDB()
    findings, stats = respair.analyse_units(db, ['fixture'])
    hit = any('leak_on_throw' in f[0] and f[1] == 'm' and 'throw' in f[4] for f in findings)
    rep.fixture('F.pair on fixtures/bad_shapes.cpp (leak_on_throw)', hit)


def controls_own(rep, db=None):
    """the invariant/accounting predicates must reject hand-made bad ownership states"""
    from own import World, Choices, mk_vector, check_invariants, OwnHooks, Violation
    from interp import Ptr, NULL, Interp
    # an allocation failure inside a function declared noexcept cannot propagate
    fdb = FixtureDB()
    wn = World(Choices(()), 1)
    itn = Interp(fdb.unit('fixture'), OwnHooks(wn))
    got = None
    try:
        itn.call(fdb.one('fixture', 'squids::fixture::first_of_scratch', 1), None, [4])
    except Violation as v:
        got = v.rule
    except Exception as e:
        got = 'other: %s' % type(e).__name__
    rep.fixture('B.exc.terminate on fixtures/bad_shapes.cpp (first_of_scratch: allocation failure inside a noexcept function)', got == 'B.exc.terminate')
    if db is not None:
        # a block that is not optimally aligned, once in the cache, is handed out unchanged by the library's allocator
        wa = World(Choices(()))
        pv = mk_vector(wa, 'p', 'plain', 2, 'p')
        blk = wa.block_of(pv.value.fields['components'].value)
        blk.cached_offset = 0
        ha = OwnHooks(wa)
        ita = Interp(db.unit('SUNalg'), ha)
        got = None
        try:
            ha.served_misaligned(ita, db.unit('SUNalg').by_name['squids::SU_vector::alloc_aligned'][0], blk, 2)
        except Violation as v:
            got = v.rule
        except Exception as e:
            got = 'other: %s: %s' % (type(e).__name__, e)
        rep.fixture('B.align: a misaligned block placed in the cache is seen to be handed out by alloc_aligned', got == 'B.align')
    w = World(Choices(()))
    a = mk_vector(w, 'a', 'owned', 2, 'a')
    b = mk_vector(w, 'b', 'owned', 2, 'b')
    # b claims a's block; b's own block is now unowned
    b.value.fields['components'].value = a.value.fields['components'].value
    out = check_invariants(w, [('a', a), ('b', b)])
    rep.fixture('B.inv rejects two vectors owning one block', any(r == 'B.inv' and 'owned by both' in m for r, m in out))
    rep.fixture('B.acc rejects a live block nobody owns', any(r == 'B.acc' and 'leak' in m for r, m in out))
    w2 = World(Choices(()))
    c = mk_vector(w2, 'c', 'owned', 3, 'c')
    blk = w2.block_of(c.value.fields['components'].value)
    c.value.fields['isinit'].value = 0  # flag dropped, size and pointer kept
    out2 = check_invariants(w2, [('c', c)])
    rep.fixture('B.inv.empty rejects a flag-less vector that keeps size and pointer', any(r == 'B.inv.empty' for r, m in out2))
    w3 = World(Choices(()))
    d = mk_vector(w3, 'd', 'owned', 2, 'd')
    w3.block_of(d.value.fields['components'].value).state = 'cached'
    out3 = check_invariants(w3, [('d', d)])
    rep.fixture('B.acc rejects a block both cached and owned', any(r == 'B.acc' and 'both cached and owned' in m for r, m in out3))
    e = mk_vector(w3, 'e', 'ext', 2, 'e')
    w3.block_of(e.value.fields['components'].value).state = 'freed'
    out4 = check_invariants(w3, [('d', d), ('e', e)])
    rep.fixture('B.inv rejects released user storage', any('user storage' in m for r, m in out4))
