"""C05 — expectation values are Schroedinger-picture traces; x-interpolation is linear.
Engine D + C: the seven query functions of the solver are abstractly interpreted on a solver object
with symbolic stored state, symbolic node positions X0<X1<X2 and an uninterpreted H0; the query
position is placed in every order relation to the nodes (below, on each node, inside each interval,
above).  The returned value is compared with Tr(rho . Evolve(op, H0(.), t-t_ini)) built from the
evolution and trace tables of C02/C03: H0 evaluated at the node (node-indexed form) or at the query x
itself (interpolating forms), weights (x-x_k)/(x_{k+1}-x_k) on a pair of nodes that brackets x; an x
outside the node range must raise an error (both sides); the averaging overloads must reduce to the
plain ones on the branch where no pair exceeds the scale."""
from astdb import AnalysisBroken
from interp import Interp, Obj, Cell, Ptr, Region, Thrown, Unsupported, ITE, Cond, Opaque
from kernels import make_suv, flatten_ite
from poly import Poly, apply_func
from stdmodel import make_vector, vec_parts
import squidsmodel as sm
import proxies
import c02

NX, NSUN, NRHOS, NSC = 3, 2, 2, 1
NRH = 1


def evolution_table(db, d):
    a, _ = make_suv('A', d, 'a')
    h, _ = make_suv('H', d, 'b')
    proxy, ef = proxies.build_proxy(db, 'Evolution', a, h, proxies.ProxyHooks(), t=Poly.var('t'))
    tgt, hooks, cf = proxies.run_compute(db, 'Evolution', proxy, d)
    return [tgt.cell(k).value for k in range(d * d)]


def trace_table(db, d):
    f = db.one('instantiate', 'squids::SUTrace<0U>', 2)
    a, _ = make_suv('A', d, 'a')
    b, _ = make_suv('B', d, 'b')
    it = Interp(db.unit('instantiate'), proxies.ProxyHooks())
    return it.call(f, None, [a, b])


def oracle_value(db, d, rho, op, h0, tau):
    """Tr(rho . exp(i h0 tau) op exp(-i h0 tau)) with rho, op, h0 lists of Poly"""
    ev = evolution_table(db, d)
    m = {('v', 't'): tau}
    for k in range(d * d):
        m[('v', 'a%d' % k)] = op[k]
        m[('v', 'b%d' % k)] = h0[k]
    evolved = [p.subst(m) for p in ev]
    tr = trace_table(db, d)
    m2 = {}
    for k in range(d * d):
        m2[('v', 'a%d' % k)] = rho[k]
        m2[('v', 'b%d' % k)] = evolved[k]
    return tr.subst(m2)


def setup(db, classes, tag='', statics=None, nsun=NSUN):
    hooks = sm.SquidsHooks(nsun, order=sm.OrderOracle(classes, witness=getattr(classes, 'witness', None)))
    hooks.solver_tag = tag
    hooks.statics = statics
    this, hooks, it = sm.new_solver(db, NX, nsun, NRHOS, NSC, hooks=hooks)
    xv = this.value.fields['x'].value
    for k in range(NX):
        xv.fields['data'].value.cell(k).value = Poly.var('X%d' % k)
    this.value.fields['t'].value = Poly.var('Tnow')
    this.value.fields['t_ini'].value = Poly.var('Tini')
    return this, hooks, it


def rho_syms(ei, i, d=NSUN):
    size_rho = d * d
    size_state = NRHOS * size_rho + NSC
    base = ei * size_state + i * size_rho
    return [Poly.var('S%d' % (base + k)) for k in range(size_rho)]


def h0_syms(xkey, nrh, d=NSUN):
    return [Poly.var('H0[%s,%d]_%d' % (xkey, nrh, k)) for k in range(d * d)]


def op_cell(nsun=NSUN):
    return make_suv('op', nsun, 'o')


class Classes(list):
    """equivalence classes of the order, optionally with a concrete instance (symbol -> number)"""
    witness = None


NODE_VALUES = [1.5, 2.75, 7.0, 11.0, 12.5, 20.0]


def with_witness(classes, q):
    from mpmath import mpf
    c = Classes(classes)
    c.witness = {'X%d' % k: mpf(NODE_VALUES[k]) for k in range(NX)}
    c.witness['Q'] = q
    return c


def positions():
    """order relations of the query Q to the nodes: (label, classes, kind, admissible brackets).  The positions outside
    the node range come in two concrete flavours: one unit in the last place beyond the end node, and far beyond it."""
    from mpmath import mpf
    out = []
    nodes = ['X%d' % k for k in range(NX)]
    lo, hi = mpf(NODE_VALUES[0]), mpf(NODE_VALUES[NX - 1])
    below = [['Q']] + [[n] for n in nodes]
    out.append(('below (one ulp)', with_witness(below, lo * (1 - mpf(2) ** -53)), 'outside', []))
    out.append(('below', with_witness(below, lo - 1), 'outside', []))
    for k in range(NX):
        cl = [[n] for n in nodes]
        cl[k] = [nodes[k], 'Q']
        br = [b for b in (k - 1, k) if 0 <= b <= NX - 2]
        out.append(('on node %d' % k, cl, 'inside', br))
        if k < NX - 1:
            cl2 = [[n] for n in nodes[:k + 1]] + [['Q']] + [[n] for n in nodes[k + 1:]]
            out.append(('between %d and %d' % (k, k + 1), cl2, 'inside', [k]))
    above = [[n] for n in nodes] + [['Q']]
    out.append(('above (one ulp)', with_witness(above, hi * (1 + mpf(2) ** -52)), 'outside', []))
    out.append(('above', with_witness(above, hi + 1), 'outside', []))
    return out


def no_avg_leaf(v):
    """value of a guarded result on the branch where no averaging guard fires (all |phase|>|scale| false)"""
    while isinstance(v, ITE):
        c = v.cond
        if isinstance(c, Cond) and c.kind == 'cmp' and c.op == '>':
            v = v.b
        elif isinstance(c, Cond) and c.kind == 'cmp' and c.op == '<=':
            v = v.a
        else:
            raise AnalysisBroken('unexpected guard %r in an averaged expectation value' % (c,))
    return v


def check_node_forms(db, rep):
    unit = db.unit('SQuIDS')
    tau = Poly.var('Tnow') - Poly.var('Tini')
    for nparams in (3, 5):
        f = db.one('SQuIDS', 'squids::SQuIDS::GetExpectationValue', nparams)
        rep.fn(f['name'] + ('(op,irho,ix)' if nparams == 3 else '(op,irho,ix,scale,avr)'))
        for ix in range(NX):
            this, hooks, it = setup(db, [['X0'], ['X1'], ['X2']])
            opc, _ = op_cell()
            args = [opc.value, NRH, ix]
            if nparams == 5:
                args += [Poly.var('scale'), make_vector('avr', NSUN * (NSUN - 1) // 2, lambda k: 0)]
            site = 'GetExpectationValue/%d/ix=%d' % (nparams, ix)
            try:
                r = it.call(f, this, args)
            except Thrown as t:
                rep.fail('D.expect', site, unit.loc(t.node), 'expectation value at node %d' % ix, 'throw: %s' % t.what, f['name'])
                continue
            if nparams == 5:
                r = no_avg_leaf(r)
            want = oracle_value(db, NSUN, rho_syms(ix, NRH), [Poly.var('o%d' % k) for k in range(NSUN * NSUN)], h0_syms(sm.pkey(Poly.var('X%d' % ix)), NRH), tau)
            if isinstance(r, Poly) and r.equals(want):
                rep.ok('D.expect')
                if ix == 1 and nparams == 3:
                    rep.sample('D.expect', 'GetExpectationValue(op,1,1) = %s' % str(r)[:260])
            else:
                diffs = r.diff_terms(want) if isinstance(r, Poly) else [repr(r)[:200]]
                rep.fail('D.expect', site, unit.loc(f), 'Tr(rho[%d][%d] . Evolve(op, H0(x[%d],%d), t-t_ini))' % (ix, NRH, ix, NRH), '; '.join(diffs), f['name'])


def interp_oracle(db, k, kind):
    """expected result for bracket k; kind: 'state' -> list of Poly, 'value' -> Poly"""
    Q = Poly.var('Q')
    f2 = (Q - Poly.var('X%d' % k)).div(Poly.var('X%d' % (k + 1)) - Poly.var('X%d' % k))
    f1 = Poly.const(1) - f2
    ra, rb = rho_syms(k, NRH), rho_syms(k + 1, NRH)
    mix = [f1 * ra[j] + f2 * rb[j] for j in range(NSUN * NSUN)]
    if kind == 'state':
        return mix
    tau = Poly.var('Tnow') - Poly.var('Tini')
    return oracle_value(db, NSUN, mix, [Poly.var('o%d' % j) for j in range(NSUN * NSUN)], h0_syms(sm.pkey(Q), NRH), tau)


def check_interpolating(db, rep):
    unit = db.unit('SQuIDS')
    specs = [('GetIntermediateState', 2, None, 'state'),
             ('GetExpectationValueD', 3, None, 'value'),
             ('GetExpectationValueD', 4, lambda f: 'expectationValueDBuffer' in f['params'][3]['t'], 'value'),
             ('GetExpectationValueD', 5, None, 'avg'),
             ('GetExpectationValueD', 6, None, 'avg')]
    n_range = 0
    for name, npar, pred, kind in specs:
        f = db.one('SQuIDS', 'squids::SQuIDS::' + name, npar, pred)
        label = '%s/%d' % (name, npar)
        rep.fn('%s (%d parameters)' % (f['name'], npar))
        lower_ok = upper_ok = True
        for pos, classes, where_kind, brackets in positions():
            this, hooks, it = setup(db, classes)
            opc, _ = op_cell()
            Q = Poly.var('Q')
            if name == 'GetIntermediateState':
                args = [NRH, Q]
            else:
                args = [opc, NRH, Q]
                if npar in (4, 6):
                    fb = db.one('SQuIDS', 'squids::SQuIDS::expectationValueDBuffer::expectationValueDBuffer', 1, lambda g: g['params'][0]['t'] in ('unsigned int', 'const unsigned int'))
                    buf = Cell(Obj('squids::SQuIDS::expectationValueDBuffer', None, 'buf'), None, 0, 'buf')
                    it.call(fb, buf, [NSUN])
                    args.append(buf)
                if npar in (5, 6):
                    args += [Poly.var('scale'), make_vector('avr', NSUN * (NSUN - 1) // 2, lambda k: 0)]
            site = '%s/%s' % (label, pos)
            threw = None
            r = None
            try:
                r = it.call(f, this, args)
            except Thrown as t:
                threw = t
            if where_kind == 'outside':
                if threw is None:
                    if pos == 'below':
                        lower_ok = False
                    else:
                        upper_ok = False
                continue
            if threw is not None:
                rep.fail('D.bracket', site, unit.loc(threw.node), 'a value for x inside the node range', 'throw: %s' % threw.what, f['name'])
                continue
            ok = False
            detail = ''
            for k in brackets:
                if kind == 'state':
                    want = interp_oracle(db, k, 'state')
                    p = r.fields['components'].value if isinstance(r, Obj) else None
                    got = [p.region.cell(p.off + j).value for j in range(NSUN * NSUN)] if p is not None else None
                    if got is not None and all(isinstance(g, Poly) and g.equals(w) for g, w in zip(got, want)):
                        ok = True
                else:
                    want = interp_oracle(db, k, 'value')
                    rv = no_avg_leaf(r) if kind == 'avg' else r
                    if isinstance(rv, Poly) and rv.equals(want):
                        ok = True
                    elif isinstance(rv, Poly):
                        detail = '; '.join(rv.diff_terms(want, limit=3))
            if ok:
                rep.ok('D.expect')
                rep.ok('D.bracket')
                if pos.startswith('between 0') and npar == 3:
                    rep.sample('D.bracket', '%s with X0<Q<X1: nodes (0,1), weights (X1-Q)/(X1-X0), (Q-X0)/(X1-X0), H0 at Q' % name)
            else:
                rep.fail('D.expect', site, unit.loc(f),
                         'convex combination of the bracketing nodes %s with weight (x-x_k)/(x_{k+1}-x_k), H0 evaluated at x itself' % brackets,
                         detail or 'different nodes, weights or H0 argument', f['name'])
        n_range += 1
        if lower_ok and upper_ok:
            rep.ok('C.range.both')
        else:
            side = [] if lower_ok else ['x below the first node is answered (extrapolated) instead of rejected']
            side += [] if upper_ok else ['x above the last node is answered instead of rejected']
            rep.fail('C.range.both', '%s(%d)' % (name, npar), unit.loc(f), 'an x outside [x_first, x_last] raises an error on both sides', '; '.join(side), f['name'])
    rep.floor('C.range.both', n_range, 5)


def check_range_on_built_grid(db, rep):
    """the range clause again, with the grid put in place by Set_xrange(a,b,"lin") itself (whatever the solver records about
    a grid it built - spacing, uniformity - is then in force) and x less than one node spacing outside either end"""
    from mpmath import mpf
    unit = db.unit('SQuIDS')
    fset = db.one('SQuIDS', 'squids::SQuIDS::Set_xrange', 3)
    specs = [('GetIntermediateState', 2, None), ('GetExpectationValueD', 3, None),
             ('GetExpectationValueD', 4, lambda f: 'expectationValueDBuffer' in f['params'][3]['t']),
             ('GetExpectationValueD', 5, None), ('GetExpectationValueD', 6, None)]
    n = 0
    for name, npar, pred in specs:
        f = db.one('SQuIDS', 'squids::SQuIDS::' + name, npar, pred)
        for label, q, classes in (('half a spacing above the last node', mpf('8.375'), [['a'], ['b'], ['Q']]),
                                  ('half a spacing below the first node', mpf('0.125'), [['Q'], ['a'], ['b']]),
                                  ('a tenth of a spacing above the last node', mpf('7.275'), [['a'], ['b'], ['Q']])):
            n += 1
            c = Classes(classes)
            c.witness = {'a': mpf('1.5'), 'b': mpf('7.0'), 'Q': q}  # nodes 1.5, 4.25, 7.0
            this, hooks, it = setup(db, c)
            hooks.assume = lambda it_, cond, node: None
            try:
                it.call(fset, this, [Poly.var('a'), Poly.var('b'), Opaque('string', 'lin')])
            except Thrown as t:
                raise AnalysisBroken('Set_xrange on the concrete instance throws: %s' % t.what)
            opc, _ = op_cell()
            args = [NRH, Poly.var('Q')] if name == 'GetIntermediateState' else [opc, NRH, Poly.var('Q')]
            if npar in (4, 6):
                fb = db.one('SQuIDS', 'squids::SQuIDS::expectationValueDBuffer::expectationValueDBuffer', 1, lambda g: g['params'][0]['t'] in ('unsigned int', 'const unsigned int'))
                buf = Cell(Obj('squids::SQuIDS::expectationValueDBuffer', None, 'buf'), None, 0, 'buf')
                it.call(fb, buf, [NSUN])
                args.append(buf)
            if npar in (5, 6):
                args += [Poly.var('scale'), make_vector('avr', NSUN * (NSUN - 1) // 2, lambda k: 0)]
            try:
                it.call(f, this, args)
                rep.fail('C.range.both', '%s(%d)/grid from Set_xrange/%s' % (name, npar, label), unit.loc(f),
                         'an x outside [x_first, x_last] raises an error', 'x = %s is answered on the grid 1.5, 4.25, 7.0' % q, f['name'])
            except Thrown:
                rep.ok('C.range.both')
    rep.floor('C.range.built', n, 15)


def check_history(db, rep):
    """a query is a function of the solver it is asked of and of its arguments: what the scratch buffer (the explicit one,
    or the per-thread one inside the short overloads) was used for before - by another solver object whose H0 differs,
    at the same x or at another one - must not show in the answer"""
    unit = db.unit('SQuIDS')
    specs = [('GetExpectationValueD', 3, None, 'value'),
             ('GetExpectationValueD', 4, lambda f: 'expectationValueDBuffer' in f['params'][3]['t'], 'value'),
             ('GetExpectationValueD', 5, None, 'avg'),
             ('GetExpectationValueD', 6, None, 'avg')]
    nodes = ['X%d' % k for k in range(NX)]
    n = 0
    for name, npar, pred, kind in specs:
        f = db.one('SQuIDS', 'squids::SQuIDS::' + name, npar, pred)
        priors = ['same x', 'another x'] + (['same x, a solver of another dimension'] if npar in (3, 5) else [])
        for prior in priors:
            n += 1
            site = '%s/%d/after a query on another solver at %s' % (name, npar, prior)
            classes = [[nodes[0], 'Qp'], ['Q']] + [[m] for m in nodes[1:]] if prior == 'another x' else [[nodes[0]], ['Q']] + [[m] for m in nodes[1:]]
            statics = {}
            nsun_b = NSUN + 1 if 'dimension' in prior else NSUN
            other, hooks_b, it_b = setup(db, classes, tag="'", statics=statics, nsun=nsun_b)
            this, hooks_a, it_a = setup(db, classes, tag='', statics=statics)
            numeric_prior = nsun_b != NSUN
            if numeric_prior:
                # only what the earlier query leaves behind matters, not its value: numbers keep the larger dimension cheap
                hooks_b.numeric_terms = True
                for k in range(hooks_b.system_region.size):
                    hooks_b.system_region.cell(k).value = Poly.const(0.25 + 0.0625 * k)
                other.value.fields['t'].value = Poly.const(1.5)
                other.value.fields['t_ini'].value = Poly.const(0)
            buf = None
            if npar in (4, 6):
                fb = db.one('SQuIDS', 'squids::SQuIDS::expectationValueDBuffer::expectationValueDBuffer', 1, lambda g: g['params'][0]['t'] in ('unsigned int', 'const unsigned int'))
                buf = Cell(Obj('squids::SQuIDS::expectationValueDBuffer', None, 'buf'), None, 0, 'buf')
                it_b.call(fb, buf, [NSUN])

            def args_for(q, nsun=NSUN):
                if nsun != NSUN:
                    opc, _ = make_suv('op', nsun, 'o', content=lambda k: Poly.const(0.5 - 0.03125 * k))
                else:
                    opc, _ = op_cell(nsun)
                a = [opc, NRH, q] + ([buf] if buf is not None else [])
                if npar in (5, 6):
                    a += [Poly.const(1e30) if nsun != NSUN else Poly.var('scale'), make_vector('avr', nsun * (nsun - 1) // 2, lambda k: 0)]
                return a
            try:
                it_b.call(f, other, args_for(Poly.var('Qp') if prior == 'another x' else Poly.var('Q'), nsun_b))
                r = it_a.call(f, this, args_for(Poly.var('Q')))
            except Thrown as t:
                rep.fail('D.history', site, unit.loc(t.node), 'the value a fresh buffer gives', 'throw: %s' % t.what, f['name'])
                continue
            want = interp_oracle(db, 0, 'value')
            rv = no_avg_leaf(r) if kind == 'avg' else r
            import guarded
            if isinstance(rv, (Poly, ITE)) and guarded.same(rv, want):
                rep.ok('D.history')
            else:
                detail = '; '.join(rv.diff_terms(want, limit=3)) if isinstance(rv, Poly) else guarded.explain(rv, want)
                rep.fail('D.history', site, unit.loc(f), 'the value a fresh buffer gives: interpolated state of this solver, H0 of this solver at x',
                         'the answer depends on the earlier use of the buffer: ' + detail[:300], f['name'])
    # the flags of the averaging overloads are an output of every call: a second query at the same point (another
    # operator, a fresh flag vector) writes them again
    for name, npar, pred, kind in specs:
        if npar not in (5, 6):
            continue
        n += 1
        f = db.one('SQuIDS', 'squids::SQuIDS::' + name, npar, pred)
        site = '%s/%d/flags after an earlier query of the same solver at the same x' % (name, npar)
        classes = [[nodes[0]], ['Q']] + [[m] for m in nodes[1:]]
        this, hooks_a, it_a = setup(db, classes, tag='', statics={})
        buf = None
        if npar == 6:
            fb = db.one('SQuIDS', 'squids::SQuIDS::expectationValueDBuffer::expectationValueDBuffer', 1, lambda g: g['params'][0]['t'] in ('unsigned int', 'const unsigned int'))
            buf = Cell(Obj('squids::SQuIDS::expectationValueDBuffer', None, 'buf'), None, 0, 'buf')
            it_a.call(fb, buf, [NSUN])
        npair = NSUN * (NSUN - 1) // 2
        try:
            for rnd in (0, 1):
                opc, _ = make_suv('op%d' % rnd, NSUN, 'o' if rnd else 'p')
                avr = make_vector('avr%d' % rnd, npair, lambda k: 7)  # 7: a value no call writes
                it_a.call(f, this, [opc, NRH, Poly.var('Q')] + ([buf] if buf is not None else []) + [Poly.var('scale'), avr])
        except Thrown as t:
            rep.fail('D.history', site, unit.loc(t.node), 'flags written by the call', 'throw: %s' % t.what, f['name'])
            continue
        o, reg, cnt = vec_parts(avr)
        stale = [k for k in range(npair) if reg.cell(k).value == 7]
        if stale:
            rep.fail('D.history', site, unit.loc(f), 'every flag of the vector handed to the call is written by it',
                     'flags %s keep what the caller had in them: the call did not produce them' % stale, f['name'])
        else:
            rep.ok('D.history')
    rep.floor('D.history', n, 12)


def run(db, rep, tier):
    rep.trusted += ['clang 14 AST of /repo sources', 'sqdump extractor + abstract interpreter',
                    'evolution and trace kernels: their tables are C02/C03 obligations, reused here as the meaning of Evolve and of the scalar product',
                    'std::lower_bound / std::distance on a sorted range (callee summary over an explicit order relation between the query and the nodes)',
                    'H0 uninterpreted, indexed by its arguments; configuration nx=3, nsun=2, nrhos=2, rho index 1']
    rep.declined += ['numerical value of the trace (rounding)']
    check_node_forms(db, rep)
    check_interpolating(db, rep)
    check_range_on_built_grid(db, rep)
    check_history(db, rep)
    # the queries turn the stored state back by t - t_ini: the clock must hold the elapsed time (its handling in
    # Evolve is C10's rule D.clock, repeated here), and the averaging overloads must use, in every dimension, the same
    # pair phases as the plain table (C11's rules A.avg.term / A.avg.thresh, repeated here)
    import c10
    import c11
    c10.check_clock(db, rep)
    c10.check_moves(db, rep)
    c11.check_avg(db, rep)
