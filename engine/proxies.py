"""Building proxy objects through the library's own public entry points (so that guards and
constructor wiring are part of what is analysed) and running their compute kernels."""
from astdb import AnalysisBroken
from interp import Interp, Obj, Cell, Ptr, Region, Thrown, Unsupported, Ref
from kernels import KernelHooks, make_suv, target_wrapper
from poly import Poly

UNIT = 'instantiate'
D = 'squids::detail::'
CSUV = 'const squids::SU_vector &'

WRAPPERS = ('AssignWrapper', 'IncrementWrapper', 'DecrementWrapper')  # roles: what `+=` on the target means
_wq = {}


def wrapper_type(db, role):
    """the fully qualified type that plays the role today (an alias or a merged template is seen through): read off the
    name of the driver's explicit instantiation probe_<role><W>"""
    key = (id(db), role)
    if key not in _wq:
        pre = 'sqv_driver::probe_%s<' % role
        fs = [f for f in db.unit(UNIT).functions if f['name'].startswith(pre)]
        if len(fs) != 1 or not fs[0].get('targs'):
            raise AnalysisBroken('wrapper probe for %s not found in the driver unit' % role)
        _wq[key] = fs[0]['targs'][0]
    return _wq[key]


def assign_proxy_fn(db, role, pcls):
    return db.one(UNIT, 'squids::SU_vector::assignProxy<%s, %s>' % (wrapper_type(db, role), pcls))

# operation -> (proxy class, entry point name, entry predicate, arity of vectors)
OPS = {
    'Addition': (D + 'AdditionProxy', 'squids::SU_vector::operator+',
                 lambda f: len(f['params']) == 1 and f['params'][0]['t'] == CSUV and f.get('refq') == '&'),
    'Subtraction': (D + 'SubtractionProxy', 'squids::SU_vector::operator-',
                    lambda f: len(f['params']) == 1 and f['params'][0]['t'] == CSUV and f.get('refq') == '&'),
    'Negation': (D + 'NegationProxy', 'squids::SU_vector::operator-',
                 lambda f: len(f['params']) == 0 and f.get('refq') == '&'),
    'Multiplication': (D + 'MultiplicationProxy', 'squids::SU_vector::operator*',
                       lambda f: len(f['params']) == 1 and f['params'][0]['t'] in ('double', 'const double') and f.get('refq') == '&'),
    'iCommutator': (D + 'iCommutatorProxy', 'squids::iCommutator<void>', lambda f: len(f['params']) == 2),
    'ACommutator': (D + 'ACommutatorProxy', 'squids::ACommutator<void>', lambda f: len(f['params']) == 2),
    'Evolution': (D + 'EvolutionProxy', 'squids::SU_vector::Evolve',
                  lambda f: len(f['params']) == 2 and f['params'][0]['t'] == CSUV),
    'FastEvolution': (D + 'FastEvolutionProxy', 'squids::SU_vector::Evolve',
                      lambda f: len(f['params']) == 1 and f['params'][0]['t'].startswith('const double *')),
    'ElementwiseProduct': (D + 'BinaryElementwiseOpProxy<std::multiplies<double>>', 'squids::ElementwiseProduct<void>',
                           lambda f: len(f['params']) == 2 and all(p['t'] == CSUV for p in f['params'])),
}
ELEMENTWISE = ('Addition', 'Subtraction', 'Negation', 'Multiplication', 'ElementwiseProduct')


class ProxyHooks(KernelHooks):
    def external_call(self, it, name, node, args, this_cell):
        if name.startswith('std::multiplies<double>::operator()'):
            a, b = it.eval(args[0]), it.eval(args[1])
            if isinstance(a, Cell):
                a = a.value
            if isinstance(b, Cell):
                b = b.value
            return it.to_poly(a) * it.to_poly(b)
        if name.startswith('std::multiplies<double>::multiplies'):
            return Obj('std::multiplies<double>')
        return KernelHooks.external_call(self, it, name, node, args, this_cell)


def entry(db, op):
    cls, name, pred = OPS[op]
    return db.one(UNIT, name, None, pred)


def compute_fn(db, op, wrapper, aligned):
    cls = OPS[op][0]
    name = '%s::compute<squids::detail::vector_wrapper<%s>, %s>' % (cls, wrapper_type(db, wrapper), 'true' if aligned else 'false')
    return db.one(UNIT, name)


def build_proxy(db, op, a_cell, b_cell, hooks, scalar=None, buf=None, t=None):
    """interpret the public entry point of `op` on abstract operands; returns the proxy object (Obj).
    For Evolution: a_cell is the evolving state (*this) and b_cell the operator, as in A.Evolve(H,t)."""
    unit = db.unit(UNIT)
    f = entry(db, op)
    it = Interp(unit, hooks)
    if op in ('Addition', 'Subtraction'):
        r = it.call(f, a_cell, [b_cell])
    elif op == 'Negation':
        r = it.call(f, a_cell, [])
    elif op == 'Multiplication':
        r = it.call(f, a_cell, [scalar if scalar is not None else Poly.var('s')])
    elif op in ('iCommutator', 'ACommutator', 'ElementwiseProduct'):
        r = it.call(f, None, [a_cell, b_cell])
    elif op == 'Evolution':
        r = it.call(f, a_cell, [b_cell, t if t is not None else Poly.var('t')])
    elif op == 'FastEvolution':
        r = it.call(f, a_cell, [buf])
    else:
        raise AnalysisBroken('unknown operation ' + op)
    if not isinstance(r, Obj):
        raise AnalysisBroken('entry point of %s did not produce a proxy object' % op)
    return r, f


def run_compute(db, op, proxy, d, wrapper='AssignWrapper', aligned=False, hooks=None, target=None):
    """interpret P::compute<vector_wrapper<W>,Aligned>(target); returns (target region, hooks)"""
    unit = db.unit(UNIT)
    f = compute_fn(db, op, wrapper, aligned)
    hooks = hooks or ProxyHooks()
    if target is None:
        target = Region('target', d * d, lambda k: Poly.var('T%d' % k), 'heap')
    hooks.track_reads_of = target
    tw = target_wrapper(unit, d, target, wrapper_type(db, wrapper))
    it = Interp(unit, hooks)
    it.call(f, Cell(proxy, None, 0, 'proxy'), [tw])
    return target, hooks, f
