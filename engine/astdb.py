"""Extraction step: run the sqdump plugin over /repo's library TUs and /verif's driver TUs,
load the compact ASTs and index them.

The extraction is re-done whenever any input (source under /repo/include, /repo/src, the driver
TUs, the plugin) changed: the cache key is a hash over the *contents* of those files, so every
check invocation analyses /repo's current working tree.
"""
import hashlib
import json
import os
import subprocess
import sys
import time
from concurrent.futures import ThreadPoolExecutor

VERIF = os.path.dirname(os.path.dirname(os.path.abspath(__file__)))
REPO = os.environ.get('SQV_REPO', '/repo')
BUILD = os.path.join(VERIF, 'build')
PLUGIN = os.path.join(BUILD, 'sqdump.so')
CACHE = os.environ.get('SQV_CACHE') or BUILD  # extraction / exploration caches (variant runs in tools/ use their own)

LIB_TUS = ['src/const.cpp', 'src/SUNalg.cpp', 'src/SQuIDS.cpp', 'src/MatrixExp.cpp']
DRIVER_TUS = ['driver/instantiate.cpp', 'driver/cache_shared.cpp']


class AnalysisBroken(Exception):
    """the analysis cannot decide (exit 2): vanished anchor, unsupported construct, extraction failure"""


def build_flags():
    """flags of the real build, read from /repo's Makefile via `make -n -B` (falls back to the
    documented default); -std is stated explicitly; the compiler is clang for the plugin."""
    std = '-std=c++11'
    inc = ['-I' + os.path.join(REPO, 'include')]
    defs = []
    try:
        out = subprocess.run(['make', '-n', '-B', '-C', REPO], capture_output=True, text=True, timeout=30).stdout
        for line in out.splitlines():
            if 'src/SUNalg.cpp' in line and ' -c ' in line:
                for tok in line.split():
                    if tok.startswith('-std='):
                        std = tok
                    elif tok.startswith('-D') or tok.startswith('-U'):
                        defs.append(tok)
                    elif tok.startswith('-I') and tok != '-Iinclude':
                        p = tok[2:]
                        inc.append('-I' + (p if os.path.isabs(p) else os.path.join(REPO, p)))
    except Exception:
        pass
    return [std] + inc + defs


def _hash_inputs(extra_files=()):
    h = hashlib.sha256()
    roots = [os.path.join(REPO, 'include'), os.path.join(REPO, 'src')]
    files = []
    for r in roots:
        for dp, dn, fn in os.walk(r):
            for f in fn:
                files.append(os.path.join(dp, f))
    files += [os.path.join(VERIF, t) for t in DRIVER_TUS]
    files += [PLUGIN, os.path.join(REPO, 'Makefile'), os.path.join(REPO, 'settings.mk')]
    files += list(extra_files)
    for f in sorted(files):
        h.update(f.encode())
        try:
            with open(f, 'rb') as fh:
                h.update(fh.read())
        except OSError:
            h.update(b'<missing>')
    return h.hexdigest()[:20]


def run_plugin(src, out, flags, prefixes=('/repo/', '/verif/')):
    cmd = ['clang++'] + flags + ['-fsyntax-only', '-Wno-everything', '-fplugin=' + PLUGIN,
                                 '-Xclang', '-plugin', '-Xclang', 'sqdump',
                                 '-Xclang', '-plugin-arg-sqdump', '-Xclang', 'out=' + out]
    for p in prefixes:
        cmd += ['-Xclang', '-plugin-arg-sqdump', '-Xclang', 'prefix=' + p]
    cmd.append(src)
    r = subprocess.run(cmd, capture_output=True, text=True)
    if r.returncode != 0 or not os.path.exists(out):
        raise AnalysisBroken('extraction failed for %s:\n%s' % (src, (r.stderr or r.stdout)[-2000:]))


def ensure_plugin():
    src = os.path.join(VERIF, 'tools', 'sqdump.cc')
    if os.path.exists(PLUGIN) and os.path.getmtime(PLUGIN) >= os.path.getmtime(src):
        return
    os.makedirs(BUILD, exist_ok=True)
    cxxflags = subprocess.run(['llvm-config-14', '--cxxflags'], capture_output=True, text=True).stdout.split()
    cmd = ['clang++'] + cxxflags + ['-fno-rtti', '-fPIC', '-shared', src, '-o', PLUGIN,
                                    '/usr/lib/llvm-14/lib/libclang-cpp.so.14', '/usr/lib/llvm-14/lib/libLLVM-14.so']
    r = subprocess.run(cmd, capture_output=True, text=True)
    if r.returncode != 0:
        raise AnalysisBroken('cannot build sqdump plugin:\n' + r.stderr[-3000:])


def extract(units=None):
    """returns {unit name: path of json}; units: subset of names ('SUNalg', 'instantiate', ...)"""
    ensure_plugin()
    key = _hash_inputs()
    outdir = os.path.join(CACHE, 'ast', key)
    os.makedirs(outdir, exist_ok=True)
    flags = build_flags()
    jobs = []
    res = {}
    prefixes = (REPO.rstrip('/') + '/', VERIF.rstrip('/') + '/')
    for tu in LIB_TUS:
        name = os.path.splitext(os.path.basename(tu))[0]
        if units is not None and name not in units:
            continue
        res[name] = os.path.join(outdir, name + '.json')
        if not os.path.exists(res[name]):
            jobs.append((os.path.join(REPO, tu), res[name], flags))
    for tu in DRIVER_TUS:
        name = os.path.splitext(os.path.basename(tu))[0]
        if units is not None and name not in units:
            continue
        res[name] = os.path.join(outdir, name + '.json')
        if not os.path.exists(res[name]):
            jobs.append((os.path.join(VERIF, tu), res[name], flags))
    if jobs:
        def work(j):
            tmp = j[1] + '.tmp%d' % os.getpid()
            run_plugin(j[0], tmp, j[2], prefixes)
            os.replace(tmp, j[1])
        with ThreadPoolExecutor(max_workers=8) as ex:
            list(ex.map(work, jobs))
        # drop stale extraction directories (keep the two newest)
        base = os.path.join(CACHE, 'ast')
        dirs = sorted((d for d in os.listdir(base) if os.path.isdir(os.path.join(base, d))),
                      key=lambda d: os.path.getmtime(os.path.join(base, d)))
        for d in dirs[:-2]:
            if d != key:
                import shutil
                shutil.rmtree(os.path.join(base, d), ignore_errors=True)
    return res


def extract_file(src, name, extra_flags=()):
    """extract one extra TU (fixtures); cached by content hash"""
    ensure_plugin()
    key = _hash_inputs([src])
    outdir = os.path.join(CACHE, 'ast', 'fx')
    os.makedirs(outdir, exist_ok=True)
    out = os.path.join(outdir, '%s-%s.json' % (name, key))
    if not os.path.exists(out):
        for f in os.listdir(outdir):
            if f.startswith(name + '-'):
                os.unlink(os.path.join(outdir, f))
        tmp = out + '.tmp%d' % os.getpid()
        run_plugin(src, tmp, build_flags() + list(extra_flags), (REPO.rstrip('/') + '/', VERIF.rstrip('/') + '/'))
        os.replace(tmp, out)
    return out


class Unit:
    def __init__(self, name, path):
        self.name = name
        with open(path) as fh:
            d = json.load(fh)
        self.files = d['files']
        self.functions = d['functions']
        self.globals = d['globals']
        self.records = d['records']
        self.by_id = {}
        self.by_name = {}
        for f in self.functions:
            f['_unit'] = self
            self.by_id[f['id']] = f
            self.by_name.setdefault(f['name'], []).append(f)

    def loc(self, node):
        """'relative/path:line' using the spelling location when the node comes from a macro/include"""
        l = node.get('l')
        if not l:
            return '?'
        f = self.files[l[0]]
        return '%s:%d' % (short_path(f), l[1])

    def file_of(self, node):
        l = node.get('l')
        return self.files[l[0]] if l else None


def short_path(f):
    for p in (REPO.rstrip('/') + '/', VERIF.rstrip('/') + '/'):
        if f.startswith(p):
            return f[len(p):]
    return f


def sig(f):
    ps = ','.join(p['t'] for p in f['params'])
    q = ''
    if f.get('const'):
        q += ' const'
    if f.get('refq'):
        q += ' ' + f['refq']
    return '%s(%s)%s' % (f['name'], ps, q)


class DB:
    """all loaded units; function lookup by id is per unit (ids are addresses inside one clang run)"""

    def __init__(self, units=None):
        t0 = time.time()
        paths = extract(units)
        self.units = {n: Unit(n, p) for n, p in paths.items()}
        for u in self.units.values():
            u.db = self
        self.extract_s = time.time() - t0

    def link(self, name, csig, exclude=None):
        """definition of function `name` with parameter types `csig` in any loaded unit (cross-TU resolution)"""
        if not hasattr(self, '_link'):
            self._link = {}
            for u in self.units.values():
                for f in u.functions:
                    key = (f['name'], ','.join(p['t'] for p in f['params']))
                    self._link.setdefault(key, f)
        return self._link.get((name, csig))

    def unit(self, name):
        if name not in self.units:
            raise AnalysisBroken('unit %s not extracted' % name)
        return self.units[name]

    def find(self, unit, name, nparams=None, pred=None):
        """all definitions called `name` in unit (exact diagnostic name incl. template args)"""
        out = []
        for f in self.unit(unit).by_name.get(name, []):
            if nparams is not None and len(f['params']) != nparams:
                continue
            if pred is not None and not pred(f):
                continue
            out.append(f)
        return out

    def one(self, unit, name, nparams=None, pred=None):
        fs = self.find(unit, name, nparams, pred)
        if len(fs) != 1:
            raise AnalysisBroken('anchor %s (nparams=%s) in unit %s: expected exactly one definition, found %d'
                                 % (name, nparams, unit, len(fs)))
        return fs[0]


def walk(node):
    """pre-order walk over all AST nodes below (and including) node"""
    if node is None:
        return
    stack = [node]
    while stack:
        n = stack.pop()
        if n is None:
            continue
        if isinstance(n, list):
            stack.extend(reversed(n))
            continue
        if not isinstance(n, dict):
            continue
        yield n
        for k in ('decls', 'dims', 'inits', 'params'):
            v = n.get(k)
            if v:
                stack.extend(reversed(v))
        for k in ('range', 'var', 'lhs', 'sub', 'body', 'inc', 'else', 'then', 'cond', 'init', 'condvar', 'size'):
            v = n.get(k)
            if isinstance(v, (dict, list)):
                stack.append(v)
        v = n.get('args')
        if v:
            stack.extend(reversed(v))
        v = n.get('fn')
        if v:
            stack.append(v)
        v = n.get('c')
        if v:
            stack.extend(reversed(v))


def strip(n):
    """skip value-preserving wrappers"""
    while n is not None and n['k'] in ('ParenExpr', 'ImplicitCastExpr', 'ExprWithCleanups', 'MaterializeTemporaryExpr',
                                       'CXXBindTemporaryExpr', 'ConstantExpr', 'SubstNonTypeTemplateParmExpr',
                                       'CXXFunctionalCastExpr', 'CStyleCastExpr', 'CXXStaticCastExpr', 'CXXConstCastExpr'):
        c = n.get('c') or []
        if len(c) != 1:
            break
        n = c[0]
    return n
