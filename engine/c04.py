"""C04 — numerical evolution solves exactly the documented kinetic equation.
Engine D (solver structure; necessary conditions, not the numerical statement): the solver object is
built by abstractly interpreting SQuIDS() and ini(); the GSL callback RHS -> set_system_pointers ->
Derive is interpreted on driver-style buffers with symbolic contents, the user terms being
uninterpreted symbols indexed by the arguments they are called with; for all 32 term-switch
settings and several (nx, nsun, nrhos, nscalars) configurations the derivative buffer is compared
slot by slot with  [C] i[rho,HI] - [N] {GammaRho,rho} + [O] InteractionsRho  and
-[G] s*GammaScalar + [S] InteractionsScalar  (commutator tables from C02).  The flat-array layout
is checked at all binding sites, and the wiring of the GSL driver in Evolve is checked against the
fields it must read."""
from guarded import same, explain
import itertools

from astdb import AnalysisBroken
from interp import Interp, Obj, Cell, Ptr, Region, Thrown, Unsupported, Opaque, NULL, NullDeref
from poly import Poly
import squidsmodel as sm
import c02

SWITCHES = ('CoherentRhoTerms', 'NonCoherentRhoTerms', 'OtherRhoTerms', 'GammaScalarTerms', 'OtherScalarTerms')
CONFIGS_QUICK = [(2, 2, 2, 2), (3, 3, 1, 0)]
CONFIGS_THOROUGH = [(2, 2, 2, 2), (3, 3, 1, 0), (1, 2, 1, 1), (2, 4, 2, 1), (4, 2, 3, 3)]


def set_switches(db, it, this, bits):
    for name, b in zip(SWITCHES, bits):
        f = db.one('SQuIDS', 'squids::SQuIDS::Set_' + name, 1)
        it.call(f, this, [1 if b else 0])


def tables(db, d):
    """(comm, acomm) tables as lists of Poly in a_k, b_k"""
    tc, _, _, _ = c02.kernel_table(db, 'iCommutator', d)
    ta, _, _, _ = c02.kernel_table(db, 'ACommutator', d)
    return [tc.cell(k).value for k in range(d * d)], [ta.cell(k).value for k in range(d * d)]


def subst_table(tab, d, amap, bmap):
    m = {}
    for k in range(d * d):
        m[('v', 'a%d' % k)] = amap(k)
        m[('v', 'b%d' % k)] = bmap(k)
    return [p.subst(m) for p in tab]


def layout_of(this, which, nx, nrhos, nscalars):
    """list of (region, offset) for rho views and scalar pointers"""
    out = []
    for ei in range(nx):
        row = []
        for i in range(nrhos):
            p = sm.rho_vec(this, which, ei, i).fields['components'].value
            row.append((p.region, p.off))
        sc = sm.su_state(this, which, ei).fields['scalar'].value if nscalars > 0 else None
        out.append((row, (sc.region, sc.off) if isinstance(sc, Ptr) and sc.region is not None else None))
    return out


def check_partition(rep, site, where, lay, region, nx, nsun, nrhos, nscalars, fn):
    size_rho = nsun * nsun
    size_state = nrhos * size_rho + nscalars
    ok = True
    for ei in range(nx):
        row, sc = lay[ei]
        for i in range(nrhos):
            want = ei * size_state + i * size_rho
            if row[i][0] is not region or row[i][1] != want:
                ok = False
                rep.fail('D.layout', '%s/rho[%d][%d]' % (site, ei, i), where, 'view bound to offset %d of the flat array' % want,
                         'bound to %s+%s' % (row[i][0].name if row[i][0] else None, row[i][1]), fn)
        if nscalars > 0:
            want = ei * size_state + nrhos * size_rho
            if sc is None or sc[0] is not region or sc[1] != want:
                ok = False
                rep.fail('D.layout', '%s/scalar[%d]' % (site, ei), where, 'scalars bound to offset %d of the flat array' % want,
                         'bound to %s' % (('%s+%s' % (sc[0].name, sc[1])) if sc else None), fn)
    if ok:
        rep.ok('D.layout')
    return ok


def check_config(db, rep, cfg, tier):
    nx, nsun, nrhos, nscalars = cfg
    unit = db.unit('SQuIDS')
    fR = db.one('SQuIDS', 'squids::RHS', 4)
    fD = db.one('SQuIDS', 'squids::SQuIDS::Derive', 1)
    fS = db.one('SQuIDS', 'squids::SQuIDS::set_system_pointers', 2)
    rep.fn(fR['name'])
    rep.fn(fD['name'])
    rep.fn(fS['name'])
    size_rho = nsun * nsun
    size_state = nrhos * size_rho + nscalars
    numeqn = nx * size_state
    comm, acomm = tables(db, nsun)
    cname = 'nx=%d,nsun=%d,nrhos=%d,nscalars=%d' % cfg
    # ---- layout after ini
    this, hooks, it = sm.new_solver(db, nx, nsun, nrhos, nscalars)
    sysreg = hooks.system_region
    fI = db.one('SQuIDS', 'squids::SQuIDS::ini', 5)
    rep.fn(fI['name'])
    o = this.value
    shape_ok = (sm.field(this, 'size_rho') == size_rho and sm.field(this, 'size_state') == size_state and sysreg.size == numeqn
                and sm.field(this, 'sys').fields['dimension'].value == numeqn)
    if shape_ok:
        rep.ok('D.layout')
    else:
        rep.fail('D.layout', 'ini/sizes/' + cname, unit.loc(fI), 'size_rho=%d size_state=%d numeqn=%d=sys.dimension' % (size_rho, size_state, numeqn),
                 'size_rho=%r size_state=%r array=%r sys.dimension=%r' % (sm.field(this, 'size_rho'), sm.field(this, 'size_state'), sysreg.size,
                                                                            sm.field(this, 'sys').fields['dimension'].value), fI['name'])
    for which in ('state', 'estate'):
        check_partition(rep, 'ini/%s/%s' % (which, cname), unit.loc(fI), layout_of(this, which, nx, nrhos, nscalars), sysreg, nx, nsun, nrhos, nscalars, fI['name'])
    # the same shape reached by re-initialising an object that had another shape before: the layout is a function of the
    # arguments of the last ini() only
    # ... another shape altogether; the same nodes and matrices with more scalars (a larger flat array, other offsets);
    # and an object that was moved from before (its members are whatever the move left in them)
    priors = [('ini(%s)', (nx + 1, 5 - nsun if nsun in (2, 3) else 2, nrhos + 1, 1 - min(nscalars, 1)), False),
              ('ini(%s)', (nx, nsun, nrhos, nscalars + 2), False),
              ('ini(%s) and a move out of the object', (nx + 1, nsun, nrhos, nscalars + 1), True)]
    for plabel, other_shape, moved in priors:
        plabel = plabel % ','.join(map(str, other_shape))
        this2, hooks2, it2 = sm.new_solver(db, *other_shape)
        try:
            if moved:
                fmv = db.one('SQuIDS', 'squids::SQuIDS::SQuIDS', 1, lambda f: f.get('moveCtor'))
                sink = Cell(Obj(sm.SQ, None, 'sink'), None, 0, 'sink')
                it2.call(fmv, sink, [this2])
            it2.call(fI, this2, [nx, nsun, nrhos, nscalars, Poly.var('tj')])
            sysp = this2.value.fields['system'].value.fields['p'].value
            if not isinstance(sysp, Ptr) or sysp.region is None or sysp.is_null():
                rep.fail('D.layout', 'ini after %s/%s' % (plabel, cname), unit.loc(fI), 'a flat array for the new shape', 'the object has no state array after ini()', fI['name'])
                continue
            sysreg2 = sysp.region
            if isinstance(sysreg2.size, int) and sysreg2.size < numeqn:
                rep.fail('D.layout', 'ini after %s/%s' % (plabel, cname), unit.loc(fI), 'a flat array of %d entries' % numeqn, 'array of %d entries' % sysreg2.size, fI['name'])
                continue
            for which in ('state', 'estate'):
                check_partition(rep, 'ini after %s/%s/%s' % (plabel, which, cname), unit.loc(fI),
                                layout_of(this2, which, nx, nrhos, nscalars), sysreg2, nx, nsun, nrhos, nscalars, fI['name'])
        except Thrown as t:
            rep.fail('D.layout', 'ini after %s/%s' % (plabel, cname), unit.loc(t.node), 're-initialisation with a new shape succeeds', 'throw: %s' % t.what, fI['name'])
        except NullDeref as e:
            rep.fail('D.layout', 'ini after %s/%s' % (plabel, cname), getattr(e, 'where', None) or unit.loc(fI), 'a flat array for the new shape',
                     'the state array is a null pointer when ini() writes through it: %s' % e, fI['name'])
    # ---- RHS for every switch setting
    n_rhs = 0
    for bits in itertools.product((0, 1), repeat=5):
        this, hooks, it = sm.new_solver(db, nx, nsun, nrhos, nscalars)
        set_switches(db, it, this, bits)
        yin = Region('yin', numeqn, lambda k: Poly.var('Y%d' % k), 'heap')
        yout = Region('yout', numeqn, lambda k: Poly.var('STALE%d' % k), 'heap')  # what the stepper left in the derivative buffer
        tau = Poly.var('tau')
        hooks.hook_calls = []
        try:
            it.call(fR, None, [tau, Ptr(yin, 0), Ptr(yout, 0), Ptr(this.region, 0) if this.region else it_ptr(this)])
        except Thrown as t:
            rep.fail('D.rhs', 'RHS/%s/%s' % (cname, ''.join(map(str, bits))), unit.loc(t.node), 'right-hand side evaluated', 'throw: %s' % t.what, fD['name'])
            continue
        n_rhs += 1
        site0 = 'Derive/%s/switches=%s' % (cname, ''.join(map(str, bits)))
        C, N, O, G, S = bits

        def verify(prefix, tauv, youtv):
            """the derivative buffer against the documented equation, the state being the symbols <prefix><k>"""
            tk = sm.pkey(tauv)
            for ei in range(nx):
                for i in range(nrhos):
                    base = ei * size_state + i * size_rho
                    rho = lambda k, b=base: Poly.var('%s%d' % (prefix, b + k))
                    hi = lambda k, ei=ei, i=i: Poly.var('HI[%d,%d,%s]_%d' % (ei, i, tk, k))
                    ga = lambda k, ei=ei, i=i: Poly.var('GammaRho[%d,%d,%s]_%d' % (ei, i, tk, k))
                    c_ = subst_table(comm, nsun, rho, hi) if C else None
                    a_ = subst_table(acomm, nsun, ga, rho) if N else None
                    for k in range(size_rho):
                        want = Poly()
                        if C:
                            want = want + c_[k]
                        if N:
                            want = want - a_[k]
                        if O:
                            want = want + Poly.var('InteractionsRho[%d,%d,%s]_%d' % (ei, i, tk, k))
                        try:
                            got = youtv.cell(base + k).value
                        except Exception:
                            got = None
                        if not (same(got, want)):
                            return ('rho node %d matrix %d component %d' % (ei, i, k), want, got)
                for is_ in range(nscalars):
                    idx = ei * size_state + nrhos * size_rho + is_
                    want = Poly()
                    if G:
                        want = want - Poly.var('%s%d' % (prefix, idx)) * Poly.var('GammaScalar[%d,%d,%s]' % (ei, is_, tk))
                    if S:
                        want = want + Poly.var('InteractionsScalar[%d,%d,%s]' % (ei, is_, tk))
                    got = youtv.cell(idx).value
                    if not (same(got, want)):
                        return ('scalar node %d index %d' % (ei, is_), want, got)
            return None
        bad = verify('Y', tau, yout)
        last_in, last_out = yin, yout
        if not bad and bits in ((1, 1, 1, 1, 1), (0, 0, 1, 0, 1), (1, 0, 0, 1, 0)):
            # steppers reuse their buffers: the same derivative buffer with another input buffer (rk4 does this), and
            # the same input buffer with another derivative buffer; each evaluation must use the buffers it was given
            stages = [('Z', Region('yin2', numeqn, lambda k: Poly.var('Z%d' % k), 'heap'), yout, 'the derivative buffer of the previous stage with a new input buffer'),
                      ('Z', None, Region('yout2', numeqn, lambda k: Poly.var('STALEB%d' % k), 'heap'), 'the input buffer of the previous stage with a new derivative buffer')]
            cur_in = yin
            for j, (prefix, newin, outbuf, what) in enumerate(stages):
                if newin is not None:
                    cur_in = newin
                for k in range(numeqn):
                    outbuf.cell(k).value = Poly.var('STALE%s%d' % ('CD'[j], k))
                tau2 = Poly.var('tau%d' % (j + 2))
                try:
                    it.call(fR, None, [tau2, Ptr(cur_in, 0), Ptr(outbuf, 0), Ptr(this.region, 0) if this.region else it_ptr(this)])
                except Thrown as t:
                    bad = ('stage %d' % (j + 2), 'right-hand side evaluated', 'throw: %s' % t.what)
                    break
                last_in, last_out = cur_in, outbuf
                b2 = verify(prefix, tau2, outbuf)
                if b2:
                    bad = ('%s (a later stage called with %s)' % (b2[0], what), b2[1], b2[2])
                    break
            tau_last = Poly.var('tau3') if not bad else None
        else:
            tau_last = None
        # every slot of the derivative buffer defined, time stored, PreDerive first with the stepper's time
        if not bad:
            tnow = sm.field(this, 't')
            if tau_last is not None:
                pass  # the clock was checked against the first stage below in the single-stage settings
            elif not (isinstance(tnow, Poly) and tnow.equals(tau)):
                bad = ('clock during the step', tau, tnow)
            elif not hooks.hook_calls or hooks.hook_calls[0][0] != 'PreDerive' or not it.to_poly(hooks.hook_calls[0][1][0]).equals(tau):
                bad = ('PreDerive called first with the stepper time', 'PreDerive(tau)', hooks.hook_calls[:1])
        if bad:
            rep.fail('D.rhs', site0, unit.loc(fD), 'documented right-hand side for %s: %s' % (bad[0], bad[1]), str(bad[2])[:400], fD['name'])
        else:
            rep.ok('D.rhs')
            if bits == (1, 1, 1, 1, 1) and cfg == CONFIGS_QUICK[0]:
                rep.sample('D.rhs', '%s all terms on: d(rho[0][0])_1 = %s' % (cname, str(yout.cell(1).value)[:300]))
        # layout of the in-step and derivative views after the callback
        if bits == (1, 1, 1, 1, 1):
            check_partition(rep, 'set_system_pointers/estate/' + cname, unit.loc(fS), layout_of(this, 'estate', nx, nrhos, max(nscalars, 1) if False else nscalars),
                            last_in, nx, nsun, nrhos, nscalars, fS['name'])
            check_partition(rep, 'set_system_pointers/dstate/' + cname, unit.loc(fS), layout_of(this, 'dstate', nx, nrhos, nscalars), last_out, nx, nsun, nrhos, nscalars, fS['name'])
            # the stored state is untouched by the callback
            if hooks.writes_system == 0:
                rep.ok('D.loops')
            else:
                rep.fail('D.loops', 'Derive/state/' + cname, unit.loc(fD), 'the stored state is not written by the derivative callback', '%d writes' % hooks.writes_system, fD['name'])
    return n_rhs


def it_ptr(cell):
    r = Region(cell.name or 'obj', 1, None, 'obj')
    r.cells[0] = cell
    cell.region = r
    cell.idx = 0
    return Ptr(r, 0)


def guarded_equal(a, b):
    """two values that may both be guarded: equal as written, or the first equal to the (plain) second for all inputs"""
    if isinstance(a, Poly) and isinstance(b, Poly):
        return a.equals(b)
    if isinstance(b, Poly):
        return same(a, b)
    return repr(a) == repr(b)


def driver_config_mismatch(it, this, cfg, expect):
    """the driver as configured at the moment it is applied (whenever it was created) against the solver's current
    settings; returns a description of the first difference"""
    sysp = cfg.get('sys')
    if not (isinstance(sysp, Ptr) and sysp.region is not None and sysp.region.cell(sysp.off) is this.value.fields['sys']):
        return 'driver not built on this object\'s system structure'
    if cfg.get('step') is not expect['step']:
        return 'stepper of the driver in use is not the configured one'
    for key, label in (('h', 'initial step'), ('abs', 'absolute tolerance'), ('rel', 'relative tolerance'), ('hmin', 'minimum step'), ('hmax', 'maximum step')):
        v = cfg.get(key)
        if v is None or not guarded_equal(sm.ite_apply(v, it.to_poly), sm.ite_apply(expect[key], it.to_poly)):
            return '%s of the driver in use is %s, the solver is configured with %s' % (label, v, expect[key])
    return None


def driver_disposal_problem(this, d):
    """after Evolve the driver is released, or it is owned by a smart-pointer member of the solver (which releases it)"""
    if isinstance(d, Ptr) and d.region is not None and d.region.meta.get('freed'):
        return None
    for name, c in this.value.fields.items():
        v = c.value
        if isinstance(v, Obj) and v.rec.startswith('std::unique_ptr') and 'p' in v.fields and v.fields['p'].value == d:
            return None
    return 'the driver is neither released nor owned by a smart-pointer member of the solver when Evolve returns'


def check_driver_history(db, rep):
    """a second Evolve after each configuration setter integrates with the new setting (a driver kept between calls must
    follow every one of them)"""
    unit = db.unit('SQuIDS')
    fE = db.one('SQuIDS', 'squids::SQuIDS::Evolve', 1)
    cfg = (2, 2, 1, 1)
    changes = [('Set_h', 'h', Poly.var('H2')), ('Set_abs_error', 'abs', Poly.var('ABS2')), ('Set_rel_error', 'rel', Poly.var('REL2')),
               ('Set_h_min', 'hmin', Poly.var('HMIN2')), ('Set_h_max', 'hmax', Poly.var('HMAX2')), ('Set_GSL_step', 'step', Opaque('stepper', 'other'))]
    n = 0
    for setter, key, newval in changes:
        fs = db.find('SQuIDS', 'squids::SQuIDS::' + setter, 1)
        if len(fs) != 1:
            continue
        n += 1
        hooks = sm.SquidsHooks(cfg[1], driver_status=0)
        this, hooks, it = sm.new_solver(db, *cfg, hooks=hooks)
        for name, val in (('Set_CoherentRhoTerms', 1), ('Set_AdaptiveStep', 1), ('Set_h', Poly.var('H')), ('Set_abs_error', Poly.var('ABS')), ('Set_rel_error', Poly.var('REL'))):
            it.call(db.one('SQuIDS', 'squids::SQuIDS::' + name, 1), this, [val])
        this.value.fields['h_min'].value = Poly.var('HMIN')
        this.value.fields['h_max'].value = Poly.var('HMAX')
        stp = Opaque('stepper', 'custom')
        it.call(db.one('SQuIDS', 'squids::SQuIDS::Set_GSL_step', 1), this, [stp])
        expect = {'step': stp, 'h': Poly.var('H'), 'abs': Poly.var('ABS'), 'rel': Poly.var('REL'), 'hmin': Poly.var('HMIN'), 'hmax': Poly.var('HMAX')}
        bad = None
        try:
            it.call(fE, this, [Poly.var('dt')])
            it.call(fs[0], this, [newval])
            # what the solver is configured with now (a setter may adjust other settings too, e.g. the initial step)
            expect = {'step': sm.field(this, 'step'), 'h': sm.field(this, 'h'), 'abs': sm.field(this, 'abs_error'), 'rel': sm.field(this, 'rel_error'),
                      'hmin': sm.field(this, 'h_min'), 'hmax': sm.field(this, 'h_max')}
            if not same(sm.ite_apply(expect[key], it.to_poly) if key != 'step' else Poly.const(0), newval if key != 'step' else Poly.const(0)) and key != 'step':
                raise AnalysisBroken('%s did not store its argument' % setter)
            hooks.driver = []
            it.call(fE, this, [Poly.var('dt2')])
        except Thrown as t:
            bad = 'throw: %s' % t.what
        if not bad:
            ap = [e for e in hooks.driver if e[0] in ('apply', 'apply_fixed_step')]
            bad = driver_config_mismatch(it, this, ap[0][-1], expect) if ap else 'driver never applied in the second call'
        if bad:
            rep.fail('D.driver', 'Evolve; %s; Evolve' % setter, unit.loc(fE), 'the second integration uses the setting made in between', bad, fE['name'])
        else:
            rep.ok('D.driver')
    rep.floor('D.driver.history', n, 5)


def check_driver(db, rep):
    """Evolve: driver built from the current fields; apply(&t, t+dt) or apply_fixed_step(&t, dt/nsteps, nsteps); free before throw"""
    unit = db.unit('SQuIDS')
    fE = db.one('SQuIDS', 'squids::SQuIDS::Evolve', 1)
    rep.fn(fE['name'])
    cfg = (2, 2, 1, 1)
    for adaptive in (1, 0):
        for status in (0, -1):
            site = 'Evolve/adaptive=%d/status=%d' % (adaptive, status)
            hooks = sm.SquidsHooks(cfg[1], driver_status=status)
            this, hooks, it = sm.new_solver(db, *cfg, hooks=hooks)
            for name, val in (('Set_CoherentRhoTerms', 1), ('Set_AdaptiveStep', adaptive)):
                it.call(db.one('SQuIDS', 'squids::SQuIDS::' + name, 1), this, [val])
            for name, val in (('Set_h', Poly.var('H')), ('Set_abs_error', Poly.var('ABS')), ('Set_rel_error', Poly.var('REL'))):
                it.call(db.one('SQuIDS', 'squids::SQuIDS::' + name, 1), this, [val])
            this.value.fields['h_min'].value = Poly.var('HMIN')
            this.value.fields['h_max'].value = Poly.var('HMAX')
            it.call(db.one('SQuIDS', 'squids::SQuIDS::Set_NumSteps', 1), this, [7])
            stp = Opaque('stepper', 'custom')
            it.call(db.one('SQuIDS', 'squids::SQuIDS::Set_GSL_step', 1), this, [stp])
            hooks.driver = []
            dt = Poly.var('dt')
            t0 = sm.field(this, 't')
            threw = None
            try:
                it.call(fE, this, [dt])
            except Thrown as t:
                threw = t
            ev = hooks.driver
            kinds = [e[0] for e in ev]
            bad = None
            ap0 = [e for e in ev if e[0] in ('apply', 'apply_fixed_step')]
            expect = {'step': stp, 'h': Poly.var('H'), 'abs': Poly.var('ABS'), 'rel': Poly.var('REL'), 'hmin': Poly.var('HMIN'), 'hmax': Poly.var('HMAX')}
            if ap0:
                bad = driver_config_mismatch(it, this, ap0[0][-1], expect)
            else:
                bad = 'driver never applied'
            if not bad:
                ap = [e for e in ev if e[0] in ('apply', 'apply_fixed_step')]
                sysreg = hooks.system_region
                if len(ap) != 1:
                    bad = 'driver applied %d times' % len(ap)
                elif adaptive and not (ap[0][0] == 'apply' and ap[0][2].equals(it.to_poly(t0) + dt) and ap[0][3].region is sysreg and ap[0][3].off == 0):
                    bad = 'adaptive stepping must integrate the stored state from t to t+dt (got %s)' % (ap[0],)
                elif not adaptive and not (ap[0][0] == 'apply_fixed_step' and same(sm.ite_apply(ap[0][2], lambda h: h * it.to_poly(ap[0][3])), dt) and ap[0][4].region is sysreg):
                    bad = 'fixed stepping must cover dt in nsteps steps (got %s)' % (ap[0],)
            if not bad:
                bad = driver_disposal_problem(this, ap[0][-1].get('driver'))
            if not bad and status != 0 and threw is not None:
                tt = sm.field(this, 't')
                if not (isinstance(tt, Poly) and tt.equals(Poly.var('t_reached'))):
                    bad = 'after a failed integration the clock is %s, not the time the driver reached (the state was integrated up to there only)' % tt
            if not bad:
                if status != 0 and threw is None:
                    bad = 'integration failure not reported'
                if status == 0 and threw is not None:
                    bad = 'throws although the integration succeeded: %s' % threw.what
            if bad:
                rep.fail('D.driver', site, unit.loc(fE), 'GSL driver wired to the current fields; error propagated after the driver is freed', bad, fE['name'])
            else:
                rep.ok('D.driver')
                if adaptive and status == 0:
                    rep.sample('D.driver', 'adaptive: driver(sys, stepper, H, ABS, REL); apply(&t, t+dt, system); free')


def check_enablement(db, rep):
    """D.enable: for each of the 32 switch settings, reached through the public setters from a fresh solver, Evolve
    integrates (applies the ODE driver exactly once) iff at least one term is enabled: an enabled term that does not turn
    the integration on contributes nothing, which is not the documented equation"""
    unit = db.unit('SQuIDS')
    fE = db.one('SQuIDS', 'squids::SQuIDS::Evolve', 1)
    cfg = (2, 2, 1, 1)
    n = 0
    for bits in itertools.product((0, 1), repeat=5):
        n += 1
        hooks = sm.SquidsHooks(cfg[1], driver_status=0)
        this, hooks, it = sm.new_solver(db, *cfg, hooks=hooks)
        # enable in two orders: as listed, and reversed (the last setter called must not undo an earlier one)
        for order in (SWITCHES, tuple(reversed(SWITCHES))):
            for name in order:
                b = bits[SWITCHES.index(name)]
                it.call(db.one('SQuIDS', 'squids::SQuIDS::Set_' + name, 1), this, [1 if b else 0])
            hooks.driver = []
            try:
                it.call(fE, this, [Poly.var('dt')])
            except Thrown as t:
                rep.fail('D.enable', 'Evolve/switches=%s' % ''.join(map(str, bits)), unit.loc(t.node), 'an integration step', 'throw: %s' % t.what, fE['name'])
                break
            applied = [e for e in hooks.driver if e[0] in ('apply', 'apply_fixed_step')]
            want = 1 if any(bits) else 0
            if len(applied) != want:
                on = [nm for nm, b in zip(SWITCHES, bits) if b]
                rep.fail('D.enable', 'Evolve/switches=%s' % ''.join(map(str, bits)), unit.loc(fE),
                         'the ODE driver is applied once iff a term is enabled (enabled: %s)' % (', '.join(on) or 'none'),
                         'driver applied %d times: %s' % (len(applied), 'the enabled terms are never integrated' if want else 'integration although every term is disabled'), fE['name'])
                break
        else:
            rep.ok('D.enable')
    rep.floor('D.enable', n, 32)


def run(db, rep, tier):
    rep.trusted += ['clang 14 AST of /repo sources', 'sqdump extractor + abstract interpreter',
                    'user terms are uninterpreted symbols indexed by their call arguments',
                    'commutator/anticommutator kernels: their tables are C02\'s obligation and are reused here as the meaning of i[.,.] and {.,.}',
                    'GSL ODE driver summarised: apply/apply_fixed_step advance *t and evaluate the system function on driver-owned buffers',
                    'configurations explored: ' + ', '.join(str(c) for c in (CONFIGS_THOROUGH if tier == 'thorough' else CONFIGS_QUICK))]
    rep.declined += ['agreement with closed-form solutions to the requested tolerance for each GSL stepper (numerical behaviour of GSL)']
    n = 0
    for cfg in (CONFIGS_THOROUGH if tier == 'thorough' else CONFIGS_QUICK):
        n += check_config(db, rep, cfg, tier)
    rep.floor('D.rhs', n, 64)
    check_driver(db, rep)
    check_driver_history(db, rep)
    check_enablement(db, rep)
    import c10
    c10.check_sized_ctor(db, rep)  # the integration starts from the initial time the solver was constructed with
    c10.check_moves(db, rep)       # ... and a moved solver carries on with the clock, switches and views of the source
