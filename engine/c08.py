"""C08 — vectors have value semantics: copies are independent, moves leave a safe source.
Engine B (ownership typestate): every lifecycle function (constructors, destructor, copy/move
assignment, assignProxy<W,P> for all wrappers and proxies, proxy constructors, SetBackingStore,
make_aligned, factories, cache helpers) is abstractly interpreted from every abstract entry state
and environment choice; on every exit the ownership invariant (INV-own, INV-empty, INV-ext), the
per-operation postconditions and the movable-flag discipline are checked.  Preservation by every
operation gives the property for all histories by induction."""
import lifecycle
import ownrules


def run(db, rep, tier):
    rep.trusted += ownrules.TRUSTED
    data = lifecycle.explore_cached(db, tier)
    rep.notes.append('%d (operation, entry state, choice) paths explored over %d operation families'
                     % (data['paths'], len(data['ops'])))
    for k in sorted(data['ops'])[:400]:
        rep.fn(k)
    ownrules.report(rep, data, ('B.inv', 'B.inv.empty', 'B.post', 'B.acc'), False, 'B.inv')  # B.acc: a block owned, cached or released more than once means two vectors can end up on the same storage
    # "storage supplied by the user is never freed, resized or silently replaced": an operation that would have to
    # resize a vector bound to user storage must fail; completing normally means the binding was dropped or replaced
    seen = set()
    for (rule, site, where, expected, found, function, exc, af) in data['findings']:
        if rule == 'B.mustthrow' and 'external storage' in expected and not af and (rule, site) not in seen:
            seen.add((rule, site))
            rep.fail('B.post', site, where, 'a vector bound to user storage keeps exactly that buffer: ' + expected, found, function)
    # movable flags only for rvalue operands
    n = 0
    for label, (ok, detail, where, fn) in sorted(data['steal'].items()):
        n += 1
        if ok:
            rep.ok('B.steal.flag')
        else:
            rep.fail('B.steal.flag', label, where, 'ArgNMovable only for operands bound from rvalues', detail, fn)
    rep.floor('B.steal.flag', n, 12)
    rep.floor('B.inv', data['paths'], 1000)
    rep.floor('B.ops', len(data['ops']), 60)
    rep.sample('B.inv', 'families: ' + ', '.join(sorted(data['ops'])[:12]) + ' ...')
    rep.sample('B.inv', 'e.g. operator=(SU_vector&&) from v=owned2,o=ext3 with the cache refusing the insert: invariant and accounting hold on exit')
    import fixtures
    fixtures.controls_own(rep, db)
