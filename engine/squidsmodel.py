"""Engine D support: abstract interpretation of the SQuIDS solver class.

The user hooks (H0, HI, GammaRho, InteractionsRho, GammaScalar, InteractionsScalar, PreDerive) are
uninterpreted: each call returns a value made of fresh symbols indexed by the call's arguments and
is logged.  The GSL ODE driver is summarised (Appendix B): apply / apply_fixed_step advance *t and
invoke the system function on driver-owned buffers; the outcome (success / failure) is a choice."""
from astdb import AnalysisBroken
from interp import (ITE, Cond, Interp, Obj, Cell, Ptr, Region, Thrown, Unsupported, Opaque, NULL, UNDEF, FuncRef, OutOfBounds)
from kernels import SUV, make_suv
from gslmodel import GslHooks
from poly import Poly, CPoly

SQ = 'squids::SQuIDS'


def pkey(v):
    if isinstance(v, Poly):
        if v.is_const():
            c = v.const_value()
            return str(int(c)) if c == int(c) else str(float(c))
        return str(v).replace(' ', '')
    return str(v)


def ite_apply(v, fn):
    """fn applied to the leaves of a guarded value"""
    if isinstance(v, ITE):
        return ITE(v.cond, ite_apply(v.a, fn), ite_apply(v.b, fn))
    return fn(v)


class SquidsHooks(GslHooks):
    def __init__(self, nsun, driver_status=0, order=None):
        GslHooks.__init__(self)
        self.nsun = nsun
        self.hook_calls = []  # (name, args)
        self.driver = []  # events
        self.driver_status = driver_status
        self.heap = []
        self.order = order  # OrderOracle for symbolic comparisons (x grid)
        self.this_obj = None
        self.rhs_calls = 0
        self.writes_system = 0
        self.system_region = None
        self.numeric_terms = False  # user terms return concrete numbers instead of symbols (for extent sweeps)
        self.solver_tag = ''  # distinguishes the user hooks (H0, ...) of one solver object from another's
        self.statics = None  # optional store of function-local statics shared by several runs

    def tracked_record(self, rec):
        return False

    # ---- memory
    def on_new(self, it, node, count, elem_type):
        if count is None and not node.get('array'):
            count = 1  # single-object new
        if not isinstance(count, int):
            raise Unsupported('symbolic allocation size at %s' % it.loc(node))
        name = 'heap#%d' % len(self.heap)
        r = Region(name, count, None, 'heap', {'site': it.loc(node), 'elem': elem_type})
        self.heap.append(r)
        init = node.get('init')
        if elem_type and elem_type not in ('double', 'int', 'unsigned int', 'bool'):
            for i in range(count):
                c = r.cell(i)
                c.name = '%s[%d]' % (name, i)
                if init is not None and init.get('k') == 'CXXConstructExpr':
                    it.construct_into(c, init)
                else:
                    c.value = Obj(elem_type, None, c.name)
        return Ptr(r, 0)

    def on_delete(self, it, node, ptr, is_array):
        return None

    def on_write(self, it, cell, old, new, node):
        if self.system_region is not None and cell.region is self.system_region:
            self.writes_system += 1

    # ---- user hooks
    def override_call(self, it, fdecl, node, args, this_cell):
        nm = fdecl['name']
        if nm in ('squids::SQuIDS::H0', 'squids::SQuIDS::HI', 'squids::SQuIDS::GammaRho', 'squids::SQuIDS::InteractionsRho'):
            vals = [it.eval(a) for a in args]
            short = nm.split('::')[-1]
            self.hook_calls.append((short, tuple(vals)))
            tag = '%s%s[%s]' % (short, self.solver_tag, ','.join(pkey(v) for v in vals))
            if self.numeric_terms:
                # extent sweeps do not need the values: concrete numbers keep the expressions small
                c, reg = make_suv(tag, self.nsun, tag + '_', content=lambda k, h=(hash(tag) % 7): Poly.const(0.125 * (k + 1 + h)))
            else:
                c, reg = make_suv(tag, self.nsun, tag + '_')
            return c.value
        if nm in ('squids::SQuIDS::GammaScalar', 'squids::SQuIDS::InteractionsScalar'):
            vals = [it.eval(a) for a in args]
            short = nm.split('::')[-1]
            self.hook_calls.append((short, tuple(vals)))
            return Poly.var('%s[%s]' % (short, ','.join(pkey(v) for v in vals)))
        if nm == 'squids::SQuIDS::PreDerive':
            vals = [it.eval(a) for a in args]
            self.hook_calls.append(('PreDerive', tuple(vals)))
            return None
        if nm in ('squids::SU_vector::alloc_aligned',):
            dim = it.eval(args[0])
            size = it.eval(args[1])
            comp = it.lval(args[2])
            off = it.lval(args[3])
            r = Region('heap#%d' % len(self.heap), size, None, 'heap', {'site': it.loc(node)})
            self.heap.append(r)
            it.write(comp, Ptr(r, 0), node)
            it.write(off, 0, node)
            return None
        if nm == 'squids::SU_vector::deallocate_mem':
            return None
        if nm == 'squids::Const::Const' or nm.startswith('squids::Const::'):
            if fdecl.get('ctor'):
                this_cell.value = Obj('squids::Const', None, 'params')
                return None
            if nm == 'squids::Const::operator=':
                # the parameter object is opaque here (its accessors are analysed under C06): a move is an identity on it
                this_cell.value = Obj('squids::Const', None, 'params')
                return this_cell
        return GslHooks.override_call(self, it, fdecl, node, args, this_cell)

    def external_call(self, it, name, node, args, this_cell):
        base = name.split('<')[0]
        if name.startswith('std::numeric_limits<double>::'):
            import sys
            which = name.split('::')[-1]
            if which in ('quiet_NaN', 'signaling_NaN'):
                from interp import NAN_NAME, NAN_SEEN
                NAN_SEEN[0] = True
                return Poly.var(NAN_NAME)
            return Poly.const({'epsilon': sys.float_info.epsilon, 'min': sys.float_info.min, 'max': sys.float_info.max}[which])
        if name == 'squids::Const::Const':
            this_cell.value = Obj('squids::Const', None, 'params')
            return None
        if name.startswith('squids::Const::'):
            return None
        if name.startswith('std::basic_string<char>::basic_string') or name.startswith('std::__cxx11::basic_string'):
            if this_cell is not None:
                v = it.eval(args[0]) if args else Opaque('string', '')
                this_cell.value = v if isinstance(v, Opaque) else Opaque('string', None)
                return None
            return Opaque('string', None)
        if base in ('std::operator==', 'std::operator!=') and len(args) == 2:
            a, b = self._val(it, args[0]), self._val(it, args[1])
            if isinstance(a, Opaque) and isinstance(b, Opaque) and a.payload is not None and b.payload is not None:
                eq = a.payload == b.payload
                return (1 if eq else 0) if base.endswith('==') else (0 if eq else 1)
            if isinstance(a, Ptr) and isinstance(b, Ptr):
                eq = a == b
                return (1 if eq else 0) if base.endswith('==') else (0 if eq else 1)
            raise Unsupported('comparison of opaque values at %s' % it.loc(node))
        if (base in ('std::operator+',) and not (args and '_Bit_iterator' in (args[0].get('t') or ''))) or name in ('gsl_strerror', 'std::to_string'):
            return Opaque('string', None)
        if name.startswith('std::vector<') and name.split('>::')[-1].split('<')[0] == 'resize':
            from stdmodel import vec_parts
            if not isinstance(this_cell.value, Obj):
                this_cell.value = Obj('std::vector', None, this_cell.name)
                this_cell.value.field('data').value = Region('x.data', 0, None, 'heap')
                this_cell.value.field('n').value = 0
            o, reg, n = vec_parts(this_cell)
            newn = it.eval(args[0])
            nr = Region((this_cell.name or 'vec') + '.data', newn, lambda k: Poly.const(0), 'heap')
            if isinstance(n, int):
                for k in range(min(n, newn)):
                    nr.cell(k).value = reg.cell(k).value
            o.fields['data'].value = nr
            o.fields['n'].value = newn
            return None
        if name.startswith('std::vector<') and name.split('>::')[-1] == 'operator=':
            from stdmodel import vec_parts
            so, sreg, sn = vec_parts(it.lval(args[0]))
            if not isinstance(this_cell.value, Obj):
                this_cell.value = Obj('std::vector', None, this_cell.name)
            nr = Region((this_cell.name or 'vec') + '.data', sn, None, 'heap')
            for k in range(sn):
                nr.cell(k).value = sreg.cell(k).value
            this_cell.value.field('data').value = nr
            this_cell.value.field('n').value = sn
            return this_cell
        if base == 'std::is_sorted':
            a, b = it.eval(args[0]), it.eval(args[1])
            if self.order is None:
                raise Unsupported('std::is_sorted without an order oracle at %s' % it.loc(node))
            n = b.off - a.off
            vals = [a.region.cell(a.off + k).value for k in range(n)]
            return 1 if self.order.sorted(vals) else 0
        if base in ('std::adjacent_find', 'std::is_sorted_until') and len(args) in (2, 3):
            # first position i with pred(x[i], x[i+1]) (adjacent_find) resp. first i+1 with x[i+1] < x[i] (is_sorted_until);
            # the predicate is one of the standard comparison function objects, decided by the order oracle
            a, b = it.eval(args[0]), it.eval(args[1])
            if self.order is None:
                raise Unsupported('%s without an order oracle at %s' % (base, it.loc(node)))
            n = b.off - a.off
            vals = [a.region.cell(a.off + k).value for k in range(n)]
            if len(args) == 3:
                pt = args[2].get('t') or ''
                op = None
                for nm, o in (('std::greater_equal<', '>='), ('std::less_equal<', '<='), ('std::greater<', '>'), ('std::less<', '<'),
                              ('std::equal_to<', '=='), ('std::not_equal_to<', '!=')):
                    if nm in pt:
                        op = o
                        break
                closure = None
                if op is None:
                    pv = it.eval(args[2])
                    if isinstance(pv, FuncRef) and pv.lam is not None:
                        closure = pv  # a lambda: its body is interpreted on each adjacent pair (its comparisons go to the order oracle)
                    else:
                        raise Unsupported('%s with predicate of type %s at %s' % (base, pt, it.loc(node)))
            else:
                op = '==' if base == 'std::adjacent_find' else None
                closure = None
            for i in range(n - 1):
                if closure is not None:
                    x, y = (vals[i], vals[i + 1]) if base == 'std::adjacent_find' else (vals[i + 1], vals[i])
                    r = it.call_lambda_values(closure, [x, y])
                    if isinstance(r, Cond):
                        raise Unsupported('%s: predicate not decidable at %s' % (base, it.loc(node)))
                    r = bool(r)
                elif base == 'std::adjacent_find':
                    r = self.order.compare(op, vals[i], vals[i + 1])
                else:
                    r = self.order.compare('<', vals[i + 1], vals[i]) if op is None else self.order.compare(op, vals[i + 1], vals[i])
                if r is None:
                    raise Unsupported('%s over non-symbol values at %s' % (base, it.loc(node)))
                if r:
                    return Ptr(a.region, a.off + (i if base == 'std::adjacent_find' else i + 1))
            return Ptr(a.region, a.off + n)
        if name.split('<')[0] in ('std::greater_equal', 'std::less_equal', 'std::greater', 'std::less', 'std::equal_to', 'std::not_equal_to') or \
                any(name.startswith(x) for x in ('std::greater_equal<', 'std::less_equal<', 'std::greater<', 'std::less<')):
            if name.endswith('operator()') and len(args) == 2 and self.order is not None:
                op = {'greater_equal': '>=', 'less_equal': '<=', 'greater': '>', 'less': '<', 'equal_to': '==', 'not_equal_to': '!='}[name.split('::')[1].split('<')[0]]
                r = self.order.compare(op, self._val(it, args[0]), self._val(it, args[1]))
                if r is None:
                    raise Unsupported('comparison object applied to non-symbol values at %s' % it.loc(node))
                return 1 if r else 0
            return Obj(name.split('::')[1].split('<')[0])  # constructing the (stateless) function object
        if base in ('std::lower_bound', 'std::upper_bound'):
            a, b, v = it.eval(args[0]), it.eval(args[1]), self._val(it, args[2])
            if isinstance(v, Cell):
                v = v.value
            if self.order is None:
                raise Unsupported('%s without an order oracle at %s' % (base, it.loc(node)))
            n = b.off - a.off
            vals = [a.region.cell(a.off + k).value for k in range(n)]
            idx = self.order.bound(vals, v, base.endswith('lower_bound'))
            self.driver.append((base, idx))
            return Ptr(a.region, a.off + idx)
        if base == 'std::distance':
            a, b = it.eval(args[0]), it.eval(args[1])
            return b.off - a.off
        # ---- GSL ODE driver
        if name == 'gsl_odeiv2_driver_alloc_y_new':
            vals = [it.eval(a) for a in args]
            o = Obj('gsl_odeiv2_driver', None, 'driver')
            o.field('sys').value = vals[0]
            # what the driver was configured with: it keeps using these until told otherwise
            r = Region('driver', 1, None, 'heap', {'driver': True})
            r.meta['cfg'] = {'sys': vals[0], 'step': vals[1], 'h': vals[2], 'abs': vals[3], 'rel': vals[4], 'hmin': None, 'hmax': None, 'nmax': None}
            r.cell(0).value = o
            self.driver.append(('alloc', vals))
            return Ptr(r, 0)
        if name in ('gsl_odeiv2_driver_set_hmin', 'gsl_odeiv2_driver_set_hmax', 'gsl_odeiv2_driver_set_nmax'):
            vals = [it.eval(a) for a in args]
            self.driver.append((name, vals))
            if isinstance(vals[0], Ptr) and vals[0].region is not None and 'cfg' in vals[0].region.meta:
                vals[0].region.meta['cfg'][name[len('gsl_odeiv2_driver_set_'):]] = vals[1]
            return 0
        if name in ('gsl_odeiv2_driver_reset_hstart', 'gsl_odeiv2_driver_reset'):
            vals = [it.eval(a) for a in args]
            self.driver.append((name, vals))
            if name.endswith('hstart') and isinstance(vals[0], Ptr) and vals[0].region is not None and 'cfg' in vals[0].region.meta:
                vals[0].region.meta['cfg']['h'] = vals[1]
            return 0
        if name == 'gsl_odeiv2_driver_free':
            p = it.eval(args[0])
            self.driver.append(('free', [p]))
            if isinstance(p, Ptr) and p.region is not None and not p.is_null():
                p.region.meta['freed'] = True
            return None
        if name in ('gsl_odeiv2_driver_apply', 'gsl_odeiv2_driver_apply_fixed_step'):
            vals = [it.eval(a) for a in args]
            d, tptr = vals[0], vals[1]
            y = vals[-1]
            tcell = it.deref(tptr, node)
            t0 = it.to_poly(it.read(tcell, node))
            if isinstance(d, Ptr) and d.region is not None and d.region.meta.get('freed'):
                raise AnalysisBroken('a freed GSL driver is applied at %s' % it.loc(node))
            cfg = dict(d.region.meta.get('cfg', {})) if isinstance(d, Ptr) and d.region is not None else {}
            cfg['driver'] = d
            if name.endswith('apply'):
                t1 = it.to_poly(vals[2])
                self.driver.append(('apply', t0, t1, y, cfg))
            else:
                nn = vals[3]
                hh = ite_apply(vals[2], it.to_poly)
                t1 = ite_apply(hh, lambda h: t0 + h * it.to_poly(nn))
                self.driver.append(('apply_fixed_step', t0, hh, nn, y, cfg))
            # one abstract evaluation of the system function on driver-owned buffers (the stepper's stages)
            sysobj = it.deref(d, node).value.fields['sys'].value
            sysv = it.deref(sysobj, node).value
            fn = sysv.fields['function'].value
            par = sysv.fields['params'].value
            dim = sysv.fields['dimension'].value
            if isinstance(fn, FuncRef) and self.driver_status != 'norhs':
                f = it.unit.by_id.get(fn.fid)
                if f is None:
                    fs = it.unit.by_name.get(fn.name, [])
                    f = fs[0] if fs else None
                if f is None:
                    raise AnalysisBroken('system function %s not found' % fn.name)
                ytmp = Region('driver.ytmp', dim, lambda k: Poly.var('Y%d' % k), 'heap')
                dy = Region('driver.dydt', dim, lambda k: Poly.var('STALE%d' % k), 'heap')
                self.stage_buffers = (ytmp, dy)
                self.rhs_calls += 1
                it.call(f, None, [Poly.var('t_stage'), Ptr(ytmp, 0), Ptr(dy, 0), par])
            # the integrated state is written back into y by the driver
            if isinstance(y, Ptr) and y.region is not None and isinstance(dim, int):
                for k in range(dim):
                    y.region.cell(y.off + k).value = Poly.var('Yout%d' % k)
            if self.driver_status == 0 or self.driver_status == 'norhs':
                it.write(tcell, t1, node)
                return 0
            # a failed integration stops part-way: *t holds the time actually reached and y the state at that time
            it.write(tcell, Poly.var('t_reached'), node)
            return -1  # GSL_FAILURE
        return GslHooks.external_call(self, it, name, node, args, this_cell)

    def unique_ptr_call(self, it, meth, node, args, this_cell):
        if this_cell is not None and not isinstance(this_cell.value, Obj) and not meth.startswith('unique_ptr'):
            o = Obj('std::unique_ptr', None, this_cell.name)
            o.field('p').value = NULL
            this_cell.value = o
        return GslHooks.unique_ptr_call(self, it, meth, node, args, this_cell)

    def global_cell(self, it, node):
        q = node.get('qname') or node.get('name')
        if q.startswith('gsl_odeiv2_step_'):
            return Cell(Opaque('stepper', q), None, 0, q)
        return GslHooks.global_cell(self, it, node)

    def decide_cmp(self, it, op, pa, pb, node):
        if self.order is not None:
            r = self.order.compare(op, pa, pb)
            if r is not None:
                return 1 if r else 0
            if self.order.strict:
                raise NotAnOrderComparison(it.loc(node), op, pa, pb)
        return NotImplemented

    def float_to_int(self, it, node, value):
        # a floating value turned into an index (an interpolation estimate, say): decided on the concrete instance of the
        # order, when there is one
        if self.order is not None:
            x = self.order.numeric(value if isinstance(value, Poly) else it.to_poly(value))
            if x is not None:
                self.order.used_witness.append('(int)%s' % (value,))
                return int(x)  # truncation toward zero, as the conversion does
        return GslHooks.float_to_int(self, it, node, value)

    def on_unique_reset(self, it, node, old, new):
        # a smart pointer gives up what it held: for a GSL driver that is its release
        if isinstance(old, Ptr) and old.region is not None and not old.is_null() and old.region.meta.get('driver') and old != new:
            old.region.meta['freed'] = True
            self.driver.append(('free', [old]))

    def static_local(self, it, d):
        # function-local statics (thread_local or not) keep their value between calls, and between solver objects, when
        # the checker asks for it by providing a store; otherwise every call sees a first call
        if self.statics is not None and (d['id'], id(it.unit)) in self.statics:
            return self.statics[(d['id'], id(it.unit))]
        return NotImplemented

    def static_store(self, it, d, cell):
        if self.statics is not None and cell is not None:
            self.statics.setdefault((d['id'], id(it.unit)), cell)


class NotAnOrderComparison(Exception):
    def __init__(self, where, op, a, b):
        self.where, self.op, self.a, self.b = where, op, a, b


class OrderOracle:
    """a strict total preorder on named symbols given as a list of equivalence classes in ascending order,
    e.g. [['x0'], ['q', 'x1'], ['x2']] means x0 < q = x1 < x2.  Decides comparisons between two single symbols."""

    def __init__(self, classes, strict=False, witness=None):
        self.rank = {}
        for i, cl in enumerate(classes):
            for s in cl:
                self.rank[s] = i
        self.strict = strict
        # optional concrete instance of the order (symbol -> number, consistent with the classes): comparisons that are
        # not between two plain symbols (tolerances, scaled or shifted values) are decided on that instance, which
        # makes the run a concrete witness for the position it stands for
        self.witness = witness
        self.used_witness = []

    def sym(self, p):
        if isinstance(p, Poly):
            q = p.clean()
            if len(q.t) == 1:
                (m, c), = q.t.items()
                if len(m) == 1 and m[0][1] == 1 and abs(c - 1) < 1e-30:
                    from poly import atom_of
                    a = atom_of(m[0][0])
                    if a[0] == 'v' and a[1] in self.rank:
                        return a[1]
        return None

    def numeric(self, p):
        if isinstance(p, (int, float)):
            return float(p)
        if not isinstance(p, Poly) or self.witness is None:
            return None
        if not p.vars() <= set(self.witness):
            return None
        try:
            r = p.subst({('v', k): Poly.const(v) for k, v in self.witness.items()})
        except (ValueError, KeyError, ZeroDivisionError):
            return None
        return r.const_value() if r.is_const() else None

    def compare(self, op, a, b):
        sa, sb = self.sym(a), self.sym(b)
        if sa is None or sb is None:
            x, y = self.numeric(a), self.numeric(b)
            if x is None or y is None:
                return None
            self.used_witness.append('%s %s %s' % (a, op, b))
            return {'<': x < y, '>': x > y, '<=': x <= y, '>=': x >= y, '==': x == y, '!=': x != y}[op]
        ra, rb = self.rank[sa], self.rank[sb]
        return {'<': ra < rb, '>': ra > rb, '<=': ra <= rb, '>=': ra >= rb, '==': ra == rb, '!=': ra != rb}[op]

    def sorted(self, vals):
        for i in range(len(vals) - 1):
            r = self.compare('<=', vals[i], vals[i + 1])
            if r is None:
                raise Unsupported('sortedness of values whose order is not decidable')
            if not r:
                return False
        return True

    def bound(self, vals, v, lower):
        # lower_bound: first element not less than v; upper_bound: first element greater than v.  Decided by the order
        # relation between symbols, or (values that are not plain symbols) on the concrete instance of the order
        for i, x in enumerate(vals):
            r = self.compare('<', x, v) if lower else self.compare('>', x, v)
            if r is None:
                raise Unsupported('bound over values whose order with %r is not decidable' % (v,))
            if (lower and not r) or (not lower and r):
                return i
        return len(vals)


def new_solver(db, nx, nsun, nrhos, nscalars, hooks=None, ti=None):
    """interpret SQuIDS() and ini(nx,nsun,nrhos,nscalars,ti); returns (cell of the object, hooks, interpreter)"""
    unit = db.unit('SQuIDS')
    hooks = hooks or SquidsHooks(nsun)
    it = Interp(unit, hooks)
    ctor = db.one('SQuIDS', 'squids::SQuIDS::SQuIDS', 0)
    this = Cell(Obj(SQ, None, 'solver'), None, 0, 'solver')
    it.call(ctor, this, [])
    ini = db.one('SQuIDS', 'squids::SQuIDS::ini', 5)
    it.call(ini, this, [nx, nsun, nrhos, nscalars, ti if ti is not None else Poly.var('ti')])
    sysreg = this.value.fields['system'].value.fields['p'].value.region
    hooks.system_region = sysreg
    # give the stored state symbolic contents
    for k in range(sysreg.size):
        sysreg.cell(k).value = Poly.var('S%d' % k)
    return this, hooks, it


def field(this, name):
    return this.value.fields[name].value


def su_state(this, which, ei):
    """SU_state object number ei of state/estate/dstate"""
    up = field(this, which)
    p = up.fields['p'].value
    return p.region.cell(p.off + ei).value


def rho_vec(this, which, ei, i):
    st = su_state(this, which, ei)
    p = st.fields['rho'].value.fields['p'].value
    return p.region.cell(p.off + i).value
