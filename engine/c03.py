"""C03 — time evolution by a diagonal operator is exact conjugation.
Engine A: for d=2..6 the slot table of EvolutionProxy::compute, the sin/cos table written by
PrepareEvolve(buffer,t) and the table of FastEvolutionProxy::compute fed with that buffer are
extracted and compared with exp(iHt) A exp(-iHt) computed over the basis of C01, H being the
diagonal part of the operator vector."""
from guarded import same, explain, generic_leaf
from astdb import AnalysisBroken
from interp import Interp, Obj, Cell, Thrown, Ptr, Region, UNDEF, ITE
from kernels import make_suv
from poly import Poly, CPoly, apply_func, mat_zero, atom_arg
import basis
import proxies

DIMS = basis.DIMS


def energies(db, d, prefix='b'):
    """E_i = diagonal entries of sum_k h_k lambda_k (only diagonal generators contribute)"""
    H = basis.matrix_from(db, d, [Poly.var('%s%d' % (prefix, k)) for k in range(d * d)])
    return [H[i][i].re for i in range(d)]


def phase(db, d, i, j, t, prefix='b'):
    E = energies(db, d, prefix)
    return t * (E[i] - E[j])


def oracle_evolved(db, d, t=None, cs=None):
    """components of exp(iHt) A exp(-iHt); cs(i,j) -> (cos,sin) of phi_ij may be supplied (i<j)"""
    t = t if t is not None else Poly.var('t')
    A = basis.matrix_from(db, d, [Poly.var('a%d' % k) for k in range(d * d)])
    X = mat_zero(d)
    for i in range(d):
        for j in range(d):
            if i == j:
                X[i][j] = A[i][j]
                continue
            lo, hi = min(i, j), max(i, j)
            if cs is None:
                ph = phase(db, d, lo, hi, t)
                c, s = apply_func('cos', ph), apply_func('sin', ph)
            else:
                c, s = cs(lo, hi)
            if i > j:
                s = -s
            X[i][j] = CPoly(c, s) * A[i][j]
    return basis.project(db, d, X)


def check_direct(db, rep, tier):
    unit = db.unit('instantiate')
    n = 0
    for d in DIMS:
        try:
            oracle = oracle_evolved(db, d)
        except (AnalysisBroken, Thrown) as e:
            rep.break_('basis for dimension %d unavailable: %s' % (d, e))
            continue
        combos = [('AssignWrapper', False)]
        if tier == 'thorough':
            combos += [('IncrementWrapper', True), ('DecrementWrapper', False)]
        for w, al in combos:
            a, _ = make_suv('A', d, 'a')
            h, _ = make_suv('H', d, 'b')
            try:
                proxy, ef = proxies.build_proxy(db, 'Evolution', a, h, proxies.ProxyHooks(), t=Poly.var('t'))
                tgt, hooks, cf = proxies.run_compute(db, 'Evolution', proxy, d, w, al)
            except Thrown as t:
                rep.fail('A.evol.table', 'Evolution/%d' % d, unit.loc(t.node), 'kernel for dimension %d' % d, 'throw: %s' % t.what)
                continue
            rep.fn(cf['name'])
            rep.fn(ef['name'])
            writes = {}
            for reg, off, kind, loc in hooks.wrapper_calls:
                if reg is tgt:
                    writes.setdefault(off, []).append(loc)
            for k in range(d * d):
                n += 1
                site = 'Evolution/%d/slot%d' % (d, k) + ('' if w == 'AssignWrapper' else '/' + w)
                loc = (writes.get(k) or ['include/SQuIDS/SU_inc/EvolutionSU%d.txt' % d])[0]
                if len(writes.get(k, [])) != 1:
                    rep.fail('A.evol.table', site, loc, 'slot %d written exactly once' % k, 'written %d times' % len(writes.get(k, [])), cf['name'])
                    continue
                T = Poly.var('T%d' % k)
                wre, wim = oracle[k]
                want = {'AssignWrapper': wre, 'IncrementWrapper': T + wre, 'DecrementWrapper': T - wre}[w]
                got = tgt.cell(k).value
                if same(got, want) and wim.is_zero():
                    rep.ok('A.evol.table')
                    if k == 1:
                        rep.sample('A.evol.table', 'd=%d slot 1: %s' % (d, got))
                else:
                    diffs = got.diff_terms(want) if isinstance(got, Poly) else [repr(got)]
                    rep.fail('A.evol.table', site, loc, 'exp(iHt) A exp(-iHt) over the extracted basis', '; '.join(diffs), cf['name'])
    rep.floor('A.evol.table', n, 90)


def run_prepare(db, d, nparams, args_fn, prefix='b'):
    unit = db.unit('SUNalg')
    f = db.one('SUNalg', 'squids::SU_vector::PrepareEvolve', nparams)
    h, _ = make_suv('H', d, prefix)
    npair = d * (d - 1) // 2
    buf = Region('buffer', 2 * npair, lambda k: Poly.var('BUFOLD%d' % k), 'heap')  # what the caller's buffer held before
    hooks = proxies.ProxyHooks()
    writes = {}
    orig = hooks.on_write

    def on_write(it, cell, old, new, node):
        if cell.region is buf:
            writes.setdefault(cell.idx, []).append(it.loc(node) if node else '?')
    hooks.on_write = on_write
    it = Interp(unit, hooks)
    extra = args_fn()
    it.call(f, h, [Ptr(buf, 0)] + extra)
    return f, buf, writes, hooks, it


def pair_of_arg(db, d, arg, t):
    """which (i<j) has phase t*(E_i-E_j) == +-arg"""
    for i in range(d):
        for j in range(i + 1, d):
            ph = phase(db, d, i, j, t)
            if arg.equals(ph) or arg.equals(-ph):
                return (i, j)
    return None


def func_arg(p, fname):
    """if p == +-fname(arg) return (sign, arg) else None"""
    p = p.clean()
    if len(p.t) != 1:
        return None
    (m, c), = p.t.items()
    if len(m) != 1 or m[0][1] != 1:
        return None
    from poly import atom_of
    a = atom_of(m[0][0])
    if a[0] != 'f' or a[1] != fname:
        return None
    if abs(abs(c) - 1) > 1e-14:
        return None
    return (1 if c > 0 else -1), atom_arg(a)


def check_prepare_and_fast(db, rep, tier):
    unit = db.unit('SUNalg')
    n_pre = n_fast = 0
    for d in DIMS:
        npair = d * (d - 1) // 2
        t = Poly.var('t')
        try:
            f, buf, writes, hooks, it = run_prepare(db, d, 2, lambda: [t])
        except Thrown as th:
            rep.fail('A.evol.pre', 'PrepareEvolve/%d' % d, unit.loc(th.node), 'table for dimension %d' % d, 'throw: %s' % th.what)
            continue
        rep.fn(f['name'] + '(double*,double)')
        where = 'include/SQuIDS/SU_inc/PreSinCosEvolSU%d.txt' % d
        pairs_seen = {}
        table_ok = True
        for k in range(npair):
            n_pre += 1
            site = 'PrepareEvolve/%d/pair%d' % (d, k)
            wc, ws = writes.get(k, []), writes.get(npair + k, [])
            if len(wc) < 1 or len(ws) < 1:
                table_ok = False
                rep.fail('A.evol.pre', site, (wc + ws + [where])[0], 'CX[%d] and SX[%d] written' % (k, k),
                         'CX written %d times, SX written %d times' % (len(wc), len(ws)), f['name'])
                continue
            c, s = buf.cell(k).value, buf.cell(npair + k).value
            # special-cased arguments (a shortcut for t == 0, say) give guarded entries: the phase is read off the generic
            # arm, and the whole guarded entry must equal cos / sin of that phase for all inputs
            gc, gs = generic_leaf(c), generic_leaf(s)
            fc = func_arg(gc, 'cos') if isinstance(gc, Poly) else None
            fs = func_arg(gs, 'sin') if isinstance(gs, Poly) else None
            if fc is not None and fs is not None and (isinstance(c, ITE) or isinstance(s, ITE)):
                if not (same(c, gc) and same(s, gs)):  # the special-cased values agree with the generic formula there
                    fc = None
            if fc is None or fs is None or fc[0] != 1 or not fc[1].equals(fs[1]):
                table_ok = False
                rep.fail('A.evol.pre', site, wc[0], 'CX[k]=cos(phi), SX[k]=sin(phi) of one phase phi', 'CX=%s SX=%s' % (c, s), f['name'])
                continue
            pr = pair_of_arg(db, d, fs[1], t)
            if pr is None or pr in pairs_seen:
                table_ok = False
                rep.fail('A.evol.pre', site, wc[0], 'phase t*(E_i-E_j) of a level pair not used by another k',
                         'phase %s (%s)' % (fs[1], 'no level pair' if pr is None else 'pair %s already used by k=%d' % (pr, pairs_seen[pr])), f['name'])
                continue
            pairs_seen[pr] = k
            rep.ok('A.evol.pre')
        extra_w = [i for i in writes if i >= 2 * npair]
        if extra_w:
            rep.fail('A.evol.pre', 'PrepareEvolve/%d/extent' % d, where, 'writes within [0,d(d-1))', 'writes at %s' % extra_w, f['name'])
        # composition with the consumer kernel
        try:
            oracle = oracle_evolved(db, d)
        except (AnalysisBroken, Thrown):
            continue
        combos = [('AssignWrapper', False)]
        if tier == 'thorough':
            combos += [('IncrementWrapper', False), ('DecrementWrapper', True)]
        for w, al in combos:
            a, _ = make_suv('A', d, 'a')
            try:
                proxy, ef = proxies.build_proxy(db, 'FastEvolution', a, None, proxies.ProxyHooks(), buf=Ptr(buf, 0))
                tgt, hooks2, cf = proxies.run_compute(db, 'FastEvolution', proxy, d, w, al)
            except Thrown as th:
                rep.fail('A.evol.fast', 'FastEvolution/%d' % d, unit.loc(th.node), 'kernel for dimension %d' % d, 'throw: %s' % th.what)
                continue
            rep.fn(cf['name'])
            wr = {}
            for reg, off, kind, loc in hooks2.wrapper_calls:
                if reg is tgt:
                    wr.setdefault(off, []).append(loc)
            for k in range(d * d):
                n_fast += 1
                site = 'FastEvolution/%d/slot%d' % (d, k) + ('' if w == 'AssignWrapper' else '/' + w)
                loc = (wr.get(k) or ['include/SQuIDS/SU_inc/SinCosEvolSU%d.txt' % d])[0]
                if len(wr.get(k, [])) != 1:
                    rep.fail('A.evol.fast', site, loc, 'slot %d written exactly once' % k, 'written %d times' % len(wr.get(k, [])), cf['name'])
                    continue
                T = Poly.var('T%d' % k)
                wre, wim = oracle[k]
                want = {'AssignWrapper': wre, 'IncrementWrapper': T + wre, 'DecrementWrapper': T - wre}[w]
                got = tgt.cell(k).value
                if same(got, want):
                    rep.ok('A.evol.fast')
                else:
                    diffs = got.diff_terms(want) if isinstance(got, Poly) else [repr(got)]
                    rep.fail('A.evol.fast', site, loc, 'PrepareEvolve then Evolve(buffer) = exp(iHt) A exp(-iHt)', '; '.join(diffs), cf['name'])
    rep.floor('A.evol.pre', n_pre, 35)
    rep.floor('A.evol.fast', n_fast, 90)


def check_derived(db, rep):
    """thorough: t=0 gives the identity map (substitution into the extracted table)"""
    for d in DIMS:
        a, _ = make_suv('A', d, 'a')
        h, _ = make_suv('H', d, 'b')
        proxy, ef = proxies.build_proxy(db, 'Evolution', a, h, proxies.ProxyHooks(), t=Poly.const(0))
        tgt, hooks, cf = proxies.run_compute(db, 'Evolution', proxy, d)
        ok = all(tgt.cell(k).value.equals(Poly.var('a%d' % k)) for k in range(d * d))
        if ok:
            rep.ok('A.derived')
        else:
            rep.fail('A.derived', 't0/%d' % d, 'include/SQuIDS/SU_inc/EvolutionSU%d.txt' % d, 'identity map at t=0', 'not the identity', cf['name'])


def run(db, rep, tier):
    rep.trusted += ['clang 14 AST of /repo sources under the build flags', 'sqdump extractor + abstract interpreter',
                    'mpmath 50-digit arithmetic; real-number semantics; sin/cos treated as exact functions with parity',
                    'basis matrices are those extracted from GetGSLMatrix (C01)']
    rep.declined += ['rounding', 'large-|t| argument reduction of libm']
    check_direct(db, rep, tier)
    check_prepare_and_fast(db, rep, tier)
    # evolving a vector in place (rho = rho.Evolve(...)) is only right if the evolution kernels, which mix components,
    # are not declared element-wise (the fused assignment would then overwrite its own input)
    import c09
    c09.check_traits(db, rep, only=('Evolution', 'FastEvolution'))
    if tier == 'thorough':
        check_derived(db, rep)
