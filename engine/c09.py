"""C09 — fused expression evaluation equals naive evaluation for every expression shape.
Engines B + A: (1) for every statement form {=, +=, -=, construct} x expression shape (20 entry
overloads of the 9 operations) x target storage kind x operand storage kinds / value categories x
alias pattern x dimension 2,3, assignProxy / the proxy constructor is abstractly interpreted with
symbolic component data and the values left in the target are compared with the operation
evaluated into a fresh temporary; failure cases must throw without modifying the target;
(2) every proxy kernel writes each target slot exactly once and never reads it; (3) the trait
table agrees with the kernels' dependence; (4) wrapper semantics; (5) the guarantee wrapper
forwards the alignment flag only when asserted, alignment hints only under the asserted flag."""
from astdb import AnalysisBroken, walk
from interp import Interp, Obj, Cell, Ptr, Region, Thrown, Ref
from kernels import make_suv, is_wrapper_update
from poly import Poly
from guarded import all_vars, same
import lifecycle
import ownrules
import proxies
import basis

DIMS = basis.DIMS


def check_single_assignment(db, rep, tier):
    """A.single: each target slot written through the wrapper exactly once; the kernel never reads the target
    (reads inside Wrapper::operator+= of Increment/Decrement are the fused update itself)"""
    unit = db.unit('instantiate')
    n = 0
    for op in proxies.OPS:
        for d in DIMS:
            a, _ = make_suv('A', d, 'a')
            b, _ = make_suv('B', d, 'b')
            buf = None
            if op == 'FastEvolution':
                npair = d * (d - 1) // 2
                r = Region('buf', 2 * npair, lambda k, n_=npair: Poly.var(('CX%d' % k) if k < n_ else 'SX%d' % (k - n_)))
                buf = Ptr(r, 0)
            try:
                proxy, ef = proxies.build_proxy(db, op, a, b, proxies.ProxyHooks(), scalar=Poly.var('s'), buf=buf, t=Poly.var('t'))
            except Thrown as t:
                rep.fail('A.single', '%s/%d/entry' % (op, d), unit.loc(t.node), 'proxy for equal dimensions', 'throw: %s' % t.what)
                continue
            # every wrapper without and with the aligned-storage guarantee (the guarantee selects another instantiation
            # of the kernel, which must store the same values)
            combos = [(w, False) for w in proxies.WRAPPERS] + [(w, True) for w in proxies.WRAPPERS]
            values = {}
            for w, al in combos:
                n += 1
                site = '%s/%s/%s/%d' % (op, w, 'aligned' if al else 'unaligned', d)
                try:
                    tgt, hooks, cf = proxies.run_compute(db, op, proxy, d, w, al)
                except Thrown as t:
                    rep.fail('A.single', site, unit.loc(t.node), 'kernel completes', 'throw: %s' % t.what)
                    continue
                rep.fn(cf['name'])
                counts = {}
                for reg, off, kind, where in hooks.wrapper_calls:
                    if reg is tgt:
                        counts[off] = counts.get(off, 0) + 1
                bad = [k for k in range(d * d) if counts.get(k, 0) != 1]
                stray = [(idx, fn, where) for idx, fn, where in hooks.reads if not is_wrapper_update(fn)]
                extra = [k for k in counts if not (0 <= k < d * d)]
                if bad:
                    rep.fail('A.single', site, unit.loc(cf), 'every target slot written exactly once', 'slot %d written %d times' % (bad[0], counts.get(bad[0], 0)), cf['name'])
                elif stray:
                    rep.fail('A.single', site, stray[0][2], 'the kernel never reads the target (so =, += and -= can be fused)',
                             'target slot %s read in %s' % (stray[0][0], stray[0][1]), cf['name'])
                elif extra:
                    rep.fail('A.single', site, unit.loc(cf), 'writes inside [0,d^2)', 'slot %s' % extra[0], cf['name'])
                elif (not al) and hooks_assume_aligned(hooks):
                    rep.fail('A.align', site, unit.loc(cf), 'alignment assumptions only under the asserted flag', 'assume_aligned reached with Aligned=false', cf['name'])
                else:
                    rep.ok('A.single')
                vals = [tgt.cell(k).value for k in range(d * d)]
                if al and (w, False) in values:
                    ref = values[(w, False)]
                    diff = [k for k in range(d * d) if not same(vals[k], ref[k]) and not (isinstance(ref[k], type(vals[k])) and repr(ref[k]) == repr(vals[k]))]
                    if diff:
                        rep.fail('A.single', site + '/agree', unit.loc(cf), 'the kernel selected by the aligned-storage guarantee stores the same values as the plain one',
                                 'slot %d: %s instead of %s' % (diff[0], vals[diff[0]], ref[diff[0]]), cf['name'])
                    else:
                        rep.ok('A.single')
                values[(w, al)] = vals
    rep.floor('A.single', n, 9 * 5 * 3 * 2)


def hooks_assume_aligned(hooks):
    return getattr(hooks, 'assume_aligned', 0) > 0


def const_in(fdecl, name):
    """evaluated constant of the first reference to a static constexpr member called `name` in fdecl's body"""
    for n in walk(fdecl['body']):
        if n.get('k') in ('DeclRefExpr', 'MemberExpr') and (n.get('name') == name or n.get('member') == name) and 'cv' in n:
            return n['cv']
    return None


def check_traits(db, rep, only=None):
    """A.trait.dep: elementwise <=> slot k depends only on operand slots k; arity 1 => suv2 bound to suv1"""
    unit = db.unit('instantiate')
    n = 0
    for op, (pcls, ename, pred) in proxies.OPS.items():
        if only is not None and op not in only:
            continue
        n += 1
        fas = proxies.assign_proxy_fn(db, 'AssignWrapper', pcls)
        elementwise = const_in(fas, 'elementwise')
        arity = const_in(fas, 'vector_arity')
        if elementwise is None:
            # the condition is short-circuited away when the trait is a compile-time constant: read it from mayStealArg1
            fm = db.find('instantiate', 'squids::detail::EvaluationProxy<%s>::mayStealArg1' % pcls)
            elementwise = const_in(fm[0], 'elementwise') if fm else None
        if elementwise is None:
            raise AnalysisBroken('trait elementwise of %s not found' % pcls)
        d = 3
        a, _ = make_suv('A', d, 'a')
        b, _ = make_suv('B', d, 'b')
        buf = None
        if op == 'FastEvolution':
            r = Region('buf', 6, lambda k: Poly.var(('CX%d' % k) if k < 3 else 'SX%d' % (k - 3)))
            buf = Ptr(r, 0)
        proxy, ef = proxies.build_proxy(db, op, a, b, proxies.ProxyHooks(), scalar=Poly.var('s'), buf=buf, t=Poly.var('t'))
        tgt, hooks, cf = proxies.run_compute(db, op, proxy, d)
        local = True
        for k in range(d * d):
            vs = all_vars(tgt.cell(k).value)
            for v in vs:
                if v[0] in 'ab' and v[1:].isdigit() and int(v[1:]) != k:
                    local = False
        site = op
        if bool(elementwise) and not local:
            rep.fail('A.trait.dep', site, unit.loc(cf), 'a kernel declared element-wise reads only operand slot k for target slot k',
                     'trait elementwise=true but the kernel mixes slots (operand storage may be stolen/overwritten while still needed)', cf['name'])
        else:
            rep.ok('A.trait.dep')
            rep.sample('A.trait.dep', '%s: elementwise=%s, kernel index-local=%s, arity=%s' % (op, bool(elementwise), local, arity))
        # arity 1 => the constructor binds suv2 to suv1
        if arity == 1:
            r1, r2 = proxy.fields['suv1'].value, proxy.fields['suv2'].value
            if isinstance(r1, Ref) and isinstance(r2, Ref) and r1.cell is r2.cell:
                rep.ok('A.trait.dep')
            else:
                rep.fail('A.trait.dep', site + '/arity', unit.loc(ef), 'unary operation binds suv2 to the same operand as suv1', 'different operands', ef['name'])
        elif arity == 2:
            # the alias test must then look at suv2 as well: decided by the alias cases of rule B.value
            rep.ok('A.trait.dep')
    rep.floor('A.trait.dep', n, 9 if only is None else len(only))


def check_wrappers(db, rep):
    unit = db.unit('instantiate')
    want = {'AssignWrapper': (lambda T, x: x, 'squids::SU_vector::operator=', 1),
            'IncrementWrapper': (lambda T, x: T + x, 'squids::SU_vector::operator+=', 0),
            'DecrementWrapper': (lambda T, x: T - x, 'squids::SU_vector::operator-=', 0)}
    for w, (f, applied, resize) in want.items():
        wq = proxies.wrapper_type(db, w)
        fop = db.one('instantiate', wq + '::operator+=', 1)
        reg = Region('cellv', 1, lambda k: Poly.var('T'))
        o = Obj(wq)
        o.field('v').value = Ptr(reg, 0)
        it = Interp(unit, proxies.ProxyHooks())
        it.call(fop, Cell(o, None, 0, 'w'), [Poly.var('x')])
        got = reg.cell(0).value
        if isinstance(got, Poly) and got.equals(f(Poly.var('T'), Poly.var('x'))):
            rep.ok('A.wrapper')
        else:
            rep.fail('A.wrapper', w + '::operator+=', unit.loc(fop), 'stores %s' % f(Poly.var('T'), Poly.var('x')), str(got), fop['name'])
        fap = db.find('instantiate', wq + '::apply<squids::SU_vector>')
        if not fap:
            raise AnalysisBroken('%s::apply<SU_vector> not instantiated' % w)
        # apply(target, source) is what the evaluate-through-a-temporary path uses: interpreted on two vectors
        tcell, treg = make_suv('target', 2, 'T')
        scell, sreg = make_suv('source', 2, 'x')
        it2 = Interp(unit, proxies.ProxyHooks())
        try:
            it2.call(fap[0], None, [tcell, scell])
            tp = tcell.value.fields['components'].value
            got2 = [tp.region.cell(tp.off + k).value for k in range(4)]
            ok2 = all(isinstance(g, Poly) and g.equals(f(Poly.var('T%d' % k), Poly.var('x%d' % k))) for k, g in enumerate(got2))
            found = 'component 0 becomes %s' % (got2[0],)
        except Thrown as t:
            ok2, found = False, 'throw: %s' % t.what
        if ok2:
            rep.ok('A.wrapper')
        else:
            rep.fail('A.wrapper', w + '::apply', unit.loc(fap[0]), 'applies %s: component k becomes %s' % (applied, f(Poly.var('T0'), Poly.var('x0'))), found, fap[0]['name'])
        fas = proxies.assign_proxy_fn(db, w, 'squids::detail::AdditionProxy')
        ar = const_in(fas, 'allowTargetResize')
        if ar is not None and int(ar) == resize:
            rep.ok('A.wrapper')
        else:
            rep.fail('A.wrapper', w + '::allowTargetResize', unit.loc(fas), 'allowTargetResize=%d' % resize, repr(ar), fas['name'])


def check_guarantee(db, rep):
    unit = db.unit('instantiate')
    n = 0
    for f in unit.functions:
        nm = f['name']
        if not nm.startswith('squids::detail::GuaranteeWrapper<') or '::compute<' not in nm:
            continue
        flags = int(nm[len('squids::detail::GuaranteeWrapper<'):].split(',')[0])
        calls = [c.get('callee', '') for c in walk(f['body']) if c.get('k') == 'CXXMemberCallExpr']
        n += 1
        want = 'true' if flags & 4 else 'false'
        if len(calls) == 1 and calls[0].rstrip('>').endswith(', ' + want):
            rep.ok('A.guarantee')
        else:
            rep.fail('A.guarantee', nm.split('::compute')[0], unit.loc(f), 'forwards Aligned=%s to the wrapped kernel' % want, 'calls %s' % calls, nm)
    rep.floor('A.guarantee', n, 12)


def run(db, rep, tier):
    rep.trusted += ownrules.TRUSTED + ['naive value = the same kernel interpreted on fresh, non-aliased operands (its table is C01-C03\'s obligation)']
    data = lifecycle.explore_cached(db, tier)
    nexpr = sum(v for k, v in data['ops'].items() if k.startswith('v ') or k.startswith('SU_vector v('))
    rep.notes.append('%d expression-statement paths explored' % nexpr)
    for k in sorted(data['ops']):
        if k.startswith('v ') or k.startswith('SU_vector v('):
            rep.fn(k)
    # values, failure policy
    sel_rules = ('B.value', 'C.throw.first', 'B.mustthrow', 'B.nothrow')
    expr_find = [f for f in data['findings'] if f[0] in sel_rules and not f[7]]
    seen = set()
    nbad = 0
    for (rule, site, where, expected, found, function, exc, af) in expr_find:
        if (rule, site) in seen:
            continue
        seen.add((rule, site))
        nbad += 1
        rep.fail('B.alias' if rule == 'B.value' else rule, site, where, expected, found, function)
    rep.ok('B.alias', max(nexpr - nbad, 0))
    # the invariant on expression statements (shared with C08: consumed operands)
    inv = [f for f in data['findings'] if f[0] in ('B.inv', 'B.inv.empty') and not f[7] and (f[1].startswith('v ') or f[1].startswith('SU_vector v('))]
    seen = set()
    for (rule, site, where, expected, found, function, exc, af) in inv:
        if site in seen:
            continue
        seen.add(site)
        rep.fail(rule, site, where, expected, found, function)
    # operand roles of the user element-wise operation (an asymmetric operation applied the wrong way round stores other
    # values than the naive evaluation)
    for label, (ok, detail, where, fn) in sorted(data['steal'].items()):
        if not ok and 'change roles' in detail:
            rep.fail('B.alias', label + '/roles', where, 'op(a[i], b[i]) with a the first and b the second operand of the expression', detail, fn)
    rep.floor('B.alias', nexpr, 1000)
    rep.sample('B.alias', 'e.g. v = iCommutator(v,b) with v owned: evaluated through a temporary, result equals the naive value; v -= a.Evolve(b,t) with v external of another size: throws, v untouched')
    check_single_assignment(db, rep, tier)
    check_traits(db, rep)
    check_wrappers(db, rep)
    check_guarantee(db, rep)
