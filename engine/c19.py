"""C19 — the shared block cache hands every cached block to at most one taker (structural necessary
conditions; linearizability under all interleavings needs a model checker and is declined).
Engine F on two compilations of detail/Cache.h: the thread-local variant the library builds, and the
shared (std::atomic) variant, which the normal build never compiles and which is obtained from
driver/cache_shared.cpp.  Rules: (1) record typestate: once insert()/get() has pushed a record onto
a list (published it) the operation must not touch it again; (2) conservation: after every
operation every record is on exactly one of the two lists, no cycles; (3) single-threaded
specification: all operation sequences up to a bound behave as a bounded LIFO pool (insert fails iff
full, fetch fails iff empty, fetch returns the last inserted value); (4) CAS loops: everything that
is derived from the observed head (version bump, successor index, the node's next pointer) is
recomputed inside the retry loop; checked syntactically and by forcing one failed
compare-exchange with a concurrent operation interposed."""
import itertools
import sys

from astdb import AnalysisBroken, walk, strip
from interp import (Interp, Hooks, Obj, Cell, Ptr, Region, Thrown, Unsupported, Opaque, NULL, UNDEF, NullDeref)
from stdmodel import StdHooks
from poly import Poly


class Violation19(Exception):
    def __init__(self, rule, what, where):
        self.rule, self.what, self.where = rule, what, where


class CacheHooks(StdHooks):
    value_init_zero = True  # `T()` zeroes the members of T before a constructor that is not user-provided runs

    def __init__(self, interfere=None):
        StdHooks.__init__(self)
        self.published = set()  # record names pushed during the current operation
        self.published_cells = {}
        self.in_op = None
        self.interfere = interfere  # callable(it, list_cell) executed once before the `interfere_at`-th CAS of the operation
        self.interfere_at = 1
        self.cas_count = 0
        self.cas_fail = 0

    # --- atomics (shared variant)
    def external_call(self, it, name, node, args, this_cell):
        base = name.split('<')[0]
        if name.startswith('std::__atomic_base<') or (name.startswith('std::atomic<') and name.split('<')[1].split('>')[0] in
                                                        ('unsigned int', 'int', 'unsigned long', 'long', 'unsigned short', 'bool', 'unsigned char', 'size_t')):
            # an atomic counter: every operation is one indivisible step of the sequential model
            meth = name.split('>::')[-1]
            cur = this_cell.value if this_cell is not None else None

            def num(v):
                v = v.value if isinstance(v, Cell) else v
                return int(v) if isinstance(v, (int, bool)) else v
            if meth in ('atomic', '__atomic_base'):
                if this_cell is not None:
                    this_cell.value = num(it.eval(args[0])) if args else 0
                return None
            if meth == 'load' or meth.startswith('operator ') and not args:
                return cur
            if meth in ('store', 'operator=') and args:
                v = num(it.eval(args[0]))
                it.write(this_cell, v, node)
                return v if meth == 'operator=' else None
            if meth in ('fetch_add', 'fetch_sub') and args:
                d = num(it.eval(args[0]))
                it.write(this_cell, cur + d if meth == 'fetch_add' else cur - d, node)
                return cur
            if meth in ('operator++', 'operator--'):
                d = 1 if meth == 'operator++' else -1
                it.write(this_cell, cur + d, node)
                return cur if args else cur + d  # postfix has the dummy int argument
            if meth in ('operator+=', 'operator-=') and args:
                d = num(it.eval(args[0]))
                it.write(this_cell, cur + d if meth == 'operator+=' else cur - d, node)
                return this_cell.value
            if meth == 'exchange' and args:
                v = num(it.eval(args[0]))
                it.write(this_cell, v, node)
                return cur
            if meth in ('compare_exchange_weak', 'compare_exchange_strong') and len(args) >= 2:
                exp = it.lval(args[0])
                des = num(it.eval(args[1]))
                if cur == num(exp.value):
                    it.write(this_cell, des, node)
                    return 1
                it.write(exp, cur, node)
                return 0
        if name.startswith('std::atomic<') and name.endswith('::atomic'):
            if this_cell is not None and not isinstance(this_cell.value, Obj):
                this_cell.value = Obj('list_head', None, this_cell.name)
            return None
        if name.startswith('std::atomic<') and name.endswith('::load'):
            return it.copy_value(this_cell.value)
        if name.startswith('std::atomic<') and name.endswith('::operator=') and len(args) == 1:
            v = it.eval(args[0])
            v = v.value if isinstance(v, Cell) else v
            cp = it.copy_value(v)
            if isinstance(cp, Obj):
                cp.tag = this_cell.name
            it.write(this_cell, cp, node)
            return cp
        if name.startswith('std::atomic<') and name.split('>::')[-1].startswith('operator ') and not args:
            return it.copy_value(this_cell.value)  # implicit conversion = load
        if name.startswith('std::atomic<') and name.endswith('::store'):
            v = it.eval(args[0])
            cp = it.copy_value(v)
            cp.tag = this_cell.name
            it.write(this_cell, cp, node)
            return None
        member_cas = name.startswith('std::atomic<') and name.split('>::')[-1] in ('compare_exchange_weak', 'compare_exchange_strong')
        if base == 'std::atomic_compare_exchange_weak' or base == 'std::atomic_compare_exchange_strong' or member_cas:
            if member_cas:
                obj = this_cell
                exp = it.lval(args[0])
                des = it.eval(args[1])
            else:
                obj = it.deref(it.eval(args[0]), node)
                exp = it.deref(it.eval(args[1]), node)
                des = it.eval(args[2])
            if isinstance(des, Cell):
                des = des.value
            self.cas_count += 1
            if self.interfere is not None and self.cas_count == self.interfere_at:
                f = self.interfere
                self.interfere = None
                f(it, obj)
            cur, e = obj.value, exp.value
            same = all(cur.fields[k].value == e.fields[k].value for k in cur.fields)
            if same:
                if 'counter' in cur.fields and des.fields['counter'].value == cur.fields['counter'].value:
                    raise Violation19('F.cas.shape', 'a successful exchange installs a head with the same version number %r (no ABA protection)'
                                      % (cur.fields['counter'].value,), it.loc(node))
                if 'counter' in cur.fields:
                    c0, c1 = cur.fields['counter'].value, des.fields['counter'].value
                    if isinstance(c0, int) and isinstance(c1, int) and c1 < c0 and c0 != 2 ** 32 - 1:
                        raise Violation19('F.cas.shape', 'a successful exchange takes the version number back from %d to %d: an exchange another thread prepared against an '
                                          'earlier head with that version and the same record can succeed later (ABA)' % (c0, c1), it.loc(node))
                cp = it.copy_value(des)
                cp.tag = obj.name
                it.write(obj, cp, node)
                return 1
            self.cas_fail += 1
            cp = it.copy_value(cur)
            it.write(exp, cp, node)
            return 0
        return StdHooks.external_call(self, it, name, node, args, this_cell)

    def override_call(self, it, fdecl, node, args, this_cell):
        nm = fdecl['name']
        if nm.endswith('::push') and self.in_op is not None:
            nodeptr = it.eval(args[1])
            it.call(fdecl, this_cell, [it.lval(args[0]), nodeptr], node)
            if isinstance(nodeptr, Ptr) and nodeptr.region is not None:
                self.published.add(nodeptr.off)
                # every cell of the record (its link and, recursively, its payload) is now visible to other threads
                stack = [nodeptr.region.cell(nodeptr.off)]
                while stack:
                    c = stack.pop()
                    self.published_cells[id(c)] = 'entries[%s]' % nodeptr.off
                    v = c.value
                    if isinstance(v, Obj):
                        for fk, fc in v.fields.items():
                            self.published_cells[id(fc)] = 'entries[%s].%s' % (nodeptr.off, fk)
                            stack.append(fc)
            return None
        return NotImplemented

    def _check(self, it, cell, node, what):
        if self.in_op is None or not self.published:
            return
        fn = it.frame.fdecl.get('name', '')
        if fn.endswith('::pop') or fn.endswith('::push'):
            return
        nm = cell.where()
        if id(cell) in self.published_cells:
            raise Violation19('F.rec.state', '%s of %s after the record was pushed onto a list (another thread may already have re-used it)'
                              % (what, self.published_cells[id(cell)]), it.loc(node) if node else None)
        for idx in self.published:
            if nm.startswith('entries[%d]' % idx):
                raise Violation19('F.rec.state', '%s of %s after the record was pushed onto a list (another thread may already have re-used it)' % (what, nm),
                                  it.loc(node) if node else None)

    def on_read(self, it, cell, node):
        self._check(it, cell, node, 'read')

    def on_write(self, it, cell, old, new, node):
        self._check(it, cell, node, 'write')


def entry_obj(tag, rec):
    o = Obj(rec, None, None)
    r = Region('blk_' + tag, 1, None, 'heap')
    o.field('storage').value = Ptr(r, 0)
    o.field('offset').value = 0
    return o


class Cache:
    """an abstractly interpreted cache object of one configuration"""

    def __init__(self, db, unit_name, cls, entry_rec):
        self.db = db
        self.unit = db.unit(unit_name)
        self.cls = cls
        self.entry_rec = entry_rec
        # insert/get are the interface; pop/push are helpers that a configuration may or may not have
        self.f = {n: db.one(unit_name, '%s::%s' % (cls, n)) for n in ('insert', 'get')}
        for n in ('pop', 'push'):
            fs = db.find(unit_name, '%s::%s' % (cls, n))
            if len(fs) == 1:
                self.f[n] = fs[0]
        self.ctor = db.one(unit_name, '%s::cache' % cls)
        self.N = None
        self.seen = {}  # per cache object: records that have been on a list
        self.static_storage = True

    def zero_object(self, rec_name, tag):
        """an object of static storage duration before any constructor runs: every scalar zero, every pointer null"""
        import re as _re
        recs = [r for r in self.unit.records if (r.get('spec') or r['name']) == rec_name or r['name'] == rec_name]
        o = Obj(rec_name, None, tag)
        if not recs:
            return o
        for f in recs[0]['fields']:
            t = f['t']
            m = _re.match(r'^(.*)\[(\d+)\]$', t)
            if m:
                et, cnt = m.group(1).strip(), int(m.group(2))
                reg = Region('%s.%s' % (tag, f['name']), cnt, None, 'member')
                for i in range(cnt):
                    reg.cell(i).value = self.zero_value(et, '%s.%s[%d]' % (tag, f['name'], i))
                o.field(f['name']).value = reg
            else:
                o.field(f['name']).value = self.zero_value(t, '%s.%s' % (tag, f['name']))
        return o

    def zero_value(self, t, tag):
        t = t.strip()
        if t.endswith('*'):
            return NULL
        if t in ('double', 'float', 'long double'):
            return Poly.const(0)
        if t in ('bool', 'char', 'unsigned char', 'short', 'unsigned short', 'int', 'unsigned int', 'long', 'unsigned long', 'size_t', 'uint32_t', 'uint64_t', 'unsigned long long', 'long long'):
            return 0
        if t.startswith('std::atomic<'):
            inner = t[len('std::atomic<'):-1]
            return self.zero_value(inner, tag)
        return self.zero_object(t, tag)

    def new(self, hooks=None):
        hooks = hooks or CacheHooks()
        it = Interp(self.unit, hooks)
        # the caches are objects of static or thread storage duration: zero-initialised before their constructor runs
        # (a constructor that leaves members alone - constant initialisation - therefore starts from zeros, not from garbage)
        this = Cell(self.zero_object(self.cls, 'cache') if self.static_storage else Obj(self.cls, None, 'cache'), None, 0, 'cache')
        it.call(self.ctor, this, [])
        try:
            self.N = this.value.fields['entries'].value.size
        except (KeyError, AttributeError):
            # another representation: the capacity is the template argument
            import re as _re
            m = _re.search(r',\s*(\d+)U?>$', self.cls)
            if not m:
                raise AnalysisBroken('capacity of %s not found' % self.cls)
            self.N = int(m.group(1))
            self.opaque = True
        return this, it, hooks

    def heads(self, this):
        out = {}
        for nm in ('free_list', 'data_list'):
            v = this.value.fields[nm].value
            out[nm] = v.fields['index'].value
        return out

    def lists(self, this):
        """(free records, data records) as index lists following next pointers; raises on cycles / foreign pointers"""
        ent = this.value.fields['entries'].value
        res = {}
        for nm, head in self.heads(this).items():
            seq = []
            idx = head
            while idx != self.N:
                if idx in seq or not (0 <= idx < self.N):
                    raise Violation19('F.rec.conserve', 'list %s is cyclic or leaves the record array at %s' % (nm, idx), None)
                seq.append(idx)
                rec = ent.cell(idx).value
                nxt = rec.fields['next'].value if isinstance(rec, Obj) and 'next' in rec.fields else UNDEF
                if nxt is UNDEF:
                    raise Violation19('F.rec.conserve', 'the link of record %d (on list %s) was never initialised: its value is whatever the storage of the cache object held' % (idx, nm), None)
                if isinstance(nxt, Ptr) and not nxt.is_null():
                    if nxt.region is not ent:
                        raise Violation19('F.rec.conserve', 'next pointer outside the record array', None)
                    idx = nxt.off
                else:
                    idx = self.N
            res[nm] = seq
        return res['free_list'], res['data_list']

    def check_conservation(self, this):
        """no record on both lists or twice on one; a record that has been on a list is on exactly one list after every
        operation.  (A design that links records lazily never has the unused ones on a list: they are not missed.)"""
        if getattr(self, 'opaque', False):
            return None, None
        try:
            free, data = self.lists(this)
        except (KeyError, AttributeError):
            # the two intrusive lists are not there under the names this rule was armed on: the pool is judged by its
            # behaviour only (rule F.stack.spec)
            self.opaque = True
            return None, None
        both = sorted(free + data)
        if len(set(both)) != len(both) or any(not (0 <= r < self.N) for r in both):
            raise Violation19('F.rec.conserve', 'records on the free list %s and the data list %s do not partition the %d records' % (free, data, self.N), None)
        seen = self.seen.setdefault(id(this), set())
        gone = sorted(seen - set(both))
        if gone:
            raise Violation19('F.rec.conserve', 'records %s were on a list before and are on neither now (free list %s, data list %s): they do not partition the %d records' % (gone, free, data, self.N), None)
        seen.update(both)
        return free, data

    def op_insert(self, this, it, hooks, tag):
        hooks.in_op = 'insert'
        hooks.published = set()
        hooks.published_cells = {}
        hooks.cas_count = 0
        try:
            r = it.call(self.f['insert'], this, [entry_obj(tag, self.entry_rec)])
        finally:
            hooks.in_op = None
        return bool(r)

    def op_get(self, this, it, hooks):
        hooks.in_op = 'get'
        hooks.published = set()
        hooks.published_cells = {}
        hooks.cas_count = 0
        try:
            r = it.call(self.f['get'], this, [])
        finally:
            hooks.in_op = None
        st = r.fields['storage'].value if isinstance(r, Obj) and 'storage' in r.fields else None
        if isinstance(st, Ptr) and not st.is_null():
            return st.region.name[4:]
        return None


def explore_sequences(cache, rep, label, prefix_fills, length, where, typestate=True):
    """all operation sequences of the given length after each prefix, compared with a bounded LIFO model"""
    n = 0
    for fill in prefix_fills:
        for seq in itertools.product('IG', repeat=length):
            n += 1
            this, it, hooks = cache.new()
            if not typestate:
                # a record touched after publication is harmless when the cache is private to one thread
                hooks._check = lambda *a, **k: None
            model = []
            tagno = 0
            site = '%s/fill=%d/%s' % (label, fill, ''.join(seq))
            try:
                cache.check_conservation(this)
                for k in range(fill):
                    tagno += 1
                    ok = cache.op_insert(this, it, hooks, 't%d' % tagno)
                    if ok:
                        model.append('t%d' % tagno)
                for opi, op in enumerate(seq):
                    if op == 'I':
                        tagno += 1
                        ok = cache.op_insert(this, it, hooks, 't%d' % tagno)
                        want = len(model) < cache.N
                        if ok != want:
                            raise Violation19('F.stack.spec', 'insert into a pool holding %d of %d returned %s' % (len(model), cache.N, ok), None)
                        if ok:
                            model.append('t%d' % tagno)
                    else:
                        got = cache.op_get(this, it, hooks)
                        want = model.pop() if model else None
                        if got != want:
                            raise Violation19('F.stack.spec', 'fetch returned %s, the last inserted block not yet fetched is %s' % (got, want), None)
                    free, data = cache.check_conservation(this)
                    if data is not None and len(data) != len(model):
                        raise Violation19('F.rec.conserve', 'data list holds %d records for %d stored blocks' % (len(data), len(model)), None)
            except NullDeref as e:
                rep.fail('F.stack.spec', site, where, 'bounded last-in-first-out pool: insert fails iff full, fetch fails iff empty',
                         'null record dereferenced (%s): an empty/full list is not handled' % e, cache.cls)
                return n, False
            except Violation19 as v:
                if v.rule == 'F.cas.shape':
                    rep.fail('F.cas.shape', label.split('(')[0] + '/version', v.where or where, 'every successful exchange advances the version counter', v.what, cache.cls)
                    return n, False
                rep.fail(v.rule, site if v.rule != 'F.rec.state' else '%s/%s' % (label, v.what.split(' of ')[0] + '-after-push'), v.where or where,
                         {'F.stack.spec': 'bounded last-in-first-out pool: insert fails iff full, fetch fails iff empty',
                          'F.rec.conserve': 'every record on exactly one list after every operation',
                          'F.rec.state': 'no access to a record after it has been pushed (published)'}[v.rule], v.what, cache.cls)
                if v.rule == 'F.rec.state':
                    return n, False
                continue
    return n, True


def is_cas(c):
    callee = c.get('callee') or ''
    if c.get('k') == 'CallExpr' and callee.startswith('std::atomic_compare_exchange'):
        return True
    return c.get('k') == 'CXXMemberCallExpr' and callee.startswith('std::atomic<') and callee.split('>::')[-1] in ('compare_exchange_weak', 'compare_exchange_strong')


def cas_shape(cache, rep):
    """Observation only (never a verdict): the spelling of the retry loops.  Inside a loop retried on compare_exchange,
    values derived from the observed head are normally recomputed in the loop and the version counter is advanced
    there.  Whether a given spelling is right is decided behaviourally (rule F.cas.retry and the version check of
    the exchange model), because equivalent code can be written in many ways (aggregate initialisation of the desired
    head, helper functions, a single attempt without a loop); what is seen here is recorded in the evidence notes."""
    unit = cache.unit
    n = 0
    for nm in ('pop', 'push'):
        f = cache.f.get(nm)
        if f is None:
            rep.notes.append('F.cas.shape: no %s helper in this configuration' % nm)
            continue
        loops = [x for x in walk(f['body']) if x.get('k') in ('DoStmt', 'WhileStmt', 'ForStmt') and any(is_cas(c) for c in walk(x))]
        n += 1
        if not loops:
            rep.notes.append('F.cas.shape: %s has no loop around its compare-exchange (single attempt)' % nm)
            continue
        loop = loops[-1]
        cas = [c for c in walk(loop) if is_cas(c)][0]
        exp_arg = cas['args'][0] if cas.get('k') == 'CXXMemberCallExpr' else cas['args'][1]
        exp_var = None
        for x in walk(exp_arg):
            if x.get('k') == 'DeclRefExpr':
                exp_var = x['id']
        inside = set(id(x) for x in walk(loop))
        outside = []
        for x in walk(f['body']):
            if id(x) in inside or exp_var is None:
                continue
            if x.get('k') == 'BinaryOperator' and x.get('op') == '=' and any(y.get('k') == 'DeclRefExpr' and y.get('id') == exp_var for y in walk(x['c'][1])):
                outside.append(unit.loc(x))
            if x.get('k') == 'VarDecl' and x.get('init') is not None and x.get('id') != exp_var and \
                    any(y.get('k') == 'DeclRefExpr' and y.get('id') == exp_var for y in walk(x['init'])):
                outside.append(unit.loc(x))
        rep.notes.append('F.cas.shape: %s retries on compare-exchange; values derived from the observed head outside the loop: %s'
                         % (nm, ', '.join(outside) if outside else 'none'))
    return n


def cas_interference(cache, rep, capacity=4, depth=1):
    """behavioural: a sequence of up to `depth` complete concurrent operations (each an insert or a fetch) is interposed
    between the load and the first or the second compare-exchange of an operation, for every fill level 0..capacity of
    the shared pool.  Judged by the clauses of the property that hold under concurrency: nothing is handed out twice,
    nothing is handed out that was not inserted, a failed insert keeps nothing, no more blocks are accepted than the
    capacity, every record stays on exactly one list, draining afterwards yields exactly the blocks stored and not
    fetched, and every access stays inside the record array.  (When an operation may *fail* under contention is
    not constrained by the property and is not judged.)"""
    import itertools
    from interp import OutOfBounds
    unit = cache.unit
    n = 0
    forced = 0
    nviol = 0
    # a trailing '|' marks an operation of a further thread that is itself suspended before its second exchange (its
    # record is then on neither list) and completes only after the operation under test has finished; allowed from
    # depth 3 on, at most one per sequence
    kinds = ('insert', 'get')
    seqs = [q for k in range(1, depth + 1) for q in itertools.product(kinds, repeat=k)]
    if depth >= 3:
        for k in range(2, depth + 1):
            for q in itertools.product(kinds, repeat=k):
                for pos in range(k - 1):
                    seqs.append(q[:pos] + (q[pos] + '|',) + q[pos + 1:])
    for fill in range(0, capacity + 1):
        for mine in ('insert', 'get'):
            for others in seqs:
                for at in (1, 2):
                    short = {'insert': 'push', 'get': 'pop', 'insert|': 'push(suspended)', 'get|': 'pop(suspended)'}
                    scenario = '%s-vs-%s@%d/fill=%d' % (short[mine], '+'.join(short[o] for o in others), at, fill)
                    this, it, hooks = cache.new()
                    base = ['b%d' % (k + 1) for k in range(fill)]
                    for tag in base:
                        cache.op_insert(this, it, hooks, tag)
                    state = {'done': False, 'results': [], 'pending': [], 'late_error': None}

                    def run_others(it_, list_cell, others=others, this=this, state=state):
                        import threading
                        for k, o in enumerate(others):
                            sub = CacheHooks()
                            it2 = Interp(unit, sub)
                            if o == 'insert':
                                state['results'].append(('insert', 'o%d' % k, cache.op_insert(this, it2, sub, 'o%d' % k)))
                            elif o == 'get':
                                state['results'].append(('get', None, cache.op_get(this, it2, sub)))
                            else:
                                # the operation runs in a thread of its own that parks before its second exchange; exactly
                                # one of the two threads runs at any time
                                reached, resume, finished = threading.Event(), threading.Event(), threading.Event()

                                def park(it3, cell, reached=reached, resume=resume):
                                    reached.set()
                                    resume.wait()
                                sub.interfere_at = 2
                                sub.interfere = park

                                def body(o=o, k=k, sub=sub, it2=it2, reached=reached, finished=finished):
                                    try:
                                        if o == 'insert|':
                                            state['results'].append(('insert', 'o%d' % k, cache.op_insert(this, it2, sub, 'o%d' % k)))
                                        else:
                                            state['results'].append(('get', None, cache.op_get(this, it2, sub)))
                                    except BaseException as e:  # judged by the main thread
                                        state['late_error'] = state['late_error'] or e
                                    finally:
                                        finished.set()
                                        reached.set()
                                th = threading.Thread(target=body, daemon=True)
                                th.start()
                                if not reached.wait(60):
                                    raise AnalysisBroken('a suspended cache operation did not reach its second exchange')
                                state['pending'].append((th, resume))
                        state['done'] = True

                    def finish_pending(state=state):
                        for th, resume in state['pending']:
                            resume.set()
                            th.join(60)
                            if th.is_alive():
                                raise AnalysisBroken('a suspended cache operation did not finish')
                        state['pending'] = []
                        if state['late_error'] is not None:
                            e = state['late_error']
                            if isinstance(e, OutOfBounds):
                                raise Violation19('F.cas.shape', 'access outside the record array in a resumed operation: %s' % e, e.where)
                            if isinstance(e, NullDeref):
                                raise Violation19('F.cas.shape', 'null record dereferenced in a resumed operation: %s' % e, None)
                            raise e
                    hooks.interfere_at = at
                    hooks.interfere = run_others
                    hooks.cas_count = 0
                    hooks.cas_fail = 0
                    try:
                        try:
                            if mine == 'insert':
                                ok = cache.op_insert(this, it, hooks, 'mine')
                                got = None
                            else:
                                got = cache.op_get(this, it, hooks)
                                ok = None
                        except OutOfBounds as e:
                            raise Violation19('F.cas.shape', 'access outside the record array while retrying: %s' % e, e.where)
                        except NullDeref as e:
                            raise Violation19('F.cas.shape', 'null record dereferenced while retrying: %s' % e, None)
                        finally:
                            if state['pending'] and sys.exc_info()[0] is not None:
                                for th, resume in state['pending']:
                                    resume.set()
                                    th.join(60)
                                state['pending'] = []
                        finish_pending()
                        if not state['done']:
                            continue  # the operation finished before reaching that compare-exchange: no such interleaving
                        n += 1
                        if hooks.cas_fail:
                            forced += 1
                        inserted = set(base)
                        fetched = []
                        for kind, tag, res in state['results']:
                            if kind == 'insert' and res:
                                inserted.add(tag)
                            if kind == 'get' and res is not None:
                                fetched.append(res)
                        if mine == 'insert' and ok:
                            inserted.add('mine')
                        if mine == 'get' and got is not None:
                            fetched.append(got)
                            if at == 2 and got not in base:
                                raise Violation19('F.cas.shape', 'fetch returned %s, inserted after the fetch had already taken its record' % got, None)
                        for g in fetched:
                            if fetched.count(g) > 1:
                                raise Violation19('F.cas.shape', 'block %s was handed out by two fetches' % g, None)
                            if g not in inserted:
                                raise Violation19('F.cas.shape', 'fetch returned %s, which was never (successfully) inserted' % g, None)
                        stored = inserted - set(fetched)
                        if len(stored) > capacity:
                            raise Violation19('F.cas.shape', 'more blocks accepted (%d) than the capacity %d' % (len(stored), capacity), None)
                        cache.check_conservation(this)
                        drained = set()
                        sub = CacheHooks()
                        it2 = Interp(unit, sub)
                        while True:
                            try:
                                g = cache.op_get(this, it2, sub)
                            except OutOfBounds as e:
                                raise Violation19('F.cas.shape', 'access outside the record array while draining: %s' % e, e.where)
                            if g is None:
                                break
                            if g in drained:
                                raise Violation19('F.cas.shape', 'block %s handed out twice' % g, None)
                            drained.add(g)
                        if drained != stored:
                            raise Violation19('F.cas.shape', 'after the retried operation the pool holds %s, expected %s' % (sorted(drained), sorted(stored)), None)
                        rep.ok('F.cas.retry')
                    except Violation19 as v:
                        n += 0 if state['done'] else 1
                        nviol += 1
                        if nviol <= 12:
                            rep.fail('F.cas.retry', scenario, v.where or unit.loc(cache.f.get('pop') or cache.f['get']), 'a failed compare-exchange is retried on the freshly observed head', v.what, cache.cls)
    if not nviol:
        rep.floor('F.cas.retry', n, 24)
        if forced < 12:
            raise AnalysisBroken('only %d interference scenarios forced a failed exchange' % forced)
    rep.sample('F.cas.retry', '%d interleavings (fill 0..%d x insert/fetch x sequences of up to %d interposed operations x first/second exchange), %d with a failed and retried exchange'
               % (n, capacity, depth, forced))
    return n


def run(db, rep, tier):
    rep.trusted += ['clang 14 AST of detail/Cache.h in both configurations (driver/cache_shared.cpp compiles the atomic one)',
                    'sqdump extractor + abstract interpreter; std::atomic load/store/compare_exchange summarised sequentially, with forced interpositions (a suspended operation of a further thread is interpreted in a Python thread of its own that is parked at its second exchange: one interpreter runs at any time)',
                    'operation sequences enumerated exhaustively up to the stated length']
    rep.declined += ['linearizability under all interleavings of 2..3 threads (needs a model checker; explored: one preemption of one operation before its first or second exchange, with up to 3 (quick) / 4 (thorough) operations of other threads interposed, one of which may itself be suspended before its second exchange and complete only afterwards, at every fill level)']
    shared = Cache(db, 'cache_shared', 'squids::detail::cache<sqv_driver::entry, 4>', 'sqv_driver::entry')
    tls = Cache(db, 'SUNalg', 'squids::detail::cache<squids::SU_vector::mem_cache_entry, 32>', 'squids::SU_vector::mem_cache_entry')
    for c in (shared, tls):
        for f in c.f.values():
            rep.fn(f['name'] + (' [shared]' if c is shared else ' [thread-local]'))
    L = 8 if tier == 'thorough' else 7
    n1, ok1 = explore_sequences(shared, rep, 'shared(N=4)', (0, 3), L, 'include/SQuIDS/detail/Cache.h')
    n2, ok2 = explore_sequences(tls, rep, 'thread-local(N=32)', (0, 1, 31, 32), 4 if tier == 'quick' else 5, 'include/SQuIDS/detail/Cache.h', typestate=False)
    if ok1:
        rep.ok('F.rec.state')
        rep.ok('F.rec.conserve', n1)
        rep.ok('F.stack.spec', n1)
    if ok2:
        rep.ok('F.rec.conserve', n2)
        rep.ok('F.stack.spec', n2)
    rep.floor('F.stack.spec', n1 + n2, 100)
    rep.sample('F.stack.spec', 'shared N=4: all %d sequences over {insert,fetch}; thread-local N=32: %d sequences from fills 0,1,31,32' % (n1, n2))
    cas_shape(shared, rep)
    if ok1:
        cas_interference(shared, rep, depth=4 if tier == 'thorough' else 3)
