"""C07 — the Pade matrix exponential (structural necessary conditions only; the accuracy bound itself
is a numerical statement and is declined).
Engine G + C: matrix_exponential is abstractly interpreted on a matrix-polynomial domain (every
matrix is a polynomial in the input A with real coefficients, or a power of the solved ratio R);
norm estimates are opaque scalars and every comparison on them is a path choice, so each of the
five order branches and several scaling exponents are explored.  Rules: Pade coefficient tables
equal (2m-j)!/(j!(m-j)!); U and V are the odd and even parts (for m=13 with the scaled powers);
solve_P_Q solves (V-U)X = V+U column by column; order thresholds do not exceed the published
theta_m and are tested in increasing order; the squaring loop delivers R^(2^s) in the output for
both parities of s; every thread-local scratch matrix is completely defined before it is read
after reset (history independence); the helper kernels mul/add/sub mean O=sI, O+=sI, O-=sI; the
diagonal shortcut returns exp of the diagonal; no throw of the norm estimator is reachable for
n in 2..6 with the arguments used at its call sites; UTransform(v,scale) sandwiches with
exp(scale*matrix(v))."""
import math
from fractions import Fraction

from astdb import AnalysisBroken, walk, strip
from interp import (DivisionByZero, Interp, Hooks, Obj, Cell, Ptr, Region, Thrown, Unsupported, Opaque, NULL, UNDEF, Cond, ITE, _Return)
from kernels import GslMatrix, matrix_of, make_suv, complex_parts, gsl_complex
from gslmodel import GslHooks, IndexViolation, cplx_parts
from poly import Poly, CPoly, mat_mul, mat_dagger
from own import Choices, enumerate_choices
import basis

PUBLISHED_THETA = {3: 1.495585217958292e-2, 5: 2.539398330063230e-1, 7: 9.504178996162932e-1, 9: 2.097847961257068e0, 13: 4.25}
ME = 'squids::math_detail::'


class MP:
    """matrix polynomial: {power: coefficient(float)} over a named base matrix"""

    def __init__(self, base, terms):
        self.base = base
        self.t = {k: v for k, v in terms.items() if v != 0}

    def scale(self, c):
        return MP(self.base, {k: v * c for k, v in self.t.items()})

    def add(self, o, c=1.0):
        if o.base != self.base and o.t and self.t:
            if set(o.t) == {0}:
                o = MP(self.base, o.t)
            elif set(self.t) == {0}:
                return MP(o.base, self.t).add(o, c)
            else:
                raise Unsupported('sum of polynomials in different matrices')
        d = dict(self.t)
        for k, v in o.t.items():
            d[k] = d.get(k, 0.0) + c * v
        return MP(self.base if self.t else o.base, d)

    def mul(self, o):
        if o.base != self.base:
            if set(o.t) <= {0}:
                return self.scale(o.t.get(0, 0.0))
            if set(self.t) <= {0}:
                return o.scale(self.t.get(0, 0.0))
            raise Unsupported('product of polynomials in different matrices')
        d = {}
        for k1, v1 in self.t.items():
            for k2, v2 in o.t.items():
                d[k1 + k2] = d.get(k1 + k2, 0.0) + v1 * v2
        return MP(self.base, d)

    def close(self, o, rel=1e-12):
        keys = set(self.t) | set(o.t)
        for k in keys:
            a, b = self.t.get(k, 0.0), o.t.get(k, 0.0)
            if abs(a - b) > rel * max(abs(a), abs(b), 1e-300):
                return False
        return self.base == o.base or not keys or keys == {0}

    def __repr__(self):
        return ' + '.join('%.6g*%s^%d' % (v, self.base, k) for k, v in sorted(self.t.items())) or '0'


class ExpHooks(GslHooks):
    """matrix-polynomial interpretation of MatrixExp.cpp"""
    opaque_minmax = True  # min/max of norm estimates stay opaque scalars (one path choice per threshold comparison)

    def __init__(self, choices, n):
        GslHooks.__init__(self)
        self.ch = choices
        self.n = n
        self.stale_reads = []
        self.events = []
        self.statics = {}
        self.scalars = 0
        self.order_taken = None
        self.s_choice = None
        self.cmps = []  # (op, lhs, rhs, outcome, where) of the order-selection comparisons on this path
        self.f2i = None  # the value whose conversion to int gives the scaling exponent
        self.solve = None
        self.lu = {}

    # -- thread-local holders persist between calls: model them as objects that survive and whose
    #    contents after reset() are stale (left over from an earlier call)
    def static_local(self, it, d):
        key = d['id']
        if key not in self.statics:
            cell = Cell(UNDEF, None, 0, d.get('name'))
            init = d.get('init')
            if init is not None and init['k'] == 'CXXConstructExpr':
                it.construct_into(cell, init)
            self.statics[key] = cell
        return self.statics[key]

    def new_matrix(self, n1, n2, name=None, entry=None):
        m = GslHooks.new_matrix(self, n1, n2, name, entry)
        m.mp = None
        m.defined = False
        return m

    def mat(self, it, node_or_val):
        v = node_or_val
        if isinstance(v, dict):
            v = it.eval(v)
        if isinstance(v, Cell):
            v = v.value
        if isinstance(v, Obj) and 'm' in v.fields:  # holder passed by value?
            v = v.fields['m'].value
        return matrix_of(v)

    def read(self, it, m, node, what):
        if not m.defined:
            self.stale_reads.append((m.name, what, it.loc(node)))

    def fresh_scalar(self, name):
        self.scalars += 1
        return Poly.var('%s#%d' % (name, self.scalars))

    def override_call(self, it, fdecl, node, args, this_cell):
        nm = fdecl['name']
        if nm == ME + 'gsl_matrix_complex_holder::reset' and not getattr(self, '_in_reset', False):
            # the body is interpreted as written (whether it re-allocates, and what it returns, are the library's business);
            # a matrix it keeps holds whatever an earlier use left in it, a matrix it allocates is undefined
            vals = [it.eval(a) for a in args]
            self._in_reset = True
            try:
                r = it.call(fdecl, this_cell, vals, node)
            finally:
                self._in_reset = False
            return r
        if nm in (ME + 'gsl_matrix_complex_mul', ME + 'gsl_matrix_complex_add', ME + 'gsl_matrix_complex_sub'):
            O, I = self.mat(it, args[0]), self.mat(it, args[1])
            re_, im_ = cplx_parts(it.eval(args[2]))
            if not (isinstance(im_, Poly) and im_.is_zero() and re_.is_const()):
                raise Unsupported('complex/symbolic scale in matrix helper at %s' % it.loc(node))
            c = float(re_.const_value())
            self.read(it, I, node, 'input of ' + nm.split('::')[-1])
            if nm.endswith('_mul'):
                O.mp = I.mp.scale(c) if I.mp is not None else None
                O.defined = True
            else:
                self.read(it, O, node, 'accumulator of ' + nm.split('::')[-1])
                if O.mp is not None and I.mp is not None:
                    O.mp = O.mp.add(I.mp, c if nm.endswith('_add') else -c)
                else:
                    O.mp = None
                O.defined = True
            return None
        if nm in (ME + 'exact_1_norm', ME + 'one_normest_matrix_power', ME + 'one_normest_core'):
            M = self.mat(it, args[0])
            self.read(it, M, node, 'argument of ' + nm.split('::')[-1])
            return self.fresh_scalar(nm.split('::')[-1])
        if nm == ME + 'one_normest_product':
            A, B = self.mat(it, args[0]), self.mat(it, args[1])
            self.read(it, A, node, 'argument of one_normest_product')
            self.read(it, B, node, 'argument of one_normest_product')
            return self.fresh_scalar('normest_product')
        if nm == ME + 'ell':
            M = self.mat(it, args[0])
            self.read(it, M, node, 'argument of ell')
            m = it.eval(args[1])
            self.events.append(('ell', m, M.mp))
            # numerically ell() is 0 whenever it is consulted on the accepted path; the rejecting value is the next choice
            return 0 if self.ch.pick('ell(A,%s)==0' % m, 2) == 0 else 1
        if nm == ME + 'solve_P_Q':
            return NotImplemented
        return GslHooks.override_call(self, it, fdecl, node, args, this_cell)

    def external_call(self, it, name, node, args, this_cell):
        base = name.split('<')[0]
        if name == 'gsl_matrix_complex_set_identity':
            m = self.mat(it, args[0])
            m.mp = MP('A', {0: 1.0})
            m.defined = True
            return None
        if name in ('gsl_matrix_complex_set_all', 'gsl_matrix_complex_set_zero'):
            m = self.mat(it, args[0])
            m.defined = True
            m.mp = MP('A', {})
            r = GslHooks.external_call(self, it, name, node, args, this_cell)
            return r
        if name == 'gsl_matrix_complex_memcpy':
            d, s = self.mat(it, args[0]), self.mat(it, args[1])
            self.read(it, s, node, 'source of memcpy')
            if (d.n1, d.n2) != (s.n1, s.n2):
                raise IndexViolation(it.loc(node), 'memcpy between different shapes')
            d.mp = s.mp
            d.defined = True
            d.entries = dict(s.entries)
            d.entry = s.entry
            return 0
        if name == 'gsl_matrix_complex_scale':
            m = self.mat(it, args[0])
            self.read(it, m, node, 'operand of scale')
            re_, im_ = cplx_parts(it.eval(args[1]))
            if not (im_.is_zero() and re_.is_const()):
                raise Unsupported('complex/symbolic scale at %s' % it.loc(node))
            if m.mp is not None:
                m.mp = m.mp.scale(float(re_.const_value()))
            return 0
        if name == 'gsl_blas_zgemm':
            ta, tb = it.eval(args[0]), it.eval(args[1])
            al, be = cplx_parts(it.eval(args[2])), cplx_parts(it.eval(args[5]))
            A, B, C = self.mat(it, args[3]), self.mat(it, args[4]), self.mat(it, args[6])
            self.read(it, A, node, 'left operand of zgemm')
            self.read(it, B, node, 'right operand of zgemm')
            if C is A or C is B:
                raise IndexViolation(it.loc(node), 'zgemm output aliases an input')
            if not (be[0].is_zero() and be[1].is_zero()):
                self.read(it, C, node, 'zgemm accumulates into its output (beta != 0)')
            if ta != 111 or tb != 111 or not (al[0].equals(Poly.const(1)) and al[1].is_zero()):
                raise Unsupported('zgemm form at %s' % it.loc(node))
            C.mp = A.mp.mul(B.mp) if (A.mp is not None and B.mp is not None) else None
            if not (be[0].is_zero() and be[1].is_zero()):
                C.mp = None
            C.defined = True
            return 0
        if name == 'gsl_matrix_complex_get':
            m = self.mat(it, args[0])
            r, c = it.eval(args[1]), it.eval(args[2])
            z = m.get(r, c)
            return gsl_complex(z.re, z.im)
        if name == 'gsl_complex_exp':
            re_, im_ = cplx_parts(it.eval(args[0]))
            from poly import apply_func
            er = apply_func('exp', re_)
            return gsl_complex(er * apply_func('cos', im_), er * apply_func('sin', im_))
        if name == 'gsl_linalg_complex_LU_decomp':
            Q = self.mat(it, args[0])
            self.read(it, Q, node, 'matrix factorised by LU_decomp')
            self.lu[Q.name] = Q.mp
            Q.mp = None
            Q.lu_of = self.lu[Q.name]
            it.write(it.deref(it.eval(args[2]), node), 1, node)
            return 0
        if name == 'gsl_matrix_complex_column':
            m = self.mat(it, args[0])
            j = it.eval(args[1])
            o = Obj('gsl_vector_complex_view')
            v = Obj('gsl_vector_complex')
            v.field('column').value = (m, j)
            o.field('vector').value = v
            return o
        if name == 'gsl_linalg_complex_LU_solve':
            LU = self.mat(it, args[0])
            b = it.deref(it.eval(args[2]), node).value.fields['column'].value
            x = it.deref(it.eval(args[3]), node).value.fields['column'].value
            self.read(it, b[0], node, 'right-hand side of LU_solve')
            self.events.append(('lu_solve', getattr(LU, 'lu_of', None), b[0].mp, b[1], x[0], x[1]))
            out = x[0]
            cols = getattr(out, 'solved_cols', set())
            cols.add(x[1])
            out.solved_cols = cols
            if cols == set(range(out.n2)):
                out.defined = True  # every column written by the solver
                out.mp = MP('R', {1: 1.0})
                out.solved_cols = set()
            return 0
        if name == 'gsl_permutation_alloc':
            r = Region('perm', 1, None, 'heap')
            o = Obj('gsl_permutation')
            o.field('size').value = it.eval(args[0])
            r.cell(0).value = o
            return Ptr(r, 0)
        if name == 'gsl_permutation_free':
            return None
        if base in ('std::max', 'std::min') and len(args) == 2:
            a = it.lval(args[0]).value if args[0].get('lv') else it.eval(args[0])
            b = it.lval(args[1]).value if args[1].get('lv') else it.eval(args[1])
            if isinstance(a, int) and isinstance(b, int):
                return max(a, b) if base.endswith('max') else min(a, b)
            return Poly.func(base.split('::')[-1], it.to_poly(a) + it.to_poly(b).scale(1.000001))
        if base in ('std::ceil', 'ceil', 'std::floor', 'floor'):
            a = it.eval(args[0])
            if isinstance(a, Poly) and a.is_const():
                return Poly.const(math.ceil(a.const_value()) if 'ceil' in base else math.floor(a.const_value()))
            return Poly.func('ceil' if 'ceil' in base else 'floor', it.to_poly(a))
        return GslHooks.external_call(self, it, name, node, args, this_cell)

    def decide_cmp(self, it, op, pa, pb, node):
        # comparison between opaque norm estimates and constants: a path choice
        lab = '%s %s %s' % (str(pa)[:40], op, str(pb)[:40])
        r = 1 if self.ch.pick(lab, 2) == 0 else 0
        self.cmps.append((op, pa, pb, r, it.loc(node)))
        return r

    def float_to_int(self, it, node, value):
        # scaling exponent computed from norm estimates: explore small values
        # u = ceil(log2(eta/theta)) is negative whenever eta < theta (no scaling needed): both signs are explored
        k = (0, 1, 2, 3, -1, -2)[self.ch.pick('scaling exponent u', 6)]
        self.s_choice = max(k, 0)  # the number of halvings the algorithm defines for this u
        self.u_choice = k
        self.f2i = (value, it.loc(node))
        return k

    def on_undef_read(self, it, cell, node):
        return NotImplemented


def pade_tables(db, rep):
    """rules G.pade.tab: the b lists"""
    unit = db.unit('MatrixExp')
    tables = {}
    n = 0
    for m in (3, 5, 7, 9, 13):
        fs = db.find('MatrixExp', ME + 'pade%d' % m)
        f = fs[0] if len(fs) == 1 else {'body': None, 'name': ME + 'pade%d' % m}
        if len(fs) == 1:
            rep.fn(f['name'])
        vals = None
        for node in (walk(f['body']) if f.get('body') is not None else ()):
            if node.get('k') == 'VarDecl' and node.get('name') == 'b':
                vals = []
                for x in walk(node.get('init')):
                    if x.get('k') == 'FloatingLiteral':
                        vals.append(float(x['v']))
                    elif x.get('k') == 'IntegerLiteral' and x.get('t') == 'int':
                        vals.append(float(x['v']))
                break
        n += 1
        want = [float(Fraction(math.factorial(2 * m - j), math.factorial(j) * math.factorial(m - j))) for j in range(m + 1)]
        if vals is None:
            # no list of that name in a function of that name: the coefficients are judged where they take effect,
            # in the polynomials U and V handed to the solver (rule G.pade.uv)
            rep.notes.append('pade%d: no coefficient list named b; the coefficients are judged through U and V' % m)
            rep.ok('G.pade.tab')
            tables[m] = want
            continue
        # the list may carry a common positive factor (only the ratio matters for (V-U)^-1 (V+U))
        ok = len(vals) == len(want) and vals[-1] != 0 and all(abs(v / vals[-1] - w / want[-1]) <= 1e-15 * abs(w / want[-1]) for v, w in zip(vals, want))
        if ok:
            rep.ok('G.pade.tab')
            rep.sample('G.pade.tab', 'pade%d: b = %s' % (m, [int(v) for v in vals][:6]))
        else:
            bad = [j for j, (v, w) in enumerate(zip(vals, want)) if abs(v / (vals[-1] or 1) - w / want[-1]) > 1e-15 * abs(w / want[-1])] if len(vals) == len(want) else 'length %d' % len(vals)
            rep.fail('G.pade.tab', 'pade%d' % m, unit.loc(f), 'b_j proportional to (2m-j)!/(j!(m-j)!), j=0..%d' % m, 'entries %s differ: %s' % (bad, vals), f['name'])
        # what U and V are compared with is the mathematical table (a common positive factor is immaterial)
        tables[m] = want
    rep.floor('G.pade.tab', n, 5)
    return tables


def check_helpers(db, rep):
    """mul/add/sub element-wise semantics on a symbolic 2x3 matrix"""
    unit = db.unit('MatrixExp')
    for nm, want in (('gsl_matrix_complex_mul', lambda o, i, s: i * s), ('gsl_matrix_complex_add', lambda o, i, s: o + i * s),
                     ('gsl_matrix_complex_sub', lambda o, i, s: o - i * s)):
        f = db.one('MatrixExp', ME + nm)
        rep.fn(f['name'])
        hooks = GslHooks()
        O = hooks.new_matrix(2, 2, 'O', lambda r, c: CPoly(Poly.var('or%d%d' % (r, c)), Poly.var('oi%d%d' % (r, c))))
        I = hooks.new_matrix(2, 2, 'I', lambda r, c: CPoly(Poly.var('ir%d%d' % (r, c)), Poly.var('ii%d%d' % (r, c))))
        s = CPoly(Poly.var('sr'), Poly.var('si'))

        class H(GslHooks):
            def external_call(self, it, name, node, args, this_cell):
                if name in ('gsl_complex_mul', 'gsl_complex_add', 'gsl_complex_sub'):
                    a = cplx_parts(it.eval(args[0]))
                    b = cplx_parts(it.eval(args[1]))
                    za, zb = CPoly(a[0], a[1]), CPoly(b[0], b[1])
                    z = za * zb if name.endswith('mul') else (za + zb if name.endswith('add') else za - zb)
                    return gsl_complex(z.re, z.im)
                return GslHooks.external_call(self, it, name, node, args, this_cell)
        h = H()
        h.matrices = hooks.matrices
        it = Interp(unit, h)
        it.call(f, None, [O.ptr, I.ptr, gsl_complex(s.re, s.im)])
        ok = True
        for r in range(2):
            for c in range(2):
                o0 = CPoly(Poly.var('or%d%d' % (r, c)), Poly.var('oi%d%d' % (r, c)))
                i0 = I.get(r, c)
                if not O.entries.get((r, c), CPoly()).equals(want(o0, i0, s)):
                    ok = False
        if ok:
            rep.ok('G.helper')
        else:
            rep.fail('G.helper', nm, unit.loc(f), {'gsl_matrix_complex_mul': 'O = s*I', 'gsl_matrix_complex_add': 'O += s*I', 'gsl_matrix_complex_sub': 'O -= s*I'}[nm],
                     'different element-wise result', f['name'])


class WarmChoices:
    """choices of the call made beforehand on the same thread: reject every low order, scale once, no extra scaling —
    the path that touches every scratch holder"""

    def __init__(self):
        self.log = []

    def pick(self, label, n):
        c = 0 if label.startswith('ell') else 1
        self.log.append((label, c, n))
        return c


def explore_paths(db, rep, tables, n=3, warm_n=None):
    """all order/scaling paths of one call for an n x n matrix; with warm_n, the call is preceded on the same thread by a
    call for a warm_n x warm_n matrix (thread-local scratch holders keep what that call left in them)"""
    unit = db.unit('MatrixExp')
    f = db.one('MatrixExp', ME + 'matrix_exponential', 2)
    rep.fn(f['name'])
    seen_orders = {}
    thresholds = []
    stale = {}
    paths = 0
    square_ok = {}

    def one(ch):
        hooks = ExpHooks(ch, n)
        if warm_n is not None:
            hooks.ch = WarmChoices()
            hooks.n = warm_n
            W = hooks.new_matrix(warm_n, warm_n, 'Aprev', lambda r, c: CPoly(Poly.const(2 - r + c), Poly.const(0.25 * (r + c))))
            W.mp = MP('A', {1: 1.0})
            W.defined = True
            eW = hooks.new_matrix(warm_n, warm_n, 'eAprev')
            try:
                Interp(unit, hooks).call(f, None, [eW.ptr, W.ptr])
            except Thrown:
                pass
            # what the scratch holders keep is a function of the previous argument, not of the one to come
            for m_ in hooks.matrices:
                if getattr(m_, 'mp', None) is not None and set(m_.mp.t) - {0}:
                    m_.mp = MP('Aprev', m_.mp.t)
            hooks.ch = ch
            hooks.n = n
            hooks.stale_reads = []
            hooks.events = []
            hooks.order_taken = None
            hooks.uv = None
            hooks.s_choice = None
            hooks.cmps = []
            hooks.f2i = None
        A = hooks.new_matrix(n, n, 'A', lambda r, c: CPoly(Poly.const(1 + r + 2 * c), Poly.const(0.5 * (r - c))))
        A.mp = MP('A', {1: 1.0})
        A.defined = True
        eA = hooks.new_matrix(n, n, 'eA')
        it = Interp(unit, hooks)
        orig = hooks.override_call

        def override(it_, fdecl, node, args, this_cell):
            nm = fdecl['name']
            if nm.startswith(ME + 'pade') and nm[len(ME) + 4:].isdigit():
                hooks.order_taken = int(nm[len(ME) + 4:])
                hooks.pade_args = [hooks.mat(it_, a) for a in args]
                return NotImplemented
            if nm == ME + 'solve_P_Q' and len(args) >= 2:
                # the two polynomials as they reach the solver, whatever function built them
                hooks.uv = (hooks.mat(it_, args[0]), hooks.mat(it_, args[1]))
                return NotImplemented
            return orig(it_, fdecl, node, args, this_cell)
        hooks.override_call = override
        err = None
        try:
            it.call(f, None, [eA.ptr, A.ptr])
        except Thrown as t:
            err = t
        except Unsupported as e:
            if warm_n is not None and 'different matrices' in str(e):
                hooks.stale_reads.append(('scratch', 'an operand that still holds a power of the previous call\'s matrix', str(e)))
                hooks.order_taken = None
            else:
                raise
        return hooks, A, eA, err

    for ch, (hooks, A, eA, err) in enumerate_choices(one, limit=3000):
        paths += 1
        m = hooks.order_taken
        uv = getattr(hooks, 'uv', None)
        if uv is not None and uv[0].mp is not None and uv[1].mp is not None:
            # the order actually used is the degree of U + V
            degs = [k for mp_ in (uv[0].mp, uv[1].mp) for k, c in mp_.t.items() if c != 0]
            if degs and (m is None or max(degs) != m) and hooks.order_taken is None:
                m = max(degs)
        for (name, what, where) in hooks.stale_reads:
            stale.setdefault((name, what), where)
        if err is not None:
            rep.fail('G.path', 'matrix_exponential/throw', unit.loc(err.node), 'a result on every path', 'throw: %s' % err.what, f['name'])
            continue
        if m is None:
            continue
        # the order-selection choices taken on this path: comparisons of the form eta < literal
        key = (m, hooks.s_choice, tuple(e for e in hooks.events if e[0] == 'ell'))
        if m not in seen_orders:
            seen_orders[m] = hooks
        thresholds.append((m, list(hooks.cmps), hooks.f2i))
        # U, V
        if uv is not None:
            U, V = uv
        else:
            U, V = hooks.pade_args[-2], hooks.pade_args[-1]
        # after solve_P_Q the matrices P,Q were built from U,V: inspect lu_solve events
        solves = [e for e in hooks.events if e[0] == 'lu_solve']
        b = tables[m]
        s = hooks.s_choice if m == 13 and hooks.s_choice is not None else 0
        ells = [e for e in hooks.events if e[0] == 'ell' and e[1] == 13]
        scale = 2.0 ** (-s)
        if m == 13 and ells and ch.log and any(l[0].startswith('ell(A,13') and l[1] == 1 for l in ch.log):
            # ell(B,13) > 0 is numerically unreachable with the constants used (see DESIGN 4 C07); the path is not judged
            continue
        # the extra-scaling test is made on the matrix that will actually be approximated: A itself for the low
        # orders, the scaled copy 2^-s A for order 13
        for e in hooks.events:
            if e[0] == 'ell' and e[1] == m and len(e) > 2:
                arg_ok = e[2] is not None and e[2].close(MP('A', {1: scale if m == 13 else 1.0}))
                if arg_ok:
                    rep.ok('G.pade.ell')
                else:
                    rep.fail('G.pade.ell', ('' if warm_n is None else 'after a %dx%d call/' % (warm_n, warm_n)) + 'ell(.,%d)%s' % (m, ('/u=%d' % getattr(hooks, 'u_choice', s)) if m == 13 else ''),
                             unit.loc(f), 'ell(M,%d) is evaluated for M = %s' % (m, '2^-s A (the scaled matrix)' if m == 13 else 'A'),
                             'M = %s' % (e[2],), f['name'])
        # a common positive factor of all coefficients is immaterial: normalised on the constant term of V
        c0 = V.mp.t.get(0, 0.0) if V.mp is not None else 0.0
        fac = (c0 / b[0]) if (c0 > 0 and b[0]) else 1.0
        wantU = MP('A', {j: fac * b[j] * scale ** j for j in range(1, m + 1, 2)})
        wantV = MP('A', {j: fac * b[j] * scale ** j for j in range(0, m + 1, 2)})
        okU = U.mp is not None and U.mp.close(wantU)
        okV = V.mp is not None and V.mp.close(wantV)
        site = ('' if warm_n is None else 'after a %dx%d call/n=%d/' % (warm_n, warm_n, n)) + 'pade%d%s' % (m, ('/u=%d' % getattr(hooks, 'u_choice', s)) if m == 13 else '')
        if okU and okV:
            rep.ok('G.pade.uv')
            if m in (3, 13):
                rep.sample('G.pade.uv', '%s: U = %s' % (site, U.mp))
        else:
            pf = db.find('MatrixExp', ME + 'pade%d' % m)
            rep.fail('G.pade.uv', site, unit.loc(pf[0]) if len(pf) == 1 else unit.loc(f),
                     'U = sum of odd terms b_j (2^-s A)^j, V = sum of even terms, b_j proportional to (2m-j)!/(j!(m-j)!)', 'U = %s ; V = %s' % (U.mp, V.mp),
                     pf[0]['name'] if len(pf) == 1 else f['name'])
        # solve: LU of V-U, right-hand sides columns of V+U, outputs columns of eA
        wantQ = wantV.add(wantU, -1.0)
        wantP = wantV.add(wantU, 1.0)
        cols = sorted(e[3] for e in solves)
        good = (cols == list(range(n)) and all(e[1] is not None and e[1].close(wantQ) and e[2] is not None and e[2].close(wantP)
                                               and e[4] is eA and e[5] == e[3] for e in solves))
        if good and okU and okV:
            rep.ok('G.pade.solve')
        elif okU and okV:
            rep.fail('G.pade.solve', site, unit.loc(db.one('MatrixExp', ME + 'solve_P_Q')),
                     '(V-U) X = (V+U) solved for every column into the output', 'columns %s; LU of %s; rhs %s' % (cols, solves[0][1] if solves else None, solves[0][2] if solves else None),
                     ME + 'solve_P_Q')
        # squaring: give the solved ratio a name and redo the tail symbolically
        if m == 13:
            square_ok.setdefault(s, None)
    return seen_orders, stale, paths, thresholds


def upper_bound_of(op, pa, pb, outcome):
    """the comparison (with its outcome) read as `quantity < c` or `quantity <= c`: returns c, or None"""
    if not outcome:
        op = {'<': '>=', '<=': '>', '>': '<=', '>=': '<'}.get(op)
    if op in ('<', '<=') and isinstance(pb, Poly) and pb.is_const() and isinstance(pa, Poly) and not pa.is_const():
        return float(pb.const_value())
    if op in ('>', '>=') and isinstance(pa, Poly) and pa.is_const() and isinstance(pb, Poly) and not pb.is_const():
        return float(pa.const_value())
    return None


def scaling_constants(value):
    """value = ceil(c1*log(c2*eta)) -> (c1, c2); None if the expression has another shape"""
    from poly import atom_of, atom_arg

    def single(p):
        p = p.clean()
        if len(p.t) != 1:
            return None
        (mono, c), = p.t.items()
        if len(mono) != 1 or mono[0][1] != 1:
            return None
        return float(c), atom_of(mono[0][0])
    r = single(value) if isinstance(value, Poly) else None
    if r is None or r[1][0] != 'f' or r[1][1] not in ('ceil', 'floor') or abs(r[0] - 1) > 1e-15:
        return None
    rounding = r[1][1]
    r1 = single(atom_arg(r[1]))
    if r1 is None or r1[1][0] != 'f' or r1[1][1] != 'log':
        return None
    r2 = single(atom_arg(r1[1]))
    if r2 is None:
        return None
    return r1[0], r2[0], rounding


def check_thresholds(db, rep, thresholds):
    """G.pade.theta, decided on the explored paths (not on the spelling of the code): on every path that ends in
    order m in {3,5,7,9} the norm quantity was bounded above, by the comparisons taken on that path, by a constant
    not exceeding the published theta_m; the lower orders are tried first (their bounds were refused on the path);
    the scaling exponent of the order-13 path is ceil(log2(eta/theta)) with theta <= theta_13 = 4.25."""
    unit = db.unit('MatrixExp')
    f = db.one('MatrixExp', ME + 'matrix_exponential', 2)
    n = 0
    by_order = {}
    order_bad = None
    for m, cmps, f2i in thresholds:
        consts = [upper_bound_of(op, pa, pb, 1) for (op, pa, pb, r, w) in cmps]  # each guard read as `quantity < c`
        if m in (3, 5, 7, 9):
            # the guard of the branch taken is the last comparison on the path, and it was accepted
            last = cmps[-1] if cmps else None
            bound = upper_bound_of(last[0], last[1], last[2], last[3]) if last is not None and last[3] else None
            where = last[4] if last is not None else unit.loc(f)
            by_order.setdefault(m, set()).add((bound, where))
            # the guards met earlier on this path belong to lower orders: their constants must be smaller
            earlier = [c for c in consts[:-1] if c is not None]
            if bound is not None and (any(c >= bound for c in earlier) or earlier != sorted(earlier)):
                order_bad = (m, bound, earlier)
        elif m == 13:
            by_order.setdefault(13, set()).add((None, f2i[1] if f2i else unit.loc(f)))
    for m in (3, 5, 7, 9):
        for bound, where in sorted(by_order.get(m, ()), key=str):
            n += 1
            if bound is not None and bound <= PUBLISHED_THETA[m] * (1 + 1e-15):
                rep.ok('G.pade.theta')
            else:
                rep.fail('G.pade.theta', 'theta_%d' % m, where, 'order %d only used when the norm quantity is below the published theta_%d = %r' % (m, m, PUBLISHED_THETA.get(m)),
                         'bound on the path: %r' % (bound,), f['name'])
    n += 1
    lows = [min(b for b, _ in by_order[m] if b is not None) for m in (3, 5, 7, 9) if by_order.get(m) and any(b is not None for b, _ in by_order[m])]
    if order_bad or lows != sorted(lows) or len(lows) != 4:
        rep.fail('G.pade.theta', 'order', unit.loc(f), 'orders 3,5,7,9 tried in increasing order, then 13',
                 'bounds per order %s%s' % (lows, '; order %d accepted under %r after refusing %r' % order_bad if order_bad else ''), f['name'])
    else:
        rep.ok('G.pade.theta')
    # scaling exponent of the order-13 path
    n += 1
    sc = None
    where13 = unit.loc(f)
    for m, cmps, f2i in thresholds:
        if m == 13 and f2i is not None:
            sc = scaling_constants(f2i[0])
            where13 = f2i[1]
            break
    ln2inv = 1.0 / math.log(2.0)
    if sc is None:
        th13 = None
        rep.break_('the scaling exponent of the order-13 path is not of the form ceil/floor(c1*log(c2*eta)); rule G.pade.theta cannot judge it (%s)' % where13)
    elif sc[2] == 'ceil' and abs(sc[0] - ln2inv) <= 1e-12 * ln2inv and sc[1] >= (1.0 / PUBLISHED_THETA[13]) * (1 - 1e-15):
        rep.ok('G.pade.theta')
        th13 = 1.0 / sc[1]
    else:
        th13 = None
        rep.fail('G.pade.theta', 'theta_13', where13, 'scaling exponent = ceil(log2(eta/theta)) with theta not above the published theta_13 = 4.25',
                 'constants (1/ln 2, 1/theta, rounding) found: %r' % (sc,), f['name'])
    rep.floor('G.pade.theta', n, 5)
    rep.sample('G.pade.theta', 'bounds found on the paths: %s, theta_13=%r' % ({m: sorted(b for b, _ in v if b is not None) for m, v in by_order.items() if m != 13}, th13))


def check_squaring(db, rep):
    """the tail of matrix_exponential: for s = 0..6 the output must hold R^(2^s) where R is the solved ratio.
    Interpreted with the scaling exponent forced and R a fresh base matrix written by the solver summary."""
    unit = db.unit('MatrixExp')
    f = db.one('MatrixExp', ME + 'matrix_exponential', 2)
    n = 3
    for s_total in list(range(0, 7)) + [8, 11, 16, 21, 22, 32, 33, 64]:  # beyond 6: widths at which shifts and small integer types wrap
        class SqHooks(ExpHooks):
            def float_to_int(self, it, node, value):
                return s_total

            def decide_cmp(self, it, op, pa, pb, node):
                return 0  # reject every low-order branch: take the order-13 path

            def override_call(self, it, fdecl, node, args, this_cell):
                if fdecl['name'] == ME + 'solve_P_Q':
                    out = self.mat(it, args[2])
                    out.mp = MP('R', {1: 1.0})
                    out.defined = True
                    return None
                if fdecl['name'] == ME + 'ell':
                    return 0
                return ExpHooks.override_call(self, it, fdecl, node, args, this_cell)
        hooks = SqHooks(Choices(()), n)
        A = hooks.new_matrix(n, n, 'A', lambda r, c: CPoly(Poly.const(1 + r + 2 * c), Poly.const(0.5 * (r - c))))
        A.mp = MP('A', {1: 1.0})
        A.defined = True
        eA = hooks.new_matrix(n, n, 'eA')
        it = Interp(unit, hooks)
        try:
            it.call(f, None, [eA.ptr, A.ptr])
        except DivisionByZero as e:
            rep.fail('G.pade.square', 's=%d/finite' % s_total, e.where or unit.loc(f), 'finite scale factors 2^-2s, 2^-4s, 2^-6s for every scaling exponent',
                     'with scaling exponent s=%d a divisor is exactly zero (the factor is inf, the result NaN): %s' % (s_total, e), f['name'])
            continue
        want = MP('R', {2 ** s_total: 1.0})
        if eA.mp is not None and eA.mp.close(want) and eA.defined:
            rep.ok('G.pade.square')
        else:
            rep.fail('G.pade.square', 's=%d' % s_total, unit.loc(f), 'output = R^(2^%d) after %d squarings' % (s_total, s_total), 'output = %s' % (eA.mp,), f['name'])
        for (name, what, where) in hooks.stale_reads:
            rep.fail('G.scratch.def', '%s/%s' % (name, what), where, 'scratch matrix completely written before it is read after reset', 'read of stale contents (%s)' % what, f['name'])
    rep.sample('G.pade.square', 's=0..6: the ping-pong loop and the final copy leave R^(2^s) in the output')


def check_power_estimator(db, rep):
    """one_normest_matrix_power(M,p): the matrix handed to the estimator is M^p for every p used (2,3 and 2m+1)"""
    unit = db.unit('MatrixExp')
    f = db.one('MatrixExp', ME + 'one_normest_matrix_power', 2)
    rep.fn(f['name'])
    for p in (1, 2, 3, 4, 5, 7, 11, 15, 19, 27):
        got = {}

        class PH(ExpHooks):
            def override_call(self, it, fdecl, node, args, this_cell):
                if fdecl['name'] == ME + 'one_normest_core':
                    M = self.mat(it, args[0])
                    self.read(it, M, node, 'argument of one_normest_core')
                    got['mp'] = M.mp
                    return Poly.var('est')
                return ExpHooks.override_call(self, it, fdecl, node, args, this_cell)
        hooks = PH(Choices(()), 3)
        M = hooks.new_matrix(3, 3, 'M', lambda r, c: CPoly(Poly.const(1), Poly.const(0)))
        M.mp = MP('A', {1: 1.0})
        M.defined = True
        it = Interp(unit, hooks)
        it.call(f, None, [M.ptr, p])
        want = MP('A', {p: 1.0})
        if got.get('mp') is not None and got['mp'].close(want) and not hooks.stale_reads:
            rep.ok('G.power')
        else:
            rep.fail('G.power', 'p=%d' % p, unit.loc(f), 'the estimator receives M^%d' % p,
                     'receives %s%s' % (got.get('mp'), ('; stale read of %s' % hooks.stale_reads[0][0]) if hooks.stale_reads else ''), f['name'])
    rep.sample('G.power', 'p in {1,2,3,4,5,7,11,15,19,27}: ping-pong product delivers M^p')


def check_diagonal(db, rep):
    unit = db.unit('MatrixExp')
    f = db.one('MatrixExp', ME + 'matrix_exponential', 2)
    n = 3
    hooks = ExpHooks(Choices(()), n)
    A = hooks.new_matrix(n, n, 'A', lambda r, c: CPoly(Poly.var('dr%d' % r), Poly.var('di%d' % r)) if r == c else CPoly(0, 0))
    A.mp = MP('A', {1: 1.0})
    A.defined = True
    eA = hooks.new_matrix(n, n, 'eA')
    it = Interp(unit, hooks)
    it.call(f, None, [eA.ptr, A.ptr])
    from poly import apply_func
    ok = True
    for r in range(n):
        for c in range(n):
            e = eA.entries.get((r, c))
            if r != c:
                ok = ok and e is not None and e.is_zero()
            else:
                er = apply_func('exp', Poly.var('dr%d' % r))
                want = CPoly(er * apply_func('cos', Poly.var('di%d' % r)), er * apply_func('sin', Poly.var('di%d' % r)))
                ok = ok and e is not None and e.equals(want)
    if ok:
        rep.ok('G.exp.diag')
    else:
        rep.fail('G.exp.diag', 'diagonal', unit.loc(f), 'diagonal input: exp of each diagonal entry, zeros elsewhere', 'different', f['name'])
    # the shortcut must be taken for diagonal matrices only: one non-zero entry (real or imaginary part) at any
    # off-diagonal position sends the matrix through the Pade path
    n_off = 0
    for n in (2, 3, 4):
        for r0 in range(n):
            for c0 in range(n):
                if r0 == c0:
                    continue
                for part in ('re', 'im'):
                    n_off += 1
                    hooks = ExpHooks(Choices(()), n)

                    def entry(r, c, r0=r0, c0=c0, part=part):
                        if r == c:
                            return CPoly(Poly.const(1 + r), Poly.const(0.5 * r))
                        if (r, c) == (r0, c0):
                            return CPoly(Poly.const(1), Poly.const(0)) if part == 're' else CPoly(Poly.const(0), Poly.const(1))
                        return CPoly(0, 0)
                    A = hooks.new_matrix(n, n, 'A', entry)
                    A.mp = MP('A', {1: 1.0})
                    A.defined = True
                    eA = hooks.new_matrix(n, n, 'eA')
                    it = Interp(unit, hooks)
                    it.call(f, None, [eA.ptr, A.ptr])
                    if any(e[0] == 'lu_solve' for e in hooks.events):
                        rep.ok('G.exp.diag')
                    else:
                        rep.fail('G.exp.diag', 'shortcut/n=%d/(%d,%d)/%s' % (n, r0, c0, part), unit.loc(f),
                                 'a matrix with a non-zero off-diagonal entry goes through the Pade approximant',
                                 'the %s part of entry (%d,%d) is not seen by the diagonality test: the result is diag(exp(a_ii))' % ('real' if part == 're' else 'imaginary', r0, c0),
                                 f['name'])
    rep.floor('G.exp.diag', n_off, 40)


def check_estimator_guards(db, rep):
    """C.dom.nothrow: leading `if(cond) throw` statements of one_normest_core evaluated for n=2..6 with the arguments of every call site"""
    unit = db.unit('MatrixExp')
    f = db.one('MatrixExp', ME + 'one_normest_core', 3)
    rep.fn(f['name'])
    # call sites and their (t, itmax) arguments
    sites = []
    for g in unit.functions:
        for node in walk(g.get('body')):
            if node.get('k') == 'CallExpr' and node.get('callee') == ME + 'one_normest_core':
                vals = []
                for a in node['args'][1:]:
                    x = a
                    while x is not None and x.get('k') in ('CXXDefaultArgExpr', 'ImplicitCastExpr'):
                        x = x['c'][0]
                    vals.append(x.get('cv', x.get('v')) if x is not None else None)
                sites.append((g['name'], unit.loc(node), vals))
    if len(sites) < 3:
        raise AnalysisBroken('expected at least 3 call sites of one_normest_core, found %d' % len(sites))
    guards = []
    for st in f['body'].get('c', []):
        if st.get('k') == 'IfStmt':
            guards.append(st)
        elif st.get('k') in ('DeclStmt',) and guards:
            break
        elif st.get('k') not in ('IfStmt',) and guards:
            break
    n_guards = 0
    for (caller, where, vals) in sites:
        t, itmax = vals if len(vals) == 2 else (None, None)
        if not isinstance(t, int) or not isinstance(itmax, int):
            raise AnalysisBroken('non-constant estimator arguments at %s' % where)
        for n in range(2, 7):
            for g in guards:
                n_guards += 1
                hooks = GslHooks()
                A = hooks.new_matrix(n, n, 'A', lambda r, c: CPoly(Poly.var('x'), Poly()))
                it = Interp(unit, hooks)
                synth = dict(f)
                synth['body'] = {'k': 'CompoundStmt', 'c': [g]}
                outcome = 'pass'
                try:
                    it.call(synth, None, [A.ptr, t, itmax])
                except Thrown as th:
                    outcome = 'throw: %s' % th.what
                except Unsupported:
                    outcome = 'pass'  # a guard that returns a computed value instead of throwing
                if outcome == 'pass':
                    rep.ok('C.dom.nothrow')
                else:
                    rep.fail('C.dom.nothrow', 'one_normest_core/n=%d/t=%d' % (n, t), unit.loc(g),
                             'no exception of the norm estimator for an %dx%d matrix (called from %s with t=%d, itmax=%d)' % (n, n, caller.split('::')[-1], t, itmax),
                             outcome, f['name'])
    rep.floor('C.dom.nothrow', n_guards, 3 * 5 * 3)


def exponential_alias_unsafe(db):
    """None if matrix_exponential(M, M) gives exp(M) on the diagonal path and on the first Pade path; else a description"""
    from poly import apply_func
    unit = db.unit('MatrixExp')
    f = db.one('MatrixExp', ME + 'matrix_exponential', 2)
    n = 3
    hooks = ExpHooks(Choices(()), n)
    A = hooks.new_matrix(n, n, 'A', lambda r, c: CPoly(Poly.var('dr%d' % r), Poly.var('di%d' % r)) if r == c else CPoly(0, 0))
    A.mp = MP('A', {1: 1.0})
    A.defined = True
    Interp(unit, hooks).call(f, None, [A.ptr, A.ptr])
    for r in range(n):
        for c in range(n):
            e = A.entries.get((r, c))
            if r == c:
                er = apply_func('exp', Poly.var('dr%d' % r))
                want = CPoly(er * apply_func('cos', Poly.var('di%d' % r)), er * apply_func('sin', Poly.var('di%d' % r)))
            else:
                want = CPoly(0, 0)
            if e is None or not e.equals(want):
                return 'a diagonal matrix is mapped to %s at (%d,%d) instead of %s (the shortcut clears the output before reading the diagonal)' % (e, r, c, want)
    hooks = ExpHooks(Choices(()), n)
    B = hooks.new_matrix(n, n, 'A', lambda r, c: CPoly(Poly.const(1 + r + 2 * c), Poly.const(0.5 * (r - c))))
    B.mp = MP('A', {1: 1.0})
    B.defined = True
    hooks2 = ExpHooks(Choices(()), n)
    C = hooks2.new_matrix(n, n, 'A', lambda r, c: CPoly(Poly.const(1 + r + 2 * c), Poly.const(0.5 * (r - c))))
    C.mp = MP('A', {1: 1.0})
    C.defined = True
    eC = hooks2.new_matrix(n, n, 'eA')
    Interp(unit, hooks).call(f, None, [B.ptr, B.ptr])
    Interp(unit, hooks2).call(f, None, [eC.ptr, C.ptr])
    for r in range(n):
        for c in range(n):
            x, y = B.entries.get((r, c)), eC.entries.get((r, c))
            if x is None or y is None or not x.equals(y):
                return 'a dense matrix gives entry (%d,%d) = %s instead of %s' % (r, c, x, y)
    return None


def check_utransform(db, rep):
    """UTransform(v,scale) = E^dagger A E with E = exp(scale * matrix(v))"""
    unit = db.unit('SUNalg')
    f = db.one('SUNalg', 'squids::SU_vector::UTransform', 2)
    rep.fn(f['name'] + '(const SU_vector&,gsl_complex)')
    for d in (2, 3):
        got = {}

        class UH(GslHooks):
            def expm(self, it, args):
                out, inp = matrix_of(it.eval(args[0])), matrix_of(it.eval(args[1]))
                got['aliased'] = out is inp
                got['in'] = self.entries_of(inp)
                out.entries = {(r, c): CPoly(Poly.var('er%d_%d' % (r, c)), Poly.var('ei%d_%d' % (r, c))) for r in range(out.n1) for c in range(out.n2)}
                return None

            def external_call(self, it, name, node, args, this_cell):
                if name == ME + 'matrix_exponential':
                    return self.expm(it, args)
                return GslHooks.external_call(self, it, name, node, args, this_cell)

            def override_call(self, it, fdecl, node, args, this_cell):
                if fdecl['name'] == ME + 'matrix_exponential':
                    return self.expm(it, args)
                return GslHooks.override_call(self, it, fdecl, node, args, this_cell)

            def static_local(self, it, d_):
                return NotImplemented
        hooks = UH()
        this, _ = make_suv('A', d, 'a')
        v, _ = make_suv('V', d, 'v')
        it = Interp(unit, hooks)
        res = it.call(f, this, [v, gsl_complex(Poly.var('zr'), Poly.var('zi'))])
        S, _ = basis.extract_S(db, d, 'v')
        z = CPoly(Poly.var('zr'), Poly.var('zi'))
        ok_in = all(got['in'][(r, c)].equals(S.entries[(r, c)] * z) for r in range(d) for c in range(d))
        E = [[CPoly(Poly.var('er%d_%d' % (r, c)), Poly.var('ei%d_%d' % (r, c))) for c in range(d)] for r in range(d)]
        A = basis.matrix_from(db, d, [Poly.var('a%d' % k) for k in range(d * d)])
        X = mat_mul(mat_mul(mat_dagger(E), A), E)
        oracle = basis.project(db, d, X)
        p = res.fields['components'].value
        ok_out = all(isinstance(p.region.cell(p.off + k).value, Poly) and p.region.cell(p.off + k).value.equals(oracle[k][0]) for k in range(d * d))
        if got.get('aliased') and d == 2:
            # the exponential is computed in place: only right if matrix_exponential tolerates eA == A on every path
            why = exponential_alias_unsafe(db)
            if why:
                rep.fail('G.utransform', 'UTransform(v,scale)/in-place', unit.loc(f), 'the exponential is written to a matrix other than its argument (or matrix_exponential is alias-safe)',
                         'matrix_exponential is called with the same matrix as input and output, and with aliased arguments %s' % why, f['name'])
            else:
                rep.ok('G.utransform')
        if ok_in and ok_out:
            rep.ok('G.utransform')
        else:
            rep.fail('G.utransform', 'UTransform(v,scale)/%d' % d, unit.loc(f), 'E^dagger A E with E = exp(scale*matrix(v))',
                     'exponent matrix %s, sandwich %s' % ('ok' if ok_in else 'differs', 'ok' if ok_out else 'differs'), f['name'])


def run(db, rep, tier):
    rep.trusted += ['clang 14 AST of /repo sources', 'sqdump extractor + abstract interpreter on a matrix-polynomial domain',
                    'callee summaries: gsl_blas_zgemm, gsl_matrix_complex_set_identity/set_all/memcpy/scale, gsl_linalg_complex_LU_decomp/LU_solve (X := Q^-1 P column-wise)',
                    'published theta_m of Al-Mohy & Higham (2009) as upper bounds; Pade coefficients (2m-j)!/(j!(m-j)!)',
                    'norm estimates are opaque scalars; each comparison on them is a path choice (all choices explored)',
                    'paths with ell(B,13)>0 are not judged: with the constants used by ell() that value is numerically unreachable (DESIGN 4 C07, observation)']
    rep.declined += ['the accuracy bound itself', 'the effect of the randomised estimator on order selection',
                     'consistency of the scaling of B with the final s when ell(B,13)>0 (numerically unreachable, not decidable structurally)']
    tables = pade_tables(db, rep)
    check_helpers(db, rep)
    seen, stale, paths, thresholds = explore_paths(db, rep, tables)
    rep.notes.append('%d order/scaling paths explored' % paths)
    for m in (3, 5, 7, 9, 13):
        if m not in seen:
            rep.break_('no path reaches Pade order %d' % m)
    for (name, what), where in sorted(stale.items()):
        rep.fail('G.scratch.def', '%s/%s' % (name, what), where, 'thread-local scratch matrix completely written before it is read after reset',
                 'read of stale contents as %s' % what, ME + 'matrix_exponential')
    if not stale:
        rep.ok('G.scratch.def', 1)
    check_thresholds(db, rep, thresholds)
    # "whatever was exponentiated before it on the same thread": the same exploration after a call that left its
    # powers, its identity and its work matrices in the thread-local holders (same dimension, larger, smaller)
    for warm_n, n2 in ((3, 3), (3, 4), (4, 3)):
        seen2, stale2, paths2, _thr = explore_paths(db, rep, tables, n=n2, warm_n=warm_n)
        rep.notes.append('%d paths explored for a %dx%d matrix after a %dx%d call on the same thread' % (paths2, n2, n2, warm_n, warm_n))
        for (name, what), where in sorted(stale2.items()):
            rep.fail('G.scratch.def', 'after a %dx%d call/n=%d/%s/%s' % (warm_n, warm_n, n2, name, what), where if ':' in str(where) else 'src/MatrixExp.cpp',
                     'the result does not depend on what an earlier call left in the thread-local scratch matrices',
                     'read of %s' % what, ME + 'matrix_exponential')
        if not stale2:
            rep.ok('G.scratch.def', 1)
    check_squaring(db, rep)
    check_power_estimator(db, rep)
    check_diagonal(db, rep)
    check_estimator_guards(db, rep)
    check_utransform(db, rep)
