"""Exploration of SU_vector lifecycle operations over abstract entry states (engine B driver).
Produces findings tagged with rule ids; c08/c09/c15/c16 select the rules they own."""
from guarded import same, explain
import itertools

from astdb import AnalysisBroken, sig
from interp import (Interp, Obj, Cell, Ptr, Region, Thrown, Unsupported, OutOfBounds, NULL, UNDEF, Ref)
from kernels import SUV, target_wrapper
from poly import Poly, CPoly
from own import (World, OwnHooks, Violation, Choices, enumerate_choices, mk_vector, snapshot, check_invariants, Block)
from gslmodel import GslHooks
from stdmodel import make_vector
import proxies

D = 'squids::detail::'
KINDS = ('empty', 'owned', 'ext')


class Finding:
    def __init__(self, rule, site, where, expected, found, function, exceptional=False, allocfail=False):
        self.rule = rule
        self.site = site
        self.where = where
        self.expected = expected
        self.found = found
        self.function = function
        self.exceptional = exceptional
        self.allocfail = allocfail


class Explorer:
    def __init__(self, db):
        self.db = db
        self.findings = []
        self.runs = 0
        self.paths = 0
        self.ops = {}  # op label -> number of (state, choice) paths explored
        self.alloc_sites = {}  # op label -> set of allocation sites seen
        self.allocfail_paths = 0
        self._naive = {}
        self.steal_checks = {}  # expression label -> (ok, detail, where)

    # ---------------------------------------------------------------- generic runner
    def explore(self, label, unit_name, fdecl, setup, post=None, allocfail=True, is_ctor=False, precache=True):
        """setup(world) -> dict(this=cell|None, args=[...], live=[(name, cell)], pre={name: snapshot}, target=name|None,
                                 result_name=str|None, info=str)
        post(world, ctx, outcome) -> list of (rule, expected, found)   (only on normal exits)"""
        unit = self.db.unit(unit_name)
        fname = sig(fdecl)

        def one(choices, fail_at=None):
            w = World(choices, fail_at)
            if precache and choices.pick('block cache pre-populated', 2) == 1:
                for dd in (2, 3):
                    b = w.new_block(dd * dd + 3, 'heap', 'block cached by an earlier release', addr=(32 - 8 - (8 if dd % 2 else 0)) % 32, entry=True)
                    b.state = 'cached'
                    b.cached_offset = 1
                    w.cache.setdefault(dd, []).append(b)
            ctx = setup(w)
            hooks = OwnHooks(w)
            it = Interp(unit, hooks)
            live = list(ctx['live'])
            pre = {n: snapshot(c) for n, c in live}
            outcome = {'thrown': None, 'violation': None, 'result': None, 'oob': None}
            try:
                res = it.call(fdecl, ctx.get('this'), ctx['args'])
                outcome['result'] = res
                if isinstance(res, Obj) and res.rec == SUV:
                    live.append(('result', Cell(res, None, 0, 'result')))
                if is_ctor:
                    pass
            except Thrown as t:
                outcome['thrown'] = t
                if is_ctor and ctx.get('this') is not None:
                    live = [(n, c) for n, c in live if c is not ctx['this']]
            except Violation as v:
                outcome['violation'] = v
            except OutOfBounds as e:
                outcome['oob'] = e
            return w, ctx, live, pre, outcome

        def judge(w, ctx, live, pre, outcome, fail_at):
            state = ctx.get('info', '')
            site = '%s/%s' % (label, state)
            where = unit.loc(fdecl)
            exc = outcome['thrown'] is not None
            if outcome['violation'] is not None:
                v = outcome['violation']
                self.add(v.rule, site, v.where or where, 'ownership discipline', v.what, fname, exc, fail_at is not None)
                return
            if outcome['oob'] is not None:
                e = outcome['oob']
                self.add('B.oob', site, e.where or where, 'accesses inside the extent of the block', str(e), fname, exc, fail_at is not None)
                return
            if exc:
                where = unit.loc(outcome['thrown'].node) if outcome['thrown'].node else where
            for rule, msg in check_invariants(w, live, exc):
                self.add(rule, site, where, 'invariant on %s exit' % ('the exceptional' if exc else 'the normal'),
                         msg + ((' [after %s]' % outcome['thrown'].what) if exc else ''), fname, exc, fail_at is not None)
            if exc:
                # strong guarantee for bystanders: every pre-existing vector other than the target keeps its value
                tgt = ctx.get('target')
                for n, c in live:
                    if n == tgt or n == 'result' or n not in pre:
                        continue
                    if n in ctx.get('consumable', ()):
                        continue
                    now = snapshot(c)
                    if not same_snapshot(pre[n], now):
                        self.add('B.exc.bystander', site, where, '%s unchanged when the operation throws' % n,
                                 'changed: %s' % diff_snapshot(pre[n], now), fname, True, fail_at is not None)
                if ctx.get('expect_throw') is False and fail_at is None:
                    self.add('B.nothrow', site, where, 'the operation succeeds in this state', 'throws: %s' % outcome['thrown'].what, fname, True)
                if tgt and fail_at is None and ctx.get('target_unmodified_on_throw', True):
                    for n, c in live:
                        if n == tgt and n in pre and not same_snapshot(pre[n], snapshot(c)):
                            self.add('C.throw.first', site, where, 'the target is not modified when the statement fails',
                                     'changed: %s' % diff_snapshot(pre[n], snapshot(c)), fname, True)
            else:
                if ctx.get('expect_throw') is True:
                    self.add('B.mustthrow', site, where, 'an exception (%s)' % ctx.get('throw_reason', 'documented failure'), 'completes normally', fname)
                if post is not None:
                    for rule, expected, found in post(w, ctx, pre, outcome, live):
                        self.add(rule, site, where, expected, found, fname)

        n_alloc_max = 0
        for ch, (w, ctx, live, pre, outcome) in enumerate_choices(lambda c: one(c)):
            self.paths += 1
            self.ops[label] = self.ops.get(label, 0) + 1
            self.alloc_sites.setdefault(label, set()).update(w.alloc_sites)
            judge(w, ctx, live, pre, outcome, None)
            n_alloc_max = max(n_alloc_max, w.alloc_count)
            if allocfail and w.alloc_count:
                base = [x[1] for x in ch.log]
                for k in range(1, w.alloc_count + 1):
                    w2, ctx2, live2, pre2, out2 = one(Choices(base), k)
                    self.allocfail_paths += 1
                    if out2['thrown'] is None and out2['violation'] is None and out2['oob'] is None:
                        continue  # the k-th allocation was not reached on this replay
                    judge(w2, ctx2, live2, pre2, out2, k)

    def add(self, rule, site, where, expected, found, function, exceptional=False, allocfail=False):
        self.findings.append(Finding(rule, site, where, expected, found, function, exceptional, allocfail))


def same_snapshot(a, b):
    for k in ('dim', 'size', 'ptr_offset', 'isinit', 'isinit_d'):
        if a.get(k) != b.get(k):
            return False
    pa, pb = a.get('components'), b.get('components')
    if isinstance(pa, Ptr) and isinstance(pb, Ptr):
        if pa != pb:
            return False
    elif pa is not pb:
        return False
    va, vb = a.get('values'), b.get('values')
    if (va is None) != (vb is None):
        return False
    if va is not None:
        if len(va) != len(vb):
            return False
        for x, y in zip(va, vb):
            if isinstance(x, Poly) and isinstance(y, Poly):
                if not x.equals(y):
                    return False
            elif x is not y:
                return False
    return True


def diff_snapshot(a, b):
    out = []
    for k in ('dim', 'size', 'components', 'ptr_offset', 'isinit', 'isinit_d'):
        if (a.get(k) != b.get(k)) if not isinstance(a.get(k), Ptr) else not (a.get(k) == b.get(k)):
            out.append('%s: %r -> %r' % (k, a.get(k), b.get(k)))
    va, vb = a.get('values'), b.get('values')
    if va is not None and vb is not None and len(va) == len(vb):
        for i, (x, y) in enumerate(zip(va, vb)):
            if isinstance(x, Poly) and isinstance(y, Poly) and not x.equals(y):
                out.append('component %d: %s -> %s' % (i, x, y))
                break
            if not isinstance(x, Poly) or not isinstance(y, Poly):
                if x is not y:
                    out.append('component %d: %r -> %r' % (i, x, y))
                    break
    return '; '.join(out) or 'values differ'


def values_of(cell):
    s = snapshot(cell)
    return s.get('values')


def state_label(**kw):
    return ','.join('%s=%s' % (k, v) for k, v in kw.items())


# ---------------------------------------------------------------------------------------------- operations
def op_plain(ex):
    """constructors, destructor, copy/move, SetBackingStore, make_aligned, factories"""
    db = ex.db
    U = 'SUNalg'
    fctor = lambda n, pred=None: db.one(U, 'squids::SU_vector::SU_vector', n, pred)

    # default constructor
    f = fctor(0)

    def setup(w):
        this = Cell(Obj(SUV, None, 'v'), None, 0, 'v')
        return dict(this=this, args=[], live=[('v', this)], info='-', expect_throw=False)
    ex.explore('SU_vector()', U, f, setup, lambda w, ctx, pre, out, live: post_empty(ctx['this']), is_ctor=True)

    # copy constructor
    f = fctor(1, lambda f: f.get('copyCtor'))
    for kind in KINDS:
        for d in ((0,) if kind == 'empty' else (2, 3)):
            def setup(w, kind=kind, d=d):
                V = mk_vector(w, 'V', kind, d, 'a')
                this = Cell(Obj(SUV, None, 'v'), None, 0, 'v')
                return dict(this=this, args=[V], live=[('V', V), ('v', this)], info=state_label(V=kind + str(d)), expect_throw=False, src=V)
            ex.explore('SU_vector(const SU_vector&)', U, f, setup, post_copy, is_ctor=True)

    # move constructor
    f = fctor(1, lambda f: f.get('moveCtor'))
    for kind in KINDS + ('plain',):
        for d in ((0,) if kind == 'empty' else (2, 3)):
            def setup(w, kind=kind, d=d):
                V = mk_vector(w, 'V', kind, d, 'a')
                this = Cell(Obj(SUV, None, 'v'), None, 0, 'v')
                return dict(this=this, args=[V], live=[('V', V), ('v', this)], info=state_label(V=kind + str(d)), expect_throw=False, src=V, srckind=kind)
            ex.explore('SU_vector(SU_vector&&)', U, f, setup, post_move, is_ctor=True)

    # sized constructor
    f = fctor(1, lambda f: f['params'][0]['t'] == 'unsigned int')
    for d in (1, 2, 3, 6, 7):
        def setup(w, d=d):
            this = Cell(Obj(SUV, None, 'v'), None, 0, 'v')
            return dict(this=this, args=[d], live=[('v', this)], info='d=%d' % d, expect_throw=(d in (1, 7)))
        ex.explore('SU_vector(unsigned)', U, f, setup, lambda w, ctx, pre, out, live: post_owned_zero(ctx['this']), is_ctor=True)

    # external storage constructor
    f = fctor(2, lambda f: f['params'][0]['t'] == 'unsigned int')
    for d in (2, 3, 7):
        def setup(w, d=d):
            this = Cell(Obj(SUV, None, 'v'), None, 0, 'v')
            b = w.new_block(max(d * d, 1), 'ext', 'user buffer', addr=8, entry=True)
            b.region.make = lambda k: Poly.var('e%d' % k)
            return dict(this=this, args=[d, Ptr(b.region, 0)], live=[('v', this)], info='d=%d' % d, expect_throw=(d == 7), buf=b)
        ex.explore('SU_vector(unsigned,double*)', U, f, setup, post_ext, is_ctor=True)

    # component-list constructor (valid and invalid lengths)
    f = fctor(1, lambda f: 'std::vector<double' in f['params'][0]['t'])
    for L in (1, 4, 5, 9, 49):
        def setup(w, L=L):
            this = Cell(Obj(SUV, None, 'v'), None, 0, 'v')
            vec = make_vector('data', L, lambda k: Poly.var('x%d' % k))
            return dict(this=this, args=[vec], live=[('v', this)], info='len=%d' % L, expect_throw=(L not in (4, 9)))
        ex.explore('SU_vector(const std::vector<double>&)', U, f, setup, None, is_ctor=True)

    # matrix constructor
    f = fctor(1, lambda f: f['params'][0]['t'].startswith('const gsl_matrix_complex'))
    for shape in ((2, 2), (3, 3), (2, 3), (1, 1), (7, 7)):
        def setup(w, shape=shape):
            this = Cell(Obj(SUV, None, 'v'), None, 0, 'v')
            from kernels import GslMatrix
            m = GslMatrix(shape[0], shape[1], lambda r, c: CPoly(Poly.var('mr%d_%d' % (r, c)), Poly.var('mi%d_%d' % (r, c))), 'm')
            return dict(this=this, args=[m.ptr], live=[('v', this)], info='%dx%d' % shape, expect_throw=(shape not in ((2, 2), (3, 3))))
        ex.explore('SU_vector(const gsl_matrix_complex*)', U, f, setup, None, is_ctor=True)

    # make_aligned
    f = db.one(U, 'squids::SU_vector::make_aligned', 2)
    for d in (2, 3):
        for zf in (0, 1):
            def setup(w, d=d, zf=zf):
                return dict(this=None, args=[d, zf], live=[], info='d=%d,zero_fill=%d' % (d, zf), expect_throw=False)
            ex.explore('make_aligned', U, f, setup, None)

    # factories (ownership only; values are C13)
    for name, args in (('Projector', (3, 1)), ('Identity', (2,)), ('PosProjector', (3, 2)), ('NegProjector', (2, 1)), ('Generator', (3, 4))):
        f = db.one(U, 'squids::SU_vector::' + name, len(args))

        def setup(w, args=args):
            return dict(this=None, args=list(args), live=[], info=','.join(map(str, args)), expect_throw=False)
        ex.explore(name, U, f, setup, None)

    # destructor
    f = db.one(U, 'squids::SU_vector::~SU_vector', 0)
    for kind in KINDS + ('plain',):
        for d in ((0,) if kind == 'empty' else (2, 3)):
            def setup(w, kind=kind, d=d):
                this = mk_vector(w, 'v', kind, d, 'a')
                return dict(this=this, args=[], live=[], info=state_label(v=kind + str(d)), expect_throw=False)
            ex.explore('~SU_vector', U, f, setup, None)

    # SetBackingStore
    f = db.one(U, 'squids::SU_vector::SetBackingStore', 1)
    for kind in KINDS:
        for d in ((0,) if kind == 'empty' else (2, 3)):
            def setup(w, kind=kind, d=d):
                this = mk_vector(w, 'v', kind, d, 'a')
                b = w.new_block(9, 'ext', 'new user buffer', addr=8, entry=True)
                b.region.make = lambda k: Poly.var('n%d' % k)
                return dict(this=this, args=[Ptr(b.region, 0)], live=[('v', this)], info=state_label(v=kind + str(d)), expect_throw=False, buf=b)
            ex.explore('SetBackingStore', U, f, setup, post_backing)

    # copy assignment / move assignment
    for label, pred, post in (('operator=(const SU_vector&)', lambda f: f.get('copyAssign'), post_copy_assign),
                              ('operator=(SU_vector&&)', lambda f: f.get('moveAssign'), post_move_assign)):
        f = db.one(U, 'squids::SU_vector::operator=', 1, pred)
        combos = []
        for tk in KINDS:
            for td in ((0,) if tk == 'empty' else (2, 3)):
                for ok in KINDS:
                    for od in ((0,) if ok == 'empty' else (2, 3)):
                        combos.append((tk, td, ok, od))
        combos += [('owned', 2, 'owned', 4), ('owned', 4, 'owned', 2), ('owned', 3, 'owned', 5)]  # equal parity, different size
        combos += [('plain', 2, 'owned', 3), ('plain', 3, 'owned', 2), ('plain', 2, 'owned', 2), ('plain', 2, 'empty', 0), ('owned', 2, 'plain', 3), ('plain', 3, 'ext', 2)]
        for tk, td, ok, od in combos:
            def setup(w, tk=tk, td=td, ok=ok, od=od, label=label):
                this = mk_vector(w, 'v', tk, td, 'T')
                other = mk_vector(w, 'o', ok, od, 'a')
                must_throw = (tk == 'ext' and td * td != od * od)
                return dict(this=this, args=[other], live=[('v', this), ('o', other)], target='v', info=state_label(v=tk + str(td), o=ok + str(od)),
                            expect_throw=must_throw, throw_reason='size-changing assignment to external storage', other=other, tk=tk, ok=ok,
                            consumable=(('o',) if 'SU_vector&&' in label else ()))
            ex.explore(label, U, f, setup, post)
        # self assignment
        for tk in KINDS:
            def setup(w, tk=tk):
                this = mk_vector(w, 'v', tk, 0 if tk == 'empty' else 3, 'T')
                return dict(this=this, args=[this], live=[('v', this)], target='v', info=state_label(v=tk, o='self'), expect_throw=False, selfassign=True)
            ex.explore(label, U, f, setup, lambda w, ctx, pre, out, live: post_unchanged(ctx['this'], pre['v'], 'self-assignment leaves the vector unchanged'))

    # plain compound assignment with vectors (no allocation; footprint is C01)
    for nm in ('operator+=', 'operator-='):
        f = db.one(U, 'squids::SU_vector::' + nm, 1, lambda f: f['params'][0]['t'] == 'const squids::SU_vector &')
        for tk in ('owned', 'ext'):
            for od in (2, 3):
                def setup(w, tk=tk, od=od):
                    this = mk_vector(w, 'v', tk, 2, 'T')
                    other = mk_vector(w, 'o', 'owned', od, 'a')
                    return dict(this=this, args=[other], live=[('v', this), ('o', other)], target='v', info=state_label(v=tk + '2', o='owned%d' % od),
                                expect_throw=(od != 2), throw_reason='size mismatch')
                ex.explore(nm + '(const SU_vector&)', U, f, setup, None)

    # clear_mem_cache with blocks in the cache
    f = db.one(U, 'squids::SU_vector::clear_mem_cache', 0)
    for ncached in (0, 1, 2):
        def setup(w, ncached=ncached):
            for i in range(ncached):
                b = w.new_block(7, 'heap', 'cached entry block', addr=24, entry=True)
                b.state = 'cached'
                b.cached_offset = 1
                w.cache.setdefault(2 + i, []).append(b)
            return dict(this=None, args=[], live=[], info='cached=%d' % ncached, expect_throw=False)
        ex.explore('clear_mem_cache', U, f, setup, post_cache_empty, precache=False)


def post_empty(cell):
    o = cell.value
    bad = []
    for k, want in (('dim', 0), ('size', 0), ('isinit', 0), ('isinit_d', 0)):
        if o.fields[k].value != want:
            bad.append('%s=%r' % (k, o.fields[k].value))
    if bad:
        return [('B.post', 'an empty vector', ', '.join(bad))]
    return []


def post_copy(w, ctx, pre, out, live):
    res = []
    V, v = ctx['src'], ctx['this']
    if not same_snapshot(pre['V'], snapshot(V)):
        res.append(('B.post', 'the source of a copy is unchanged', diff_snapshot(pre['V'], snapshot(V))))
    sv = snapshot(v)
    if pre['V']['isinit'] or pre['V']['isinit_d']:
        if not sv['isinit'] or sv['isinit_d']:
            res.append(('B.post', 'a copy owns its storage', 'isinit=%r isinit_d=%r' % (sv['isinit'], sv['isinit_d'])))
        pb, qb = w.block_of(pre['V']['components']), w.block_of(sv['components'])
        if pb is qb:
            res.append(('B.post', 'copy in disjoint storage', 'the copy aliases the source block'))
        if sv['dim'] != pre['V']['dim'] or sv['size'] != pre['V']['size']:
            res.append(('B.post', 'same shape as the source', 'dim=%r size=%r' % (sv['dim'], sv['size'])))
        elif not all(isinstance(x, Poly) and isinstance(y, Poly) and x.equals(y) for x, y in zip(sv['values'], pre['V']['values'])):
            res.append(('B.post', 'equal components', 'components differ'))
    else:
        if sv['isinit'] or sv['isinit_d']:
            res.append(('B.post', 'copy of an empty vector is empty', 'flags set'))
    return res


def post_move(w, ctx, pre, out, live):
    res = []
    V, v = ctx['src'], ctx['this']
    sv, sV = snapshot(v), snapshot(V)
    if ctx['srckind'] in ('owned', 'plain'):
        if w.block_of(sv['components']) is not w.block_of(pre['V']['components']) or not sv['isinit']:
            res.append(('B.post', 'the destination takes over the source block', 'it does not'))
        elif not all(isinstance(x, Poly) and x.equals(y) for x, y in zip(sv['values'], pre['V']['values'])):
            res.append(('B.post', 'destination holds the source value', 'components differ'))
        if sV['isinit'] or sV['isinit_d'] or sV['size'] != 0:
            res.append(('B.post', 'moved-from source is empty', 'isinit=%r size=%r' % (sV['isinit'], sV['size'])))
    elif ctx['srckind'] == 'ext':
        if not sv['isinit_d'] or sv['isinit'] or not (sv['components'] == pre['V']['components']):
            res.append(('B.post', 'destination is bound to the same user buffer', 'isinit_d=%r components=%r' % (sv['isinit_d'], sv['components'])))
    return res


def post_owned_zero(cell):
    s = snapshot(cell)
    if not s['isinit'] or s['isinit_d']:
        return [('B.post', 'an owning vector', 'isinit=%r isinit_d=%r' % (s['isinit'], s['isinit_d']))]
    if not all(isinstance(x, Poly) and x.is_zero() for x in s['values']):
        return [('B.post', 'zero-initialised components', 'not all zero / defined')]
    return []


def post_ext(w, ctx, pre, out, live):
    s = snapshot(ctx['this'])
    if s['isinit'] or not s['isinit_d'] or not (s['components'] == Ptr(ctx['buf'].region, 0)):
        return [('B.post', 'bound (non-owning) to exactly the user buffer', 'isinit=%r isinit_d=%r components=%r' % (s['isinit'], s['isinit_d'], s['components']))]
    vals = s['values']
    if not all(isinstance(x, Poly) and x.equals(Poly.var('e%d' % k)) for k, x in enumerate(vals)):
        return [('B.post', 'buffer contents untouched by construction', 'modified')]
    return []


def post_backing(w, ctx, pre, out, live):
    s = snapshot(ctx['this'])
    if s['isinit'] or not s['isinit_d'] or not (s['components'] == Ptr(ctx['buf'].region, 0)):
        return [('B.post', 'bound (non-owning) to the new buffer', 'isinit=%r isinit_d=%r components=%r' % (s['isinit'], s['isinit_d'], s['components']))]
    return []


def post_unchanged(cell, before, what):
    now = snapshot(cell)
    if not same_snapshot(before, now):
        return [('B.post', what, diff_snapshot(before, now))]
    return []


def post_copy_assign(w, ctx, pre, out, live):
    res = []
    v, o = ctx['this'], ctx['other']
    if not same_snapshot(pre['o'], snapshot(o)):
        res.append(('B.post', 'the source of a copy assignment is unchanged', diff_snapshot(pre['o'], snapshot(o))))
    sv = snapshot(v)
    po = pre['o']
    if po['isinit'] or po['isinit_d']:
        if sv['size'] != po['size'] or sv['dim'] != po['dim']:
            res.append(('B.post', 'target takes the shape of the source', 'dim=%r size=%r' % (sv['dim'], sv['size'])))
        elif sv['values'] is None or not all(isinstance(x, Poly) and x.equals(y) for x, y in zip(sv['values'], po['values'])):
            res.append(('B.post', 'equal components after copy assignment', 'components differ'))
        if w.block_of(sv['components']) is w.block_of(po['components']) and w.block_of(po['components']) is not None:
            res.append(('B.post', 'disjoint storage after copy assignment', 'target aliases the source block'))
        if ctx['tk'] == 'ext':
            if not sv['isinit_d'] or not (sv['components'] == pre['v']['components']):
                res.append(('B.post', 'a target bound to user storage stays bound to exactly that buffer', 'components=%r isinit_d=%r' % (sv['components'], sv['isinit_d'])))
    return res


def post_move_assign(w, ctx, pre, out, live):
    res = []
    v, o = ctx['this'], ctx['other']
    sv, so = snapshot(v), snapshot(o)
    po, pv = pre['o'], pre['v']
    if ctx['tk'] == 'ext':
        if not sv['isinit_d'] or not (sv['components'] == pv['components']):
            res.append(('B.post', 'a target bound to user storage stays bound to exactly that buffer', 'components=%r' % (sv['components'],)))
        elif po['values'] is not None and not all(isinstance(x, Poly) and x.equals(y) for x, y in zip(sv['values'], po['values'])):
            res.append(('B.post', 'target holds the source value', 'components differ'))
    else:
        if po['isinit'] or po['isinit_d']:
            if sv['size'] != po['size'] or sv['values'] is None or not all(isinstance(x, Poly) and x.equals(y) for x, y in zip(sv['values'], po['values'])):
                res.append(('B.post', 'target holds the source value after move assignment', 'components differ'))
        if po['isinit'] and not (w.block_of(sv['components']) is w.block_of(po['components']) and sv['isinit']):
            res.append(('B.post', 'target takes over the source block', 'it does not'))
    return res


def post_cache_empty(w, ctx, pre, out, live):
    left = [b.region.name for lst in w.cache.values() for b in lst]
    if left:
        return [('B.post', 'the cache is empty after clear_mem_cache', 'still cached: %s' % left)]
    return []


# ---------------------------------------------------------------------------------------------- expressions
# expression shapes: (label, operation, entry predicate, operand roles) ; role 'l' = lvalue, 'r' = rvalue (movable)
CSUV = 'const squids::SU_vector &'
RSUV = 'squids::SU_vector &&'


def expr_shapes(db):
    U = 'instantiate'
    shapes = []

    def meth(name, ptypes, refq):
        return db.one(U, name, len(ptypes), lambda f: [p['t'] for p in f['params']] == list(ptypes) and f.get('refq') == refq and f.get('record') == SUV)

    def free(name, ptypes):
        return db.one(U, name, len(ptypes), lambda f: [p['t'] for p in f['params']] == list(ptypes))
    # (label, op key, fdecl, how to call: 'm1' method with other, 'm0' method no vec arg, 'f2' free two vecs, 'fs' free scalar,vec ; value categories (a,b))
    # every overload of the member operators + and - that exists (value category of *this x value category of the
    # argument), discovered from the class: a new overload is judged like the others
    required = {('+', 'll'), ('+', 'lr'), ('+', 'rl'), ('+', 'rr'), ('-', 'll'), ('-', 'rl'), ('neg', 'l'), ('neg', 'r')}
    found = set()
    for sym in ('+', '-'):
        for f in db.find(U, 'squids::SU_vector::operator' + sym):
            if f.get('record') != SUV or f.get('refq') not in ('&', '&&'):
                continue
            pts = [p['t'] for p in f['params']]
            me = 'l' if f['refq'] == '&' else 'r'
            lhs = 'a' if me == 'l' else 'move(a)'
            if pts in ([CSUV], [RSUV]):
                other = 'l' if pts == [CSUV] else 'r'
                shapes.append(('%s%s%s' % (lhs, sym, 'b' if other == 'l' else 'move(b)'), 'Addition' if sym == '+' else 'Subtraction', f, 'm1', me + other))
                found.add((sym, me + other))
            elif pts == [] and sym == '-':
                shapes.append(('-%s' % lhs, 'Negation', f, 'm0', me))
                found.add(('neg', me))
    if not required <= found:
        raise AnalysisBroken('arithmetic operator overloads of SU_vector not found: %s' % sorted(required - found))
    shapes.append(('a*s', 'Multiplication', db.one(U, 'squids::SU_vector::operator*', 1, lambda f: f['params'][0]['t'] in ('double', 'const double') and f.get('refq') == '&'), 'ms', 'l'))
    shapes.append(('move(a)*s', 'Multiplication', db.one(U, 'squids::SU_vector::operator*', 1, lambda f: f['params'][0]['t'] in ('double', 'const double') and f.get('refq') == '&&'), 'ms', 'r'))
    shapes.append(('s*a', 'Multiplication', free('squids::operator*<void>', ['double', CSUV]), 'fs', 'l'))
    shapes.append(('s*move(a)', 'Multiplication', free('squids::operator*<void>', ['double', RSUV]), 'fs', 'r'))
    shapes.append(('iCommutator(a,b)', 'iCommutator', free('squids::iCommutator<void>', [CSUV, CSUV]), 'f2', 'll'))
    shapes.append(('ACommutator(a,b)', 'ACommutator', free('squids::ACommutator<void>', [CSUV, CSUV]), 'f2', 'll'))
    shapes.append(('a.Evolve(b,t)', 'Evolution', db.one(U, 'squids::SU_vector::Evolve', 2, lambda f: f['params'][0]['t'] == CSUV), 'me', 'll'))
    shapes.append(('a.Evolve(buf)', 'FastEvolution', db.one(U, 'squids::SU_vector::Evolve', 1, lambda f: f['params'][0]['t'].startswith('const double *')), 'mb', 'l'))
    for cats, pt in (('ll', [CSUV, CSUV]), ('rl', [RSUV, CSUV]), ('lr', [CSUV, RSUV]), ('rr', [RSUV, RSUV])):
        lab = 'ElementwiseProduct(%s,%s)' % ('move(a)' if cats[0] == 'r' else 'a', 'move(b)' if cats[1] == 'r' else 'b')
        shapes.append((lab, 'ElementwiseProduct', free('squids::ElementwiseProduct<void>', pt), 'f2', cats))
    return shapes


def depends_on_fresh_storage(v):
    """does the value mention the prior content T<k> of the fresh temporary it was computed into?"""
    import re
    from interp import ITE
    from kernels import flatten_ite
    if isinstance(v, ITE):
        for path, leaf in flatten_ite(v):
            r = depends_on_fresh_storage(leaf)
            if r:
                return r
        return None
    if isinstance(v, Poly):
        for name in v.vars():
            if re.match(r'^T\d+$', name):
                return name
    return None


def naive_value(ex, op, d):
    """component list of op(a,b) evaluated by the kernel on non-aliased fresh operands (engine A run)"""
    key = (op, d)
    if key not in ex._naive:
        from kernels import make_suv
        a, _ = make_suv('A', d, 'a')
        b, _ = make_suv('B', d, 'b')
        buf = None
        if op == 'FastEvolution':
            n = d * (d - 1) // 2
            r = Region('buf', 2 * n, lambda k: Poly.var(('CX%d' % k) if k < n else 'SX%d' % (k - n)))
            buf = Ptr(r, 0)
        proxy, ef = proxies.build_proxy(ex.db, op, a, b, proxies.ProxyHooks(), scalar=Poly.var('s'), buf=buf, t=Poly.var('t'))
        tgt, hooks, cf = proxies.run_compute(ex.db, op, proxy, d)
        ex._naive[key] = [tgt.cell(k).value for k in range(d * d)]
    return ex._naive[key]


def build_expr(it_unit, db, w, shape, a, b):
    """interpret the entry point producing the proxy (inside the same world); returns proxy Obj"""
    label, op, f, how, cats = shape
    hooks = OwnHooks(w)
    it = Interp(db.unit('instantiate'), hooks)
    if how == 'm1':
        r = it.call(f, a, [b])
    elif how == 'm0':
        r = it.call(f, a, [])
    elif how == 'ms':
        r = it.call(f, a, [Poly.var('s')])
    elif how == 'fs':
        r = it.call(f, None, [Poly.var('s'), a])
    elif how == 'f2':
        r = it.call(f, None, [a, b])
    elif how == 'me':
        r = it.call(f, a, [b, Poly.var('t')])
    elif how == 'mb':
        d = a.value.fields['dim'].value
        n = d * (d - 1) // 2
        reg = Region('buf', 2 * n, lambda k: Poly.var(('CX%d' % k) if k < n else 'SX%d' % (k - n)))
        r = it.call(f, a, [Ptr(reg, 0)])
    else:
        raise AnalysisBroken('shape ' + how)
    if not isinstance(r, Obj):
        raise AnalysisBroken('entry point %s did not return a proxy' % label)
    return r


def steal_flag_check(db, shape, proxy, a, b):
    """ArgNMovable may be set only for an operand bound from an rvalue: an rvalue-reference parameter, or *this of an
    &&-qualified member.  Value categories are read from the entry point's own signature."""
    label, op, f, how, cats = shape
    unit = db.unit('instantiate')
    rv = {}
    if f.get('record') == SUV and not f.get('staticMethod'):
        rv[id(a)] = (f.get('refq') == '&&')
        vecparams = [p for p in f['params'] if 'SU_vector' in p['t']]
        if vecparams and b is not None:
            rv[id(b)] = vecparams[0]['t'].endswith('&&')
    else:
        vecparams = [p for p in f['params'] if 'SU_vector' in p['t']]
        ops = [a, b]
        for p, c in zip(vecparams, ops):
            if c is not None:
                rv[id(c)] = p['t'].endswith('&&')
    flags = proxy.fields['flags'].value if 'flags' in proxy.fields else 0
    bad = []
    for bit, fld in ((1, 'suv1'), (2, 'suv2')):
        if flags & bit:
            ref = proxy.fields[fld].value
            cell = ref.cell if isinstance(ref, Ref) else None
            if cell is None or not rv.get(id(cell), False):
                bad.append('Arg%dMovable set although %s is bound to %s' % (bit, fld, 'an lvalue operand' if cell is not None and id(cell) in rv else 'an unknown object'))
    if op == 'ElementwiseProduct' and b is not None:
        # the element-wise operation is applied as op(suv1[i], suv2[i]) for an arbitrary user operation: the operands must
        # keep their roles (only the commutative built-in sum may put the movable operand first)
        r1, r2 = proxy.fields['suv1'].value, proxy.fields['suv2'].value
        c1 = r1.cell if isinstance(r1, Ref) else None
        c2 = r2.cell if isinstance(r2, Ref) else None
        if not (c1 is a and c2 is b):
            bad.append('the operands change roles: the first operand of the expression is bound to %s (a user operation that is not symmetric, e.g. std::minus, is applied the wrong way round)'
                       % ('suv2' if c2 is a else 'neither operand slot'))
    return (not bad, '; '.join(bad) or 'flags=%d consistent with value categories' % flags, unit.loc(f), sig(f))


PROXY_CLASS = {k: v[0] for k, v in proxies.OPS.items()}
WSYM = {'AssignWrapper': '=', 'IncrementWrapper': '+=', 'DecrementWrapper': '-='}


def op_expressions(ex, tier):
    db = ex.db
    U = 'instantiate'
    shapes = expr_shapes(db)
    two_vec = lambda how: how in ('m1', 'f2', 'me')
    for shape in shapes:
        label, op, fentry, how, cats = shape
        pcls = PROXY_CLASS[op]
        for W in proxies.WRAPPERS:
            fassign = proxies.assign_proxy_fn(db, W, pcls)
            dims = (2, 3) if tier == 'thorough' or W == 'AssignWrapper' else (3,)
            for d in dims:
                # operand storage kinds
                akinds = ('owned', 'ext')
                bkinds = ('owned', 'ext') if two_vec(how) else (None,)
                if tier != 'thorough':
                    bkinds = bkinds[:1] if cats[-1] == 'l' else bkinds
                for ak in akinds:
                    for bk in bkinds:
                        # target patterns: distinct object of some kind, or alias of an lvalue operand, or sharing a's user buffer
                        targets = [('empty', 0), ('owned', d), ('owned', 5 - d), ('ext', d), ('ext', 5 - d)]
                        aliases = []
                        if cats[0] == 'l':
                            aliases.append('a')
                        if two_vec(how) and cats[1] == 'l':
                            aliases.append('b')
                        if ak == 'ext':
                            aliases.append('buf(a)')
                            # a vector of ANOTHER dimension bound to the start of a's user buffer: same address, other size
                            aliases.append('buf(a)/dim%d' % (5 - d))
                            if cats[0] == 'l':
                                aliases.append('view(v)')
                        for tgt in [('obj',) + t for t in targets] + [('alias', x) for x in aliases]:
                            def setup(w, shape=shape, W=W, d=d, ak=ak, bk=bk, tgt=tgt):
                                return setup_expr(ex, w, shape, W, d, ak, bk, tgt)
                            ex.explore('v %s %s' % (WSYM[W], label), U, fassign, setup, post_expr)
        # resizing between dimensions of equal parity (2->4, 3->5 and back): the released block passes the alignment
        # test of the other dimension's cache, so filing it under the wrong dimension becomes visible
        fassign = proxies.assign_proxy_fn(db, 'AssignWrapper', pcls)
        for d, td in ((4, 2), (5, 3), (2, 4)):
            bk = 'owned' if two_vec(how) else None
            def setup(w, shape=shape, d=d, td=td, bk=bk):
                return setup_expr(ex, w, shape, 'AssignWrapper', d, 'owned', bk, ('obj', 'owned', td))
            ex.explore('v = %s' % label, U, fassign, setup, post_expr)
        # construction from the expression
        fctor = db.one(U, 'squids::SU_vector::SU_vector<%s>' % pcls)
        for d in (2, 3):
            for ak in ('owned', 'ext'):
                for bk in (('owned', 'ext') if two_vec(how) else (None,)):
                    def setup(w, shape=shape, d=d, ak=ak, bk=bk):
                        return setup_expr(ex, w, shape, None, d, ak, bk, ('new',))
                    ex.explore('SU_vector v(%s)' % label, U, fctor, setup, post_expr, is_ctor=True)


def op_proxy_members(ex, tier):
    """members of the expression base class applied to an unevaluated expression: conversion to a vector (from an
    lvalue and from an expiring expression), negation (both), combination with a scalar or a vector.  They
    materialise the expression themselves, so they allocate, steal operand storage and can fail like the assignments."""
    db = ex.db
    U = 'instantiate'
    unit = db.unit(U)
    two_vec = lambda how: how in ('m1', 'f2', 'me')
    nfound = 0
    for shape in expr_shapes(db):
        label, op, fentry, how, cats = shape
        prefix = 'squids::detail::EvaluationProxy<%s>::' % PROXY_CLASS[op]
        members = {}
        for f in unit.functions:
            if not f['name'].startswith(prefix) or f.get('body') is None or f.get('access') != 'public' or f.get('lambda'):
                continue
            base = f['name'][len(prefix):]
            if '<' in base or '::' in base:
                continue  # member templates (expression with expression) are C14's entry points; their ownership follows from the conversions
            pts = [p['t'] for p in f['params']]
            if base in ('operator SU_vector', 'operator-') and pts == []:
                kind = 'none'
            elif base == 'operator*' and pts in (['double'], ['const double']):
                kind = 'scalar'
            elif base in ('operator+', 'operator-') and pts == [CSUV]:
                kind = 'vec'
            elif base == 'Evolve' and pts[:1] == [CSUV] and len(pts) == 2:
                kind = 'vec_t'
            else:
                continue
            members.setdefault((base, tuple(pts), f.get('refq')), (f, kind))
        for (base, pts, refq), (f, kind) in sorted(members.items(), key=lambda kv: (kv[0][0], kv[0][1], kv[0][2] or '')):
            nfound += 1
            sym = {'operator SU_vector': 'SU_vector(%s)', 'operator-': '-(%s)' if kind == 'none' else '(%s)-o', 'operator+': '(%s)+o', 'operator*': '(%s)*s',
                   'Evolve': '(%s).Evolve(o,t)'}[base]
            expr = ('move(%s)' % label) if refq == '&&' else label
            for d in ((2, 3) if tier == 'thorough' else (3,)):
                for ak in (('owned', 'ext') if tier == 'thorough' else ('owned',)):
                    def setup(w, shape=shape, d=d, ak=ak, kind=kind):
                        a = mk_vector(w, 'a', ak, d, 'a')
                        b = mk_vector(w, 'b', 'owned', d, 'b') if two_vec(shape[3]) else None
                        live = [('a', a)] + ([('b', b)] if b is not None else [])
                        args = []
                        if kind == 'scalar':
                            args = [Poly.var('s')]
                        elif kind in ('vec', 'vec_t'):
                            o = mk_vector(w, 'o', 'owned', d, 'e')
                            live.append(('o', o))
                            args = [o] + ([Poly.var('t')] if kind == 'vec_t' else [])
                        proxy = build_expr(None, ex.db, w, shape, a, b)
                        c = shape[4]
                        consumable = tuple(n for n, cc in (('a', c[0]), ('b', c[1] if len(c) > 1 else 'l')) if cc == 'r')
                        return dict(this=Cell(proxy, None, 0, 'expr'), args=args, live=live, target=None, info=state_label(d=d, a=ak),
                                    expect_throw=False, consumable=consumable)
                    ex.explore(sym % expr, U, f, setup, None)
    if nfound < 40:
        raise AnalysisBroken('members of the expression base class not found (%d)' % nfound)


def setup_expr(ex, w, shape, W, d, ak, bk, tgt):
    label, op, fentry, how, cats = shape
    a = mk_vector(w, 'a', ak, d, 'a')
    b = mk_vector(w, 'b', bk, d, 'b') if bk else None
    live = [('a', a)] + ([('b', b)] if b is not None else [])
    if tgt[0] == 'obj':
        v = mk_vector(w, 'v', tgt[1], tgt[2], 'T')
        live.append(('v', v))
        tinfo = '%s%d' % (tgt[1], tgt[2])
        tinit = values_of(v)
    elif tgt[0] == 'alias':
        if tgt[1] == 'a':
            v = a
        elif tgt[1] == 'b':
            v = b
        elif tgt[1] == 'view(v)':
            # the target owns its block; operand a is a distinct, non-owning vector bound to that same block
            v = mk_vector(w, 'v', 'owned', d, 'a')
            for k in ('dim', 'size', 'components'):
                a.value.fields[k].value = v.value.fields[k].value
            a.value.fields['ptr_offset'].value = 0
            a.value.fields['isinit'].value = 0
            a.value.fields['isinit_d'].value = 1
            live.append(('v', v))
        else:  # a second vector bound to a's user buffer
            o = Obj(SUV, None, 'v')
            for k in ('dim', 'size', 'components', 'ptr_offset', 'isinit', 'isinit_d'):
                o.field(k).value = a.value.fields[k].value
            if '/dim' in tgt[1]:
                od = int(tgt[1].split('/dim')[1])
                o.field('dim').value = od
                o.field('size').value = od * od
            v = Cell(o, None, 0, 'v')
            live.append(('v', v))
        tinfo = 'alias:' + tgt[1]
        tinit = values_of(v)
    else:
        v = Cell(Obj(SUV, None, 'v'), None, 0, 'v')
        live.append(('v', v))
        tinfo = 'new'
        tinit = None
    proxy = build_expr(None, ex.db, w, shape, a, b)
    pcell = Cell(proxy, None, 0, 'proxy')
    if label not in ex.steal_checks:
        ex.steal_checks[label] = steal_flag_check(ex.db, shape, proxy, a, b)
    tsize = v.value.fields['size'].value if 'size' in v.value.fields else 0
    tkind = 'ext' if (tgt[0] == 'obj' and tgt[1] == 'ext') or (tgt[0] == 'alias' and v.value.fields['isinit_d'].value) else 'other'
    must_throw = False
    reason = ''
    if W is not None and tsize != d * d:
        if tkind == 'ext':
            must_throw, reason = True, 'size-changing assignment to external storage'
        elif W != 'AssignWrapper':
            must_throw, reason = True, 'size-mismatched += / -='
    consumable = tuple(n for n, c in (('a', cats[0]), ('b', cats[1] if len(cats) > 1 else 'l')) if c == 'r')
    args = [pcell] if W is not None else [pcell, NULL]
    return dict(this=v, args=args, live=live, target=('v' if v is not a and v is not b else ('a' if v is a else 'b')),
                info=state_label(d=d, a=ak, b=bk, v=tinfo), expect_throw=must_throw, throw_reason=reason,
                consumable=consumable, op=op, W=W, d=d, tinit=tinit, a=a, b=b, v=v, cats=cats, alias=(tgt[1] if tgt[0] == 'alias' else None))


def post_expr(w, ctx, pre, out, live):
    res = []
    op, W, d = ctx['op'], ctx['W'], ctx['d']
    naive = naive_value(ctx['ex'] if 'ex' in ctx else _EX[0], op, d)
    v = ctx['v']
    sv = snapshot(v)
    tinit = ctx['tinit']
    if sv['size'] != d * d or sv['dim'] != d or sv['values'] is None:
        res.append(('B.value', 'target of dimension %d holding the result' % d, 'dim=%r size=%r' % (sv['dim'], sv['size'])))
        return res
    # the reference itself: the kernel run in assignment mode on a fresh temporary must determine every component
    for k in range(d * d):
        dep = depends_on_fresh_storage(naive[k])
        if dep:
            res.append(('B.value', 'the operation evaluated into a fresh temporary determines component %d' % k,
                        'component %d of the temporary keeps what the storage held before (%s): %s' % (k, dep, naive[k])))
            return res
    # the target's initial values, expressed in operand symbols when it aliases an operand
    for k in range(d * d):
        n = naive[k]
        if W in (None, 'AssignWrapper'):
            want = n
        else:
            if tinit is None or k >= len(tinit):
                break  # the statement should have failed (reported as B.mustthrow)
            t0 = tinit[k]
            if not isinstance(t0, Poly):
                break
            want = t0 + n if W == 'IncrementWrapper' else t0 - n
        got = sv['values'][k]
        if not (same(got, want)):
            res.append(('B.value', 'component %d equals the value obtained by first evaluating the operation into a fresh temporary (%s)' % (k, want),
                        '%s' % (got,)))
            break
    # lvalue operands that are not the target keep their value
    for n, cat in (('a', ctx['cats'][0]), ('b', ctx['cats'][1] if len(ctx['cats']) > 1 else None)):
        c = ctx.get(n)
        if c is None or cat != 'l' or c is v:
            continue
        if ctx['alias'] in ('buf(a)', 'view(v)') and n == 'a':  # a shares the target's storage: it changes with it
            continue
        if not same_snapshot(pre[n], snapshot(c)):
            res.append(('B.value', 'lvalue operand %s unchanged' % n, diff_snapshot(pre[n], snapshot(c))))
    # externally backed targets stay bound to their buffer
    if 'v' in pre and pre['v'].get('isinit_d'):
        if not sv['isinit_d'] or not (sv['components'] == pre['v']['components']):
            res.append(('B.post', 'a target bound to user storage stays bound to exactly that buffer', 'components=%r isinit_d=%r' % (sv['components'], sv['isinit_d'])))
    return res


_EX = [None]


def run_all(db, tier='quick'):
    ex = Explorer(db)
    _EX[0] = ex
    op_plain(ex)
    op_expressions(ex, tier)
    op_proxy_members(ex, tier)
    return ex


# ---------------------------------------------------------------------------------------------- cached entry
def explore_cached(db, tier):
    """run the exploration once per (source hash, tier, engine version) and share it between C08/C09/C15/C16"""
    import hashlib
    import os
    import pickle
    import astdb
    h = hashlib.sha256()
    here = os.path.dirname(os.path.abspath(__file__))
    for fn in sorted(os.listdir(here)):
        if fn.endswith('.py'):
            with open(os.path.join(here, fn), 'rb') as fh:
                h.update(fh.read())
    key = '%s-%s-%s' % (astdb._hash_inputs(), tier, h.hexdigest()[:12])
    path = os.path.join(astdb.CACHE, 'lifecycle-%s.pkl' % key)
    if os.path.exists(path):
        try:
            with open(path, 'rb') as fh:
                return pickle.load(fh)
        except Exception:
            pass
    ex = run_all(db, tier)
    data = {
        'findings': [(f.rule, f.site, f.where, f.expected, f.found, f.function, f.exceptional, f.allocfail) for f in ex.findings],
        'paths': ex.paths, 'allocfail_paths': ex.allocfail_paths, 'ops': dict(ex.ops),
        'alloc_sites': {k: sorted(v) for k, v in ex.alloc_sites.items()},
        'steal': ex.steal_checks,
    }
    for fn in os.listdir(astdb.CACHE):
        if fn.startswith('lifecycle-') and fn.endswith('.pkl') and ('-%s-' % tier) in fn:
            try:
                os.unlink(os.path.join(astdb.CACHE, fn))
            except OSError:
                pass
    tmp = path + '.tmp%d' % os.getpid()
    with open(tmp, 'wb') as fh:
        pickle.dump(data, fh)
    os.replace(tmp, path)
    return data
