"""Polynomial abstract domain for double-valued expressions.

A Poly is a finite map  monomial -> coefficient  where a monomial is a sorted tuple of
(atom, power) and an atom is a hashable tuple:
   ('v', name)                      a symbolic input (array slot, scalar parameter)
   ('f', fname, key)                an uninterpreted/opaque function of a canonicalised Poly
                                    (sin, cos, fabs, inv (=1/x), sqrt, cbrt, ...), key = Poly.key()
Coefficients are mpmath mpf with 50 digits.  Constant sub-expressions (sqrt(3), 1/3.) are
evaluated numerically to 50 digits; equality of coefficients is decided with a relative
tolerance (TOL) so that decimal literals that are correctly rounded doubles of the exact
value are accepted (DESIGN 1.3).
"""
import mpmath
from mpmath import mpf

mpmath.mp.dps = 50
TOL = mpf('4e-15')  # a few ulp of a double; exact expressions agree to ~1e-48
ZERO_EPS = mpf('1e-40')

_atom_args = {}  # ('f', fname, key) -> Poly argument
_atom_id = {}    # atom tuple -> small int (monomials store ids, sorted numerically)
_atom_by_id = []


def aid(atom):
    i = _atom_id.get(atom)
    if i is None:
        i = len(_atom_by_id)
        _atom_id[atom] = i
        _atom_by_id.append(atom)
    return i


def atom_of(i):
    return _atom_by_id[i]


def atom_arg(atom):
    return _atom_args.get(atom)


def _mono_mul(m1, m2):
    if not m1:
        return m2
    if not m2:
        return m1
    d = dict(m1)
    for a, p in m2:
        d[a] = d.get(a, 0) + p
    return tuple(sorted((a, p) for a, p in d.items() if p != 0))


def _mkey(m):
    """stable, id-independent sort key of a monomial"""
    return repr(tuple((_atom_by_id[a], p) for a, p in m))


class Poly:
    __slots__ = ('t',)

    def __init__(self, terms=None):
        self.t = terms if terms is not None else {}

    # ---- constructors
    @staticmethod
    def const(c):
        c = mpf(c)
        return Poly({(): c}) if c != 0 else Poly()

    @staticmethod
    def var(name):
        return Poly({((aid(('v', name)), 1),): mpf(1)})

    @staticmethod
    def atom(atom):
        return Poly({((aid(atom), 1),): mpf(1)})

    @staticmethod
    def func(fname, arg):
        """opaque function application, canonicalised on the argument"""
        arg = arg.clean()
        key = arg.key()
        a = ('f', fname, key)
        _atom_args[a] = arg
        return Poly.atom(a)

    # ---- queries
    def is_const(self):
        return all(m == () for m in self.t)

    def const_value(self):
        return self.t.get((), mpf(0))

    def is_zero(self):
        return all(abs(c) <= ZERO_EPS for c in self.t.values())

    def clean(self):
        return Poly({m: c for m, c in self.t.items() if abs(c) > ZERO_EPS})

    def atoms(self):
        s = set()
        for m in self.t:
            for a, _ in m:
                s.add(_atom_by_id[a])
        return s

    def vars(self):
        """all ('v',name) atoms, including those inside function arguments"""
        out = set()
        for a in self.atoms():
            if a[0] == 'v':
                out.add(a[1])
            else:
                arg = atom_arg(a)
                if arg is not None:
                    out |= arg.vars()
        return out

    def degree_in(self, pred):
        d = 0
        for m in self.t:
            d = max(d, sum(p for a, p in m if pred(_atom_by_id[a])))
        return d

    def key(self):
        items = []
        for m, c in self.t.items():
            if abs(c) <= ZERO_EPS:
                continue
            items.append((_mkey(m), mpmath.nstr(c, 12)))
        items.sort()
        return tuple(items)

    # ---- arithmetic
    def __add__(self, o):
        o = _lift(o)
        d = dict(self.t)
        for m, c in o.t.items():
            v = d.get(m)
            d[m] = c if v is None else v + c
        return Poly(d)

    __radd__ = __add__

    def __neg__(self):
        return Poly({m: -c for m, c in self.t.items()})

    def __sub__(self, o):
        return self + (-_lift(o))

    def __rsub__(self, o):
        return _lift(o) - self

    def __mul__(self, o):
        o = _lift(o)
        d = {}
        for m1, c1 in self.t.items():
            for m2, c2 in o.t.items():
                m = _mono_mul(m1, m2)
                v = d.get(m)
                d[m] = c1 * c2 if v is None else v + c1 * c2
        return Poly(d)

    __rmul__ = __mul__

    def scale(self, c):
        c = mpf(c)
        return Poly({m: v * c for m, v in self.t.items()})

    def __pow__(self, n):
        assert isinstance(n, int) and n >= 0
        r = Poly.const(1)
        for _ in range(n):
            r = r * self
        return r

    def div(self, o):
        o = _lift(o)
        if o.is_const():
            c = o.const_value()
            if c == 0:
                raise ZeroDivisionError('division by constant zero')
            return self.scale(1 / c)
        # factor a single-term divisor into coefficient * monomial^-1 via inv atom on the normalised poly
        o = o.clean()
        lead = o.leading_coeff()
        on = o.scale(1 / lead)
        return (self * Poly.func('inv', on)).scale(1 / lead)

    def leading_coeff(self):
        ms = sorted(self.t.keys(), key=_mkey)
        for m in ms:
            if abs(self.t[m]) > ZERO_EPS:
                return self.t[m]
        return mpf(1)

    # ---- comparison
    def equals(self, o, tol=TOL):
        o = _lift(o)
        scale = mpf(1)
        for c in list(self.t.values()) + list(o.t.values()):
            if abs(c) > scale:
                scale = abs(c)
        keys = set(self.t) | set(o.t)
        for m in keys:
            if abs(self.t.get(m, 0) - o.t.get(m, 0)) > tol * scale:
                return False
        return True

    def diff_terms(self, o, tol=TOL, limit=4):
        o = _lift(o)
        scale = mpf(1)
        for c in list(self.t.values()) + list(o.t.values()):
            if abs(c) > scale:
                scale = abs(c)
        out = []
        for m in sorted(set(self.t) | set(o.t), key=_mkey):
            a, b = self.t.get(m, mpf(0)), o.t.get(m, mpf(0))
            if abs(a - b) > tol * scale:
                out.append('%s: found %s expected %s' % (mono_str(m), mpmath.nstr(a, 17), mpmath.nstr(b, 17)))
                if len(out) >= limit:
                    break
        return out

    # ---- substitution
    def subst(self, mapping):
        """mapping: atom -> Poly (only top-level atoms are replaced; function arguments are rebuilt)"""
        res = Poly()
        for m, c in self.t.items():
            term = Poly.const(c)
            for ai, p in m:
                a = _atom_by_id[ai]
                if a in mapping:
                    rep = mapping[a]
                elif a[0] == 'f' and atom_arg(a) is not None and (atom_arg(a).atoms() & set(mapping)):
                    rep = apply_func(a[1], atom_arg(a).subst(mapping))
                else:
                    rep = Poly.atom(a)
                term = term * (rep ** p)
            res = res + term
        return res

    def coeff_of(self, atom, power=1):
        """polynomial coefficient of atom^power (treating other atoms as parameters)"""
        res = {}
        atom = aid(atom)
        for m, c in self.t.items():
            d = dict(m)
            if d.get(atom, 0) == power:
                d.pop(atom, None)
                mm = tuple(sorted(d.items()))
                res[mm] = res.get(mm, mpf(0)) + c
        return Poly(res)

    def __repr__(self):
        return poly_str(self)


def _lift(x):
    if isinstance(x, Poly):
        return x
    if hasattr(x, 'cond'):
        return x  # a guarded value (interp.ITE): kept as it is; only comparisons understand it
    return Poly.const(x)


def atom_str(a):
    if a[0] == 'v':
        return a[1]
    arg = atom_arg(a)
    return '%s(%s)' % (a[1], poly_str(arg) if arg is not None else '?')


def mono_str(m):
    if not m:
        return '1'
    return '*'.join(atom_str(_atom_by_id[a]) + ('^%d' % p if p != 1 else '') for a, p in m)


def poly_str(p, maxterms=12):
    items = [(m, c) for m, c in p.t.items() if abs(c) > ZERO_EPS]
    if not items:
        return '0'
    items.sort(key=lambda x: _mkey(x[0]))
    parts = []
    for m, c in items[:maxterms]:
        cs = mpmath.nstr(c, 17)
        parts.append(cs if not m else '%s*%s' % (cs, mono_str(m)))
    if len(items) > maxterms:
        parts.append('... (%d terms)' % len(items))
    return ' + '.join(parts)


# ---- function application with normalisation -------------------------------------------------

def _sign_normalise(arg):
    """returns (sign, normalised arg) where normalised arg has positive leading coefficient"""
    arg = arg.clean()
    if not arg.t:
        return 1, arg
    lead = arg.leading_coeff()
    if lead < 0:
        return -1, -arg
    return 1, arg


def apply_func(fname, arg):
    """apply a libm-like function to a Poly; constants are folded, sin/cos/fabs use parity"""
    if arg.is_const():
        v = arg.const_value()
        f = {'sin': mpmath.sin, 'cos': mpmath.cos, 'sqrt': mpmath.sqrt, 'fabs': abs, 'abs': abs,
             'exp': mpmath.exp, 'log': mpmath.log, 'cbrt': mpmath.cbrt, 'inv': lambda x: 1 / x}.get(fname)
        if f is None:
            raise KeyError('no constant folding for ' + fname)
        r = f(v)
        if isinstance(r, mpmath.mpc):
            raise ValueError('complex result of %s(%s)' % (fname, v))
        return Poly.const(r)
    if fname == 'sin':
        s, a = _sign_normalise(arg)
        r = Poly.func('sin', a)
        return r if s > 0 else -r
    if fname == 'cos':
        _, a = _sign_normalise(arg)
        return Poly.func('cos', a)
    if fname in ('fabs', 'abs'):
        _, a = _sign_normalise(arg)
        return Poly.func('fabs', a)
    if fname == 'inv':
        return Poly.const(1).div(arg)
    return Poly.func(fname, arg)


def expand_multiple_angles(p, base_names):
    """rewrite sin(n*x), cos(n*x) (x in base_names, integer n) as polynomials in sin(x), cos(x)
    and reduce sin(x)^2 -> 1 - cos(x)^2.  Used for the plane-rotation kernels."""
    mapping = {}
    for a in p.atoms():
        if a[0] == 'f' and a[1] in ('sin', 'cos'):
            arg = atom_arg(a)
            if len(arg.t) == 1:
                (m, c), = arg.t.items()
                if len(m) == 1 and m[0][1] == 1 and _atom_by_id[m[0][0]][0] == 'v' and _atom_by_id[m[0][0]][1] in base_names:
                    n = int(mpmath.nint(c))
                    if abs(c - n) < mpf('1e-30') and n >= 2:
                        x = Poly.var(_atom_by_id[m[0][0]][1])
                        s, co = Poly.func('sin', x), Poly.func('cos', x)
                        # de Moivre: (co + i s)^n
                        re, im = Poly.const(1), Poly()
                        for _ in range(n):
                            re, im = re * co - im * s, re * s + im * co
                        mapping[a] = im if a[1] == 'sin' else re
    if mapping:
        p = p.subst(mapping)
    return reduce_sin2(p)


def reduce_sin2(p):
    """replace sin(x)^k (k>=2) using sin^2 = 1 - cos^2, for every sin atom"""
    changed = True
    while changed:
        changed = False
        res = Poly()
        for m, c in p.t.items():
            hit = None
            for ai, pw in m:
                a = _atom_by_id[ai]
                if a[0] == 'f' and a[1] == 'sin' and pw >= 2:
                    hit = (a, pw, ai)
                    break
            if hit is None:
                res = res + Poly({m: c})
                continue
            changed = True
            a, pw, ai = hit
            rest = tuple((b, q) for b, q in m if b != ai)
            cosatom = ('f', 'cos', a[2])
            if cosatom not in _atom_args:
                _atom_args[cosatom] = _atom_args[a]
            repl = (Poly.const(1) - Poly.atom(cosatom) ** 2) * (Poly.atom(a) ** (pw - 2))
            res = res + Poly({rest: c}) * repl
        p = res
    return p.clean()


class CPoly:
    """complex number with Poly real and imaginary parts"""
    __slots__ = ('re', 'im')

    def __init__(self, re=None, im=None):
        self.re = _lift(re if re is not None else 0)
        self.im = _lift(im if im is not None else 0)

    def __add__(self, o):
        return CPoly(self.re + o.re, self.im + o.im)

    def __sub__(self, o):
        return CPoly(self.re - o.re, self.im - o.im)

    def __neg__(self):
        return CPoly(-self.re, -self.im)

    def __mul__(self, o):
        if not isinstance(o, CPoly):
            o = CPoly(o, 0)
        return CPoly(self.re * o.re - self.im * o.im, self.re * o.im + self.im * o.re)

    def conj(self):
        return CPoly(self.re, -self.im)

    def is_zero(self):
        return self.re.is_zero() and self.im.is_zero()

    def equals(self, o, tol=TOL):
        if any(hasattr(x, 'cond') for x in (self.re, self.im, o.re, o.im)):
            import guarded
            if hasattr(o.re, 'cond') or hasattr(o.im, 'cond'):
                if hasattr(self.re, 'cond') or hasattr(self.im, 'cond'):
                    return repr(self) == repr(o)
                return o.equals(self, tol)
            return guarded.same(self.re, o.re) and guarded.same(self.im, o.im)
        return self.re.equals(o.re, tol) and self.im.equals(o.im, tol)

    def __repr__(self):
        return '(%s) + i(%s)' % (self.re, self.im)


def mat_mul(A, B):
    n = len(A)
    return [[_csum(A[i][k] * B[k][j] for k in range(n)) for j in range(n)] for i in range(n)]


def _csum(it):
    r = CPoly()
    for x in it:
        r = r + x
    return r


def mat_add(A, B):
    n = len(A)
    return [[A[i][j] + B[i][j] for j in range(n)] for i in range(n)]


def mat_sub(A, B):
    n = len(A)
    return [[A[i][j] - B[i][j] for j in range(n)] for i in range(n)]


def mat_dagger(A):
    n = len(A)
    return [[A[j][i].conj() for j in range(n)] for i in range(n)]


def mat_scale(A, z):
    n = len(A)
    return [[A[i][j] * z for j in range(n)] for i in range(n)]


def mat_trace(A):
    return _csum(A[i][i] for i in range(len(A)))


def mat_zero(n):
    return [[CPoly() for _ in range(n)] for _ in range(n)]


def mat_identity(n):
    return [[CPoly(1 if i == j else 0, 0) for j in range(n)] for i in range(n)]
