"""C10 — evolved state and clock depend only on total elapsed time, not on call history.
Engine D (structure of the solver's state handling; necessary conditions): Evolve advances the
clock by exactly dt on both branches (GSL target t+dt; t+=dt then PreDerive(t)); the no-numerics
branch touches neither the stored state nor the driver; after a numerical step the in-step views
are re-bound to the stored state with the layout of ini; every Evolve call builds a fresh driver
from the current fields; ini resets clock, views and buffer cache; every term-switch setter
recomputes the any-numerics flag as the OR of all five; move construction / move assignment
transfer every field of the class (enumerated from the record declaration, not from a frozen
list), re-point the GSL callback parameter to the new object and disable the source; after a
move the callback works on the new object's views."""
import itertools

from astdb import AnalysisBroken
from interp import Interp, Obj, Cell, Ptr, Region, Thrown, Unsupported, Opaque, NULL, UNDEF, FuncRef
from poly import Poly
import squidsmodel as sm
import c04

SWITCHES = c04.SWITCHES


def same_value(a, b):
    if isinstance(a, Poly) and isinstance(b, Poly):
        return a.equals(b)
    if isinstance(a, Poly) or isinstance(b, Poly):
        try:
            return (a if isinstance(a, Poly) else Poly.const(a)).equals(b if isinstance(b, Poly) else Poly.const(b))
        except Exception:
            return False
    if isinstance(a, Ptr) and isinstance(b, Ptr):
        return a == b
    return a is b or a == b


def field_snapshot(o):
    """field -> comparable payload (pointer inside unique_ptr/vector objects)"""
    out = {}
    for k, c in o.fields.items():
        v = c.value
        if isinstance(v, Obj) and 'p' in v.fields:
            out[k] = ('uptr', v.fields['p'].value)
        elif isinstance(v, Obj) and 'data' in v.fields:
            reg = v.fields['data'].value
            n = v.fields['n'].value
            out[k] = ('vec', n, [reg.cell(i).value for i in range(n)] if isinstance(n, int) else None)
        elif isinstance(v, Obj) and v.rec.startswith('(anonymous') or (isinstance(v, Obj) and 'function' in v.fields):
            out[k] = ('sys', {kk: cc.value for kk, cc in v.fields.items()})
        elif isinstance(v, Obj):
            out[k] = ('obj', v.rec)
        else:
            out[k] = ('val', v)
    return out


def check_clock(db, rep):
    unit = db.unit('SQuIDS')
    fE = db.one('SQuIDS', 'squids::SQuIDS::Evolve', 1)
    rep.fn(fE['name'])
    cfg = (2, 2, 2, 1)
    # numerics branch
    for adaptive in (1, 0):
        this, hooks, it = sm.new_solver(db, *cfg)
        it.call(db.one('SQuIDS', 'squids::SQuIDS::Set_OtherRhoTerms', 1), this, [1])
        it.call(db.one('SQuIDS', 'squids::SQuIDS::Set_AdaptiveStep', 1), this, [adaptive])
        t0 = sm.field(this, 't')
        dt = Poly.var('dt')
        it.call(fE, this, [dt])
        t1 = sm.field(this, 't')
        site = 'Evolve/numerics/adaptive=%d' % adaptive
        if isinstance(t1, Poly) and t1.equals(it.to_poly(t0) + dt):
            rep.ok('D.clock')
        else:
            rep.fail('D.clock', site, unit.loc(fE), 'clock advanced by exactly dt', 't: %s -> %s' % (t0, t1), fE['name'])
        # re-alias: in-step views coincide with the stored state
        lay_s = c04.layout_of(this, 'state', cfg[0], cfg[2], cfg[3])
        lay_e = c04.layout_of(this, 'estate', cfg[0], cfg[2], cfg[3])
        same = all(a[0] is b[0] and a[1] == b[1] for (ra, sa), (rb, sb) in zip(lay_s, lay_e) for a, b in zip(ra + [sa], rb + [sb]) if a is not None or b is not None)
        if same:
            rep.ok('D.realias')
        else:
            rep.fail('D.realias', site, unit.loc(fE), 'after Evolve the in-step view of the state coincides with the stored state', 'views differ', fE['name'])
        # second call builds a fresh driver and rebinds to its buffers
        hooks.driver = []
        it.call(fE, this, [Poly.var('dt2')])
        applied = [e for e in hooks.driver if e[0] in ('apply', 'apply_fixed_step')]
        t2 = sm.field(this, 't')
        # one integration per call (whether the driver is new or kept and re-armed is C04's concern: D.driver)
        if len(applied) == 1 and isinstance(t2, Poly) and t2.equals(it.to_poly(t0) + dt + Poly.var('dt2')):
            rep.ok('D.clock')
        else:
            rep.fail('D.clock', site + '/second', unit.loc(fE), 'one integration per call and t = t_ini + dt + dt2', 'integrations=%d t=%s' % (len(applied), t2), fE['name'])
        yt, dy = hooks.stage_buffers
        le = c04.layout_of(this, 'dstate', cfg[0], cfg[2], cfg[3])
        if all(r[0] is dy for row, sc in le for r in row):
            rep.ok('D.realias')
        else:
            rep.fail('D.realias', site + '/second/dstate', unit.loc(fE), 'derivative views bound to the buffers of the current driver', 'stale binding', fE['name'])
    # no-numerics branch
    for bits in ((0, 0, 0, 0, 0),):
        this, hooks, it = sm.new_solver(db, *cfg)
        hooks.hook_calls = []
        hooks.driver = []
        hooks.writes_system = 0
        t0 = sm.field(this, 't')
        dt = Poly.var('dt')
        it.call(fE, this, [dt])
        t1 = sm.field(this, 't')
        pd = [h for h in hooks.hook_calls if h[0] == 'PreDerive']
        bad = None
        if not (isinstance(t1, Poly) and t1.equals(it.to_poly(t0) + dt)):
            bad = 't: %s -> %s' % (t0, t1)
        elif hooks.driver:
            bad = 'GSL driver used although all numerical terms are disabled'
        elif hooks.writes_system:
            bad = 'stored state written (%d writes)' % hooks.writes_system
        elif len(pd) != 1 or not it.to_poly(pd[0][1][0]).equals(t1):
            bad = 'pre-derivative callback calls: %s' % (pd,)
        elif len(hooks.hook_calls) != 1:
            bad = 'other user terms evaluated: %s' % ([h[0] for h in hooks.hook_calls],)
        if bad:
            rep.fail('D.clock', 'Evolve/no-numerics', unit.loc(fE), 'clock advanced by dt, PreDerive(new t) once, state untouched', bad, fE['name'])
        else:
            rep.ok('D.clock')
            rep.sample('D.clock', 'no numerics: t -> t+dt, PreDerive(t+dt), 0 writes to the state array')
        # every call invokes the callback, also a zero-length one right after (the time it is given has been seen before)
        for label, step in (('a zero-length segment', Poly.const(0)), ('a further segment', Poly.var('dt2'))):
            hooks.hook_calls = []
            tb = sm.field(this, 't')
            it.call(fE, this, [step])
            ta = sm.field(this, 't')
            pd = [h for h in hooks.hook_calls if h[0] == 'PreDerive']
            if isinstance(ta, Poly) and ta.equals(it.to_poly(tb) + step) and len(pd) == 1 and it.to_poly(pd[0][1][0]).equals(ta):
                rep.ok('D.clock')
            else:
                rep.fail('D.clock', 'Evolve/no-numerics/then %s' % label, unit.loc(fE), 'clock advanced by the step and PreDerive(new t) invoked once, in every call',
                         't: %s -> %s, PreDerive calls: %s' % (tb, ta, [str(h[1][0]) for h in pd]), fE['name'])
    # Evolve consults AnyNumerics (the OR maintained by the setters), for every single switch
    for idx, name in enumerate(SWITCHES):
        this, hooks, it = sm.new_solver(db, *cfg)
        it.call(db.one('SQuIDS', 'squids::SQuIDS::Set_' + name, 1), this, [1])
        hooks.driver = []
        it.call(fE, this, [Poly.var('dt')])
        if any(e[0] in ('apply', 'apply_fixed_step') for e in hooks.driver):
            rep.ok('D.clock')
        else:
            rep.fail('D.clock', 'Evolve/only-%s' % name, unit.loc(fE), 'numerical evolution when %s is enabled' % name, 'no integration performed', fE['name'])


def check_setters(db, rep):
    unit = db.unit('SQuIDS')
    n = 0
    for idx, name in enumerate(SWITCHES):
        f = db.one('SQuIDS', 'squids::SQuIDS::Set_' + name, 1)
        rep.fn(f['name'])
        n += 1
        bad = None
        for bits in itertools.product((0, 1), repeat=5):
            # the derived flag on entry: consistent with the switches, or overridden by the user (Set_AnyNumerics) either way
            for opt, flag in [(o, fl) for o in (0, 1) for fl in (1 if any(bits) else 0, 0, 1)]:
                this = Cell(Obj(sm.SQ, None, 's'), None, 0, 's')
                for nm, b in zip(SWITCHES, bits):
                    this.value.field(nm).value = b
                this.value.field('AnyNumerics').value = flag
                it = Interp(unit, sm.SquidsHooks(2))
                it.call(f, this, [opt])
                now = [this.value.fields[nm].value for nm in SWITCHES]
                want = list(bits)
                want[idx] = opt
                if [int(bool(x)) for x in now] != want:
                    bad = 'switch vector %s -> %s (expected %s)' % (bits, now, want)
                    break
                any_ = this.value.fields['AnyNumerics'].value
                if int(bool(any_)) != int(any(want)):
                    bad = 'from %s with AnyNumerics=%d setting %s=%d gives AnyNumerics=%r' % (bits, flag, name, opt, any_)
                    break
            if bad:
                break
        if bad:
            rep.fail('D.setters', 'Set_' + name, unit.loc(f), 'sets its own switch and AnyNumerics = OR of all five', bad, f['name'])
        else:
            rep.ok('D.setters')
    rep.floor('D.setters', n, 5)


def check_ini(db, rep):
    unit = db.unit('SQuIDS')
    fI = db.one('SQuIDS', 'squids::SQuIDS::ini', 5)
    fE = db.one('SQuIDS', 'squids::SQuIDS::Evolve', 1)
    this, hooks, it = sm.new_solver(db, 2, 2, 1, 1)
    it.call(db.one('SQuIDS', 'squids::SQuIDS::Set_OtherRhoTerms', 1), this, [1])
    it.call(fE, this, [Poly.var('dt')])
    # re-initialise with another shape
    it.call(fI, this, [3, 3, 2, 0, Poly.var('tj')])
    bad = None
    if not (sm.field(this, 't').equals(Poly.var('tj')) and sm.field(this, 't_ini').equals(Poly.var('tj'))):
        bad = 'clock not reset: t=%s t_ini=%s' % (sm.field(this, 't'), sm.field(this, 't_ini'))
    elif not (sm.field(this, 'last_estate_ptr') == NULL and sm.field(this, 'last_dstate_ptr') == NULL):
        bad = 'buffer cache keys not reset'
    else:
        sysreg = sm.field(this, 'system').fields['p'].value.region
        lay = c04.layout_of(this, 'estate', 3, 2, 0)
        if sysreg.size != 3 * (2 * 9) or not all(r[0] is sysreg for row, sc in lay for r in row):
            bad = 'arrays not rebuilt for the new shape'
    if bad:
        rep.fail('D.ini', 'ini/re-initialise', unit.loc(fI), 'fresh clock, state arrays and buffer cache', bad, fI['name'])
    else:
        rep.ok('D.ini')
    check_sized_ctor(db, rep)


def check_sized_ctor(db, rep):
    """the constructor taking the problem shape and the initial time starts the clock at that time (it is the other
    way, besides ini, to start a fresh clock)"""
    unit = db.unit('SQuIDS')
    fs = [f for f in db.find('SQuIDS', 'squids::SQuIDS::SQuIDS', 5) if f.get('ctor')]
    if len(fs) != 1:
        raise AnalysisBroken('sized constructor SQuIDS(nx,dim,nrho,nscalar,ti): expected one definition, found %d' % len(fs))
    fC = fs[0]
    hooks = sm.SquidsHooks(3)
    it = Interp(unit, hooks)
    this = Cell(Obj(sm.SQ, None, 'solver'), None, 0, 'solver')
    try:
        it.call(fC, this, [2, 3, 2, 1, Poly.var('t0')])
    except Thrown as t:
        rep.fail('D.ini', 'SQuIDS(nx,dim,nrho,nscalar,ti)', unit.loc(t.node), 'a solver of the given shape', 'throw: %s' % t.what, fC['name'])
        return
    t, ti = sm.field(this, 't'), sm.field(this, 't_ini')
    shape = tuple(sm.field(this, k) for k in ('nx', 'nsun', 'nrhos', 'nscalars'))
    if not (isinstance(t, Poly) and t.equals(Poly.var('t0')) and isinstance(ti, Poly) and ti.equals(Poly.var('t0'))):
        rep.fail('D.ini', 'SQuIDS(nx,dim,nrho,nscalar,ti)/clock', unit.loc(fC), 'clock and initial time start at the given ti', 't=%s t_ini=%s' % (t, ti), fC['name'])
    elif shape != (2, 3, 2, 1):
        rep.fail('D.ini', 'SQuIDS(nx,dim,nrho,nscalar,ti)/shape', unit.loc(fC), 'shape (nx,nsun,nrhos,nscalars) = (2,3,2,1)', str(shape), fC['name'])
    else:
        rep.ok('D.ini')


MOVE_FIELDS = ('CoherentRhoTerms', 'NonCoherentRhoTerms', 'OtherRhoTerms', 'GammaScalarTerms', 'OtherScalarTerms', 'AnyNumerics', 'is_init',
               'adaptive_step', 'x', 't', 't_ini', 'nsteps', 'size_rho', 'size_state', 'system', 'step', 'sys', 'h', 'h_min', 'h_max', 'abs_error',
               'rel_error', 'dstate', 'last_dstate_ptr', 'last_estate_ptr', 'nx', 'nsun', 'nrhos', 'nscalars', 'params', 'state', 'estate')


def check_moves(db, rep):
    unit = db.unit('SQuIDS')
    rec = [r for r in unit.records if r['name'] == sm.SQ]
    if not rec:
        raise AnalysisBroken('record squids::SQuIDS not found')
    declared = [f['name'] for f in rec[0]['fields']]
    # the members that make up the solver's state, as confirmed on the tree this rule was armed on (one line of reason:
    # each is read by Evolve, the RHS callback, a query or a getter).  A member that is not in this table - bookkeeping a
    # later change introduced - cannot be judged here and is only noted; a table entry that has vanished is an anchor lost.
    missing_anchor = [k for k in MOVE_FIELDS if k not in declared]
    if missing_anchor:
        raise AnalysisBroken('members of squids::SQuIDS the move rule was armed on are gone: %s' % missing_anchor)
    extra = [k for k in declared if k not in MOVE_FIELDS]
    if extra:
        rep.notes.append('D.move: members not in the confirmed table, not judged: %s' % ', '.join(extra))
    fields = [k for k in declared if k in MOVE_FIELDS]
    fR = db.one('SQuIDS', 'squids::RHS', 4)
    movers = [('move constructor', db.one('SQuIDS', 'squids::SQuIDS::SQuIDS', 1, lambda f: f.get('moveCtor'))),
              ('move assignment', db.one('SQuIDS', 'squids::SQuIDS::operator=', 1, lambda f: f.get('moveAssign')))]
    cfg = (2, 2, 2, 1)
    suspend = db.find('SQuIDS', 'squids::SQuIDS::Set_AnyNumerics', 1)
    variants = [(label, f, False) for label, f in movers]
    if suspend:
        # numerics suspended by the user while term switches are on: a derived flag must be carried over, not recomputed
        variants += [(label + ' (numerics suspended)', f, True) for label, f in movers]
    for label, f, suspended in variants:
        rep.fn(f['name'])
        old, hooks, it = sm.new_solver(db, *cfg)
        # give every scalar field a distinguishable value
        for nm, val in (('Set_CoherentRhoTerms', 1), ('Set_OtherScalarTerms', 1), ('Set_AdaptiveStep', 0), ('Set_NumSteps', 77)):
            it.call(db.one('SQuIDS', 'squids::SQuIDS::' + nm, 1), old, [val])
        if suspended:
            it.call(suspend[0], old, [0])
        for nm in ('h', 'h_min', 'h_max', 'abs_error', 'rel_error'):
            old.value.fields[nm].value = Poly.var('V_' + nm)
        old.value.fields['t'].value = Poly.var('T_now')
        old.value.fields['t_ini'].value = Poly.var('T_ini')
        old.value.fields['step'].value = Opaque('stepper', 'custom')
        old.value.fields['last_estate_ptr'].value = Ptr(Region('oldbuf', 4), 0)
        old.value.fields['last_dstate_ptr'].value = Ptr(Region('oldbuf2', 4), 0)
        xv = old.value.fields['x'].value
        for k in range(xv.fields['n'].value):
            xv.fields['data'].value.cell(k).value = Poly.var('X%d' % k)
        pre = field_snapshot(old.value)
        if label.startswith('move constructor'):
            new = Cell(Obj(sm.SQ, None, 'moved'), None, 0, 'moved')
            it.call(f, new, [old])
        else:
            new, h2, it2 = sm.new_solver(db, 1, 3, 1, 0, hooks=hooks)
            new.name = 'moved'
            it.call(f, new, [old])
        post = field_snapshot(new.value)
        bad = None
        missing = [k for k in fields if k not in post]
        if missing:
            bad = 'fields never written by the %s: %s' % (label, missing)
        else:
            for k in fields:
                a, b = pre[k], post[k]
                if k == 'sys':
                    for kk in ('function', 'jacobian', 'dimension'):
                        if not same_value(a[1][kk], b[1][kk]):
                            bad = 'sys.%s not transferred' % kk
                    par = b[1]['params']
                    if not (isinstance(par, Ptr) and par.region is not None and par.region.cell(par.off) is new):
                        bad = 'sys.params does not point to the new object (the GSL callback would act on the moved-from one)'
                elif a[0] == 'uptr':
                    if not same_value(a[1], b[1]):
                        bad = 'owning pointer %s not transferred' % k
                elif a[0] == 'vec':
                    if a[1] != b[1] or not all(same_value(x, y) for x, y in zip(a[2], b[2])):
                        bad = 'node positions x not transferred'
                elif a[0] == 'val':
                    if not same_value(a[1], b[1]):
                        bad = 'field %s: %r instead of %r' % (k, b[1], a[1])
                if bad:
                    break
        if not bad and old.value.fields['is_init'].value:
            bad = 'the moved-from object is still marked initialised'
        if not bad:
            # the moved-from object may be re-initialised and used again: its GSL back-pointer must not designate the new one
            osys = old.value.fields['sys'].value if 'sys' in old.value.fields else None
            opar = osys.fields['params'].value if isinstance(osys, Obj) and 'params' in osys.fields else None
            if isinstance(opar, Ptr) and opar.region is not None and not opar.is_null() and opar.region.cell(opar.off) is new:
                bad = 'sys.params of the moved-from object points to the new object: once re-initialised, its integration would drive the other solver'
        if not bad:
            # the callback now drives the new object's views
            numeqn = sm.field(new, 'sys').fields['dimension'].value
            yin = Region('yin', numeqn, lambda k: Poly.var('Y%d' % k), 'heap')
            yout = Region('yout', numeqn, lambda k: Poly.var('STALE%d' % k), 'heap')
            it.call(fR, None, [Poly.var('tau'), Ptr(yin, 0), Ptr(yout, 0), sm.field(new, 'sys').fields['params'].value])
            if not new.value.fields['t'].value.equals(Poly.var('tau')):
                bad = 'callback after the move does not act on the new object'
        if bad:
            rep.fail('D.move', label, unit.loc(f), 'every field transferred, GSL back-pointer re-bound, source disabled', bad, f['name'])
        else:
            rep.ok('D.move')
            rep.sample('D.move', '%s: %d fields compared (from the record declaration), sys.params -> new object' % (label, len(fields)))


def run(db, rep, tier):
    rep.trusted += ['clang 14 AST of /repo sources', 'sqdump extractor + abstract interpreter', 'GSL ODE driver summarised (advances *t to the requested end, evaluates the system function on its own buffers)',
                    'user terms uninterpreted']
    rep.declined += ['equality of the state after split vs single evolution within the integration tolerance (numerical)']
    check_clock(db, rep)
    check_setters(db, rep)
    check_ini(db, rep)
    check_moves(db, rep)
    # switching numerical terms on and off between segments: a segment integrates exactly the terms enabled for it,
    # whatever the stepper's buffers hold from the segment before (C04's rule D.rhs, repeated on one configuration)
    import c04
    c04.check_config(db, rep, (2, 2, 2, 2), tier)
