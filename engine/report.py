"""Result collection shared by all checks: obligations, violations, known findings, evidence."""
import json
import os
import re
import time

VERIF = os.path.dirname(os.path.dirname(os.path.abspath(__file__)))
EVIDENCE = os.environ.get('SQV_EVIDENCE_DIR') or os.path.join(VERIF, 'evidence')  # mutant runs (tools/) redirect their evidence
REPLAY = os.path.join(EVIDENCE, 'replay')
KNOWN = os.path.join(VERIF, 'known_findings.txt')


def load_known():
    """lines:  finding: property=<ID> rule=<rule> site=<site> <text>    |    fixed: property=<ID> <commit> <text>"""
    out = []
    if not os.path.exists(KNOWN):
        return out
    with open(KNOWN) as fh:
        for line in fh:
            line = line.strip()
            if not line or line.startswith('#'):
                continue
            m = re.match(r'finding:\s+property=(\S+)\s+rule=(\S+)\s+site=(\S+)\s*(.*)$', line)
            if m:
                out.append({'property': m.group(1), 'rule': m.group(2), 'site': m.group(3), 'text': m.group(4)})
    return out


class Report:
    def __init__(self, pid, tier, level):
        self.pid = pid
        self.tier = tier
        self.level = level
        self.t0 = time.time()
        self.obligations = 0
        self.discharged = 0
        self.violations = []  # dicts
        self.known_hits = []
        self.samples = []
        self.rules = {}  # rule -> [obligations, discharged]
        self.analysed = {'units': set(), 'functions': set(), 'kernels': set()}
        self.notes = []
        self.floors = {}
        self.fixtures = {}
        self.declined = []
        self.trusted = []
        self.known = [k for k in load_known() if k['property'] == pid]
        self.broken = []
        self.known_rules = {}

    # -- bookkeeping
    def fn(self, name):
        self.analysed['functions'].add(name)

    def ok(self, rule, n=1):
        self.obligations += n
        self.discharged += n
        r = self.rules.setdefault(rule, [0, 0])
        r[0] += n
        r[1] += n

    def sample(self, rule, text, limit=3):
        if sum(1 for s in self.samples if s.get('rule') == rule) < limit:
            self.samples.append({'rule': rule, 'instance': text})

    def fail(self, rule, site, where, expected, found, function=None):
        """site: stable identifier of the rule instance (function / kernel family / dim / slot); where: file:line"""
        v = {'property': self.pid, 'rule': rule, 'site': site, 'where': where, 'function': function,
             'expected': expected, 'found': found}
        for k in self.known:
            if k['rule'] == rule and k['site'] == site:
                # a listed known finding: reported, not claimed as an obligation of this run
                self.known_hits.append((k, v))
                self.known_rules[rule] = self.known_rules.get(rule, 0) + 1
                return
        self.obligations += 1
        r = self.rules.setdefault(rule, [0, 0])
        r[0] += 1
        self.violations.append(v)

    def floor(self, rule, count, minimum):
        self.floors[rule] = {'count': count, 'floor': minimum}
        if count < minimum:
            self.broken.append('rule %s matched %d instances, fewer than the confirmed floor %d' % (rule, count, minimum))

    def fixture(self, name, fired):
        self.fixtures[name] = bool(fired)
        if not fired:
            self.broken.append('positive control %s was not flagged' % name)

    def break_(self, msg):
        self.broken.append(msg)

    # -- finish
    def finish(self, explanation, checker_cmd, extra=None):
        wall = time.time() - self.t0
        os.makedirs(EVIDENCE, exist_ok=True)
        cov = {
            'obligations': self.obligations,
            'discharged': self.discharged,
            'checker_cmd': checker_cmd,
            'trusted_base': self.trusted,
            'explanation': explanation,
            'samples': self.samples or [{'rule': '-', 'instance': 'none'}],
            'exhaustive': True,
            'rules': {k: {'obligations': v[0], 'discharged': v[1]} for k, v in sorted(self.rules.items())},
            'floors': self.floors,
            'fixtures': self.fixtures,
            'functions_analysed': sorted(self.analysed['functions'])[:400],
            'n_functions_analysed': len(self.analysed['functions']),
            'declined_clauses': self.declined,
            'known_findings_hit': [{'rule': k['rule'], 'site': k['site']} for k, _ in self.known_hits],
            'known_finding_instances_not_claimed': self.known_rules,
            'notes': self.notes,
        }
        if extra:
            cov.update(extra)
        ev = {
            'property_id': self.pid,
            'tier': self.tier,
            'seed': int(os.environ.get('VERIF_SEED', '0') or 0),
            'level': self.level,
            'coverage': cov,
            'assumptions': self.trusted,
            'wall_s': round(wall, 3),
            'violations': len(self.violations),
        }
        if self.broken:
            ev['coverage']['analysis_broken'] = self.broken
        with open(os.path.join(EVIDENCE, self.pid + '.json'), 'w') as fh:
            json.dump(ev, fh, indent=1, default=str)
        # output
        print('%s tier=%s obligations=%d discharged=%d violations=%d known=%d wall=%.1fs'
              % (self.pid, self.tier, self.obligations, self.discharged, len(self.violations), len(self.known_hits), wall))
        for rname, v in sorted(self.rules.items()):
            print('  rule %-18s %d/%d' % (rname, v[1], v[0]))
        seen = set()
        for k, v in self.known_hits:
            key = (k['rule'], k['site'])
            if key in seen:
                continue
            seen.add(key)
            print('KNOWN-FINDING: property=%s rule=%s site=%s %s' % (self.pid, k['rule'], k['site'], k['text']))
        if self.broken:
            for b in self.broken:
                print('ANALYSIS-BROKEN: %s' % b)
        if self.violations:
            os.makedirs(REPLAY, exist_ok=True)
            for i, v in enumerate(self.violations):
                path = os.path.join(REPLAY, '%s-%d.json' % (self.pid, i))
                with open(path, 'w') as fh:
                    json.dump(v, fh, indent=1, default=str)
                print('  %s: rule %s instance %s in %s: expected %s; found %s'
                      % (v['where'], v['rule'], v['site'], v.get('function') or '-', v['expected'], v['found']))
                print('VIOLATION property=%s replay=%s' % (self.pid, path))
            return 1
        if self.broken:
            return 2
        return 0
