"""Engine A support: abstract SU_vector objects with symbolic components, hooks that model the few
external calls that occur in the algebra kernels, and extraction of the basis tables."""
import re
from interp import (ArrayView, AssertionAbort, Interp, Hooks, Obj, Region, Ptr, Cell, Opaque, Unsupported, Thrown, NULL, UNDEF, ITE, Cond, OutOfBounds,
                    wrap_int)
from poly import Poly, CPoly, mat_zero
from astdb import AnalysisBroken

SUV = 'squids::SU_vector'


def make_suv(name, d, prefix=None, content=None, flags=(True, False)):
    """abstract SU_vector of dimension d whose component k is the symbol <prefix>k (or content(k))"""
    prefix = prefix or name
    mk = content if content is not None else (lambda k, p=prefix: Poly.var('%s%d' % (p, k)))
    reg = Region(name + '.components', d * d, mk, 'heap', {'owner': name})
    o = Obj(SUV, None, name)
    o.field('dim').value = d
    o.field('size').value = d * d
    o.field('components').value = Ptr(reg, 0)
    o.field('ptr_offset').value = 0
    o.field('isinit').value = 1 if flags[0] else 0
    o.field('isinit_d').value = 1 if flags[1] else 0
    c = Cell(o, None, 0, name)
    return c, reg


def gsl_complex(re, im):
    o = Obj('gsl_complex')
    r = Region('dat', 2, None, 'stack')
    r.cell(0).value = re
    r.cell(1).value = im
    o.field('dat').value = r
    return o


def complex_parts(v):
    if isinstance(v, Obj) and 'dat' in v.fields:
        r = v.fields['dat'].value
        return r.cell(0).value, r.cell(1).value
    raise Unsupported('not a gsl_complex: %r' % (v,))


class LiveCell(Cell):
    """a double inside the raw storage of an abstract matrix: reads and writes go to the matrix entries"""
    __slots__ = ('m', 'k')

    def __init__(self, m, region, k):
        self.m = m
        self.k = k
        self.region = region
        self.idx = k
        self.name = None

    def _pos(self):
        e = self.k // 2
        return e // self.m.tda, e % self.m.tda

    @property
    def value(self):
        r, c = self._pos()
        if c >= self.m.n2:
            return Poly.var('PAD_%s_%d_%d' % (self.m.name, r, c))  # storage between the rows of a view: not part of the matrix
        z = self.m.get(r, c)
        return z.re if self.k % 2 == 0 else z.im

    @value.setter
    def value(self, v):
        r, c = self._pos()
        if c >= self.m.n2:
            raise Unsupported('write into the row padding of matrix %s' % self.m.name)
        old = self.m.entries.get((r, c)) or CPoly(Poly(), Poly())
        p = v if isinstance(v, (Poly, ITE)) else Poly.const(v)
        self.m.entries[(r, c)] = CPoly(p, old.im) if self.k % 2 == 0 else CPoly(old.re, p)


class RawMatrixData(Region):
    def __init__(self, m):
        Region.__init__(self, m.name + '.data', 2 * (m.n2 + 1) * m.n1, None, 'heap')
        self.m = m

    def cell(self, i):
        if isinstance(i, int) and not (0 <= i < self.size):
            raise OutOfBounds(self, i)
        if not isinstance(i, int):
            raise Unsupported('symbolic index into raw matrix storage')
        return LiveCell(self.m, self, i)


class GslMatrix:
    """abstract gsl_matrix_complex: entries are CPoly (or None = never set)"""

    def __init__(self, n1, n2, entry=None, name='matrix'):
        self.n1, self.n2 = n1, n2
        self.name = name
        self.entries = {}
        self.sets = {}  # (r,c) -> number of set calls
        self.entry = entry
        o = Obj('gsl_matrix_complex', None, name)
        o.field('size1').value = n1
        o.field('size2').value = n2
        # raw storage as GSL exposes it: row-major, re/im interleaved, with a row stride that may exceed size2
        # (a matrix can be a view into a wider one).  The abstract matrix uses the general case tda = size2+1, so
        # code that walks `data` assuming contiguous rows reads the padding instead of the next row.
        self.tda = n2 + 1
        o.field('tda').value = self.tda
        self.raw = RawMatrixData(self)
        o.field('data').value = Ptr(self.raw, 0)
        self.obj = o
        self.region = Region(name, 1, None, 'heap', {'gsl': self})
        self.region.cell(0).value = o
        self.ptr = Ptr(self.region, 0)

    def get(self, r, c):
        if (r, c) in self.entries:
            return self.entries[(r, c)]
        if self.entry is not None:
            return self.entry(r, c)
        raise Unsupported('read of unset matrix entry %s(%d,%d)' % (self.name, r, c))


def matrix_of(ptr):
    if isinstance(ptr, Ptr) and ptr.region is not None and 'gsl' in ptr.region.meta:
        return ptr.region.meta['gsl']
    raise Unsupported('not an abstract gsl matrix: %r' % (ptr,))


class KernelHooks(Hooks):
    """hooks for straight-line algebra kernels"""

    def __init__(self):
        self.heap = []
        self.wrapper_calls = []  # (region, idx, kind) of Wrapper::operator+= applications
        self.reads = []
        self.track_reads_of = None
        self.divisions = []  # (node, num, den, assumptions)
        self.symloops = 0

    def external_call(self, it, name, node, args, this_cell):
        if '_Bit_iterator' in name or (args and '_Bit_iterator' in (args[0].get('t') or '') and name.split('<')[0] in ('std::operator+', 'std::operator-', 'std::operator==', 'std::operator!=')):
            # std::vector<bool> iterators are modelled as plain pointers into the abstract element array
            def val(a):
                v = it.lval(a).value if (a.get('lv') or a.get('xv')) else it.eval(a)
                return v.value if isinstance(v, Cell) else v
            meth = name.split('::')[-1]
            if name.split('<')[0] == 'std::operator+':
                return it.ptr_add(val(args[0]), val(args[1]))
            if name.split('<')[0] == 'std::operator-':
                a, b = val(args[0]), val(args[1])
                if isinstance(b, Ptr):
                    return a.off - b.off
                return it.ptr_add(a, -b if isinstance(b, int) else it.to_poly(b).scale(-1))
            if meth in ('operator==', 'operator!='):
                a = this_cell.value if this_cell is not None else val(args[0])
                b = val(args[-1])
                eq = (a == b)
                return (1 if eq else 0) if meth == 'operator==' else (0 if eq else 1)
            if meth in ('operator++', 'operator--') and this_cell is not None:
                d = -1 if meth == 'operator--' else 1
                oldv = this_cell.value
                it.write(this_cell, it.ptr_add(oldv, d), node)
                return oldv if args else this_cell
            if meth == 'operator*' and this_cell is not None:
                return it.deref(this_cell.value, node)
            if meth == 'operator[]' and this_cell is not None:
                return it.deref(it.ptr_add(this_cell.value, val(args[0])), node)
            if meth in ('operator+=', 'operator-=') and this_cell is not None:
                k = val(args[0])
                it.write(this_cell, it.ptr_add(this_cell.value, k if meth == 'operator+=' else -k), node)
                return this_cell
            if meth in ('_Bit_iterator', '_Bit_const_iterator') and this_cell is not None:
                if args:
                    this_cell.value = val(args[0])
                return None
        if name in ('std::runtime_error::runtime_error', 'std::basic_string<char>::basic_string', 'std::to_string',
                    'std::operator+'):
            return Opaque(name)
        if name.startswith(('std::lock_guard<', 'std::unique_lock<', 'std::scoped_lock<', 'std::mutex::', 'std::recursive_mutex::')):
            return None  # sequential interpretation: taking and releasing a lock has no effect on values
        if name in ('gsl_matrix_complex_ptr', 'gsl_matrix_complex_const_ptr'):
            # pointer to the (re,im) pair of one entry inside the matrix storage: reads and writes through it reach the matrix
            m = matrix_of(it.eval(args[0]))
            r, c = it.eval(args[1]), it.eval(args[2])
            if not (isinstance(r, int) and isinstance(c, int)):
                raise Unsupported('symbolic matrix index at %s' % it.loc(node))
            if not (0 <= r < m.n1 and 0 <= c < m.n2):
                raise AnalysisBroken('matrix index (%d,%d) out of range at %s' % (r, c, it.loc(node)))
            o = Obj('gsl_complex')
            o.field('dat').value = ArrayView(m.raw, 2 * (r * m.tda + c), [2])
            reg = Region('%s(%d,%d)' % (m.name, r, c), 1, None, 'heap')
            reg.cell(0).value = o
            return Ptr(reg, 0)
        if name == 'gsl_matrix_complex_set':
            m = matrix_of(it.eval(args[0]))
            r, c = it.eval(args[1]), it.eval(args[2])
            z = it.eval(args[3])
            re, im = complex_parts(z)
            if not (isinstance(r, int) and isinstance(c, int)):
                raise Unsupported('symbolic matrix index at %s' % it.loc(node))
            if not (0 <= r < m.n1 and 0 <= c < m.n2):
                raise AnalysisBroken('matrix index (%d,%d) out of range at %s' % (r, c, it.loc(node)))
            m.entries[(r, c)] = CPoly(it.to_poly(re), it.to_poly(im))
            m.sets[(r, c)] = m.sets.get((r, c), 0) + 1
            return None
        if name == 'gsl_matrix_complex_get':
            m = matrix_of(it.eval(args[0]))
            r, c = it.eval(args[1]), it.eval(args[2])
            z = m.get(r, c)
            return gsl_complex(z.re, z.im)
        if name.split('<')[0] == 'std::fill':
            a, b, v = it.eval(args[0]), it.eval(args[1]), it.eval(args[2])
            if isinstance(v, Cell):
                v = v.value
            self._range_write(it, a, b, lambda k: v if isinstance(v, int) and not isinstance(v, bool) and 'bool' in (args[2].get('t') or '') else it.to_poly(v), node)
            return None
        base = name.split('<')[0]
        if base in ('std::max', 'std::min') and len(args) == 2:
            a, b = it.eval(args[0]), it.eval(args[1])
            a = a.value if isinstance(a, Cell) else a
            b = b.value if isinstance(b, Cell) else b
            if isinstance(a, Poly) and a.is_const():
                a = float(a.const_value())
            if isinstance(b, Poly) and b.is_const():
                b = float(b.const_value())
            if isinstance(a, (int, float)) and isinstance(b, (int, float)):
                r = max(a, b) if base == 'std::max' else min(a, b)
                return r if isinstance(r, int) else Poly.const(r)
        if base in ('memcpy', 'std::memcpy', 'memmove', 'std::memmove', '__builtin_memcpy', '__builtin_memmove') and len(args) == 3:
            # copying doubles as bytes: an exact copy of each element (the byte count must be a whole number of doubles)
            dst, src, nbytes = it.eval(args[0]), it.eval(args[1]), it.eval(args[2])
            if isinstance(nbytes, Poly) and nbytes.is_const():
                nbytes = int(nbytes.const_value())
            if not isinstance(nbytes, int) or not isinstance(dst, Ptr) or not isinstance(src, Ptr):
                raise Unsupported('memcpy with symbolic size or untracked pointers at %s' % it.loc(node))
            if nbytes % 8:
                raise Unsupported('memcpy of %d bytes (not a whole number of doubles) at %s' % (nbytes, it.loc(node)))
            vals = [it.read(it.deref(it.ptr_add(src, k), node), node) for k in range(nbytes // 8)]
            for k, v in enumerate(vals):
                it.write(it.deref(it.ptr_add(dst, k), node), v, node)
            return dst
        if base in ('std::sort', 'std::stable_sort') and len(args) in (2, 3):
            # comparison sort over an array whose order relation the engine can decide (concretely, or through its
            # decide_cmp hook): a stable insertion sort driven by the program's own comparator
            a, b = it.eval(args[0]), it.eval(args[1])
            n = self._count(it, a, b, node)
            cmpf = it.eval(args[2]) if len(args) == 3 else None
            cmpf = cmpf.value if isinstance(cmpf, Cell) else cmpf
            vals = [it.read(it.deref(it.ptr_add(a, k), node), node) for k in range(n)]

            def less(x, y):
                if cmpf is None:
                    xv = float(x.const_value()) if isinstance(x, Poly) and x.is_const() else x
                    yv = float(y.const_value()) if isinstance(y, Poly) and y.is_const() else y
                    if not (isinstance(xv, (int, float)) and isinstance(yv, (int, float))):
                        raise Unsupported('sort over symbolic values without a comparator at %s' % it.loc(node))
                    return xv < yv
                elif getattr(cmpf, 'lam', None) is not None:
                    r = it.call_lambda_values(cmpf, [x, y])
                else:
                    raise Unsupported('sort with a comparator that is not a closure at %s' % it.loc(node))
                t = it.truth(r.value if isinstance(r, Cell) else r, node)
                if isinstance(t, Cond):
                    raise Unsupported('sort over values whose order is not decidable at %s' % it.loc(node))
                return bool(t)
            out = []
            for v in vals:
                pos = len(out)
                while pos > 0 and less(v, out[pos - 1]):
                    pos -= 1
                out.insert(pos, v)
            for k, v in enumerate(out):
                it.write(it.deref(it.ptr_add(a, k), node), v, node)
            return None
        if base in ('std::begin', 'std::end', 'std::cbegin', 'std::cend') and len(args) == 1:
            c = it.lval(args[0]) if (args[0].get('lv') or args[0].get('xv')) else it.eval(args[0])
            v = c.value if isinstance(c, Cell) else c
            if isinstance(v, Obj) and 'data' in v.fields and 'n' in v.fields:  # abstract std::vector
                reg, cnt = v.fields['data'].value, v.fields['n'].value
                return Ptr(reg, 0 if base.endswith('begin') else cnt)
            if isinstance(v, Region):
                return Ptr(v, 0 if base.endswith('begin') else v.size)
            if isinstance(v, ArrayView):
                inner = v.dims[1:] if len(v.dims) > 1 else None
                w = 1
                for x in (inner or []):
                    w *= x
                return Ptr(v.region, v.off + (0 if base.endswith('begin') else v.dims[0] * w), inner)
            raise Unsupported('%s of %r at %s' % (base, v, it.loc(node)))
        if base in ('memset', 'std::memset', '__builtin_memset') and len(args) == 3:
            # the count is in BYTES: whole doubles inside it are set (to 0.0 for a zero byte pattern); a trailing part of
            # a double is only partly overwritten, so that element keeps an indeterminate mixture -> left as it was
            dst, byte, nbytes = it.eval(args[0]), it.eval(args[1]), it.eval(args[2])
            if isinstance(nbytes, Poly) and nbytes.is_const():
                nbytes = int(nbytes.const_value())
            if not isinstance(nbytes, int) or not isinstance(dst, Ptr) or not isinstance(byte, int):
                raise Unsupported('memset with symbolic arguments at %s' % it.loc(node))
            if byte != 0:
                raise Unsupported('memset with a non-zero byte over doubles at %s' % it.loc(node))
            for k in range(nbytes // 8):
                it.write(it.deref(it.ptr_add(dst, k), node), Poly.const(0), node)
            return dst
        m_ = _rx.match(r'^std::(plus|minus|multiplies|divides|negate)<(?:double|void)?>::operator\(\)$', name)
        if m_:
            vals = []
            for a in args:
                v = it.eval(a)
                vals.append(it.to_poly(v.value if isinstance(v, Cell) else v))
            op = m_.group(1)
            if op == 'negate':
                return -vals[0]
            if op == 'divides':
                return it.divide(vals[0], vals[1], node) if hasattr(it, 'divide') else vals[0].div(vals[1])
            return {'plus': vals[0] + vals[1], 'minus': vals[0] - vals[1], 'multiplies': vals[0] * vals[1]}[op]
        if _rx.match(r'^std::(plus|minus|multiplies|divides|negate|less|greater|less_equal|greater_equal|equal_to)<[^>]*>::\1$', name):
            return Obj(name.split('::')[1] if False else 'std::functor')
        if base in ('std::min_element', 'std::max_element') and len(args) in (2, 3):
            a, e = it.eval(args[0]), it.eval(args[1])
            n = self._count(it, a, e, node)
            comp = it.eval(args[2]) if len(args) == 3 else None

            def less(x, y):
                if comp is not None:
                    if not (hasattr(comp, 'lam') and comp.lam is not None):
                        raise Unsupported('%s with a comparison object that is not a lambda at %s' % (base, it.loc(node)))
                    r = it.call_lambda_values(comp, [x, y])
                else:
                    r = it.compare('<', x, y, node)
                if isinstance(r, Cond):
                    raise Unsupported('%s over values whose order is not decidable at %s' % (base, it.loc(node)))
                return bool(r)
            if n == 0:
                return e
            best = 0
            vals = [it.read(it.deref(it.ptr_add(a, k), node), node) for k in range(n)]
            for k in range(1, n):
                if (less(vals[k], vals[best]) if base.endswith('min_element') else less(vals[best], vals[k])):
                    best = k
            return it.ptr_add(a, best)
        if base == 'std::iter_swap' and len(args) == 2:
            a, b = it.eval(args[0]), it.eval(args[1])
            ca, cb = it.deref(a, node), it.deref(b, node)
            va, vb = it.read(ca, node), it.read(cb, node)
            it.write(ca, vb, node)
            it.write(cb, va, node)
            return None
        if base == 'std::equal' and len(args) == 3:
            a, e, b = it.eval(args[0]), it.eval(args[1]), it.eval(args[2])
            n = self._count(it, a, e, node)
            acc = 1
            for k in range(n):
                x = it.read(it.deref(it.ptr_add(a, k), node), node)
                y = it.read(it.deref(it.ptr_add(b, k), node), node)
                c = it.compare('==', x, y, node)
                if isinstance(c, Cond) or isinstance(acc, Cond):
                    acc = c if (not isinstance(acc, Cond) and acc) else (Cond('and', acc, c) if isinstance(acc, Cond) and isinstance(c, Cond) else (acc if c else 0))
                elif not c:
                    return 0
            return acc
        if base == 'std::is_sorted' and len(args) == 2:
            a, e = it.eval(args[0]), it.eval(args[1])
            n = self._count(it, a, e, node)
            vals = [it.read(it.deref(it.ptr_add(a, k), node), node) for k in range(n)]
            if all(isinstance(v, int) for v in vals):
                return 1 if all(vals[i] <= vals[i + 1] for i in range(n - 1)) else 0
            return NotImplemented
        if base == 'std::inner_product' and len(args) == 4:
            a, e, b, init = it.eval(args[0]), it.eval(args[1]), it.eval(args[2]), it.eval(args[3])
            n = self._count(it, a, e, node)
            acc = it.to_poly(init.value if isinstance(init, Cell) else init)
            for k in range(n):
                x = it.read(it.deref(it.ptr_add(a, k), node), node)
                y = it.read(it.deref(it.ptr_add(b, k), node), node)
                acc = acc + it.to_poly(x) * it.to_poly(y)
            return acc
        if base == 'std::accumulate' and len(args) == 3:
            a, e, init = it.eval(args[0]), it.eval(args[1]), it.eval(args[2])
            n = self._count(it, a, e, node)
            acc = it.to_poly(init.value if isinstance(init, Cell) else init)
            for k in range(n):
                acc = acc + it.to_poly(it.read(it.deref(it.ptr_add(a, k), node), node))
            return acc
        if base == 'std::fill_n':
            a, cnt, v = it.eval(args[0]), it.eval(args[1]), it.eval(args[2])
            if isinstance(v, Cell):
                v = v.value
            if not isinstance(cnt, int):
                raise Unsupported('symbolic range length at %s' % it.loc(node))
            for k in range(cnt):
                it.write(it.deref(it.ptr_add(a, k), node), it.to_poly(v), node)
            return it.ptr_add(a, max(cnt, 0))
        if base == 'std::copy_n':
            a, cnt, o = it.eval(args[0]), it.eval(args[1]), it.eval(args[2])
            if not isinstance(cnt, int):
                raise Unsupported('symbolic range length at %s' % it.loc(node))
            for k in range(cnt):
                it.write(it.deref(it.ptr_add(o, k), node), it.read(it.deref(it.ptr_add(a, k), node), node), node)
            return it.ptr_add(o, max(cnt, 0))
        if base == 'std::iota':
            a, b, v = it.eval(args[0]), it.eval(args[1]), it.eval(args[2])
            if isinstance(v, Cell):
                v = v.value
            n = self._count(it, a, b, node)
            for k in range(n):
                it.write(it.deref(it.ptr_add(a, k), node), v + k if isinstance(v, int) else it.to_poly(v) + Poly.const(k), node)
            return None
        if base == 'std::find':
            a, b, v = it.eval(args[0]), it.eval(args[1]), it.eval(args[2])
            if isinstance(v, Cell):
                v = v.value
            n = self._count(it, a, b, node)
            for k in range(n):
                x = it.read(it.deref(it.ptr_add(a, k), node), node)
                if not (isinstance(x, int) and isinstance(v, int)):
                    raise Unsupported('std::find over symbolic values at %s' % it.loc(node))
                if x == v:
                    return it.ptr_add(a, k)
            return b
        if name.startswith('std::initializer_list<') and this_cell is not None:
            meth = name.split('>::')[-1]
            reg = this_cell.value
            if isinstance(reg, Region):
                if meth == 'begin':
                    return Ptr(reg, 0)
                if meth == 'end':
                    return Ptr(reg, reg.size)
                if meth == 'size':
                    return reg.size
        if base in ('std::copy', 'std::copy_backward', 'std::move') and len(args) == 3:
            a, b, o = it.eval(args[0]), it.eval(args[1]), it.eval(args[2])
            n = self._count(it, a, b, node)
            if base == 'std::copy_backward':
                for k in range(n):
                    it.write(it.deref(it.ptr_add(o, -1 - k), node), it.read(it.deref(it.ptr_add(b, -1 - k), node), node), node)
                return it.ptr_add(o, -n)
            for k in range(n):
                it.write(it.deref(it.ptr_add(o, k), node), it.read(it.deref(it.ptr_add(a, k), node), node), node)
            return it.ptr_add(o, n)
        if name == '__assert_fail':
            raise AssertionAbort(node, 'assertion failure', it.unit)
        if name == '__builtin_assume_aligned':
            self.assume_aligned = getattr(self, 'assume_aligned', 0) + 1
            return it.eval(args[0])
        if name in ('gsl_complex_rect',):
            return gsl_complex(it.to_poly(it.eval(args[0])), it.to_poly(it.eval(args[1])))
        return NotImplemented

    def _count(self, it, a, b, node):
        if not (isinstance(a, Ptr) and isinstance(b, Ptr) and a.region is b.region):
            raise Unsupported('iterator range over different regions at %s' % it.loc(node))
        n = b.off - a.off
        if not isinstance(n, int):
            raise Unsupported('symbolic range length at %s' % it.loc(node))
        return n

    def _range_write(self, it, a, b, f, node):
        n = self._count(it, a, b, node)
        for k in range(n):
            it.write(it.deref(it.ptr_add(a, k), node), f(k), node)

    def on_new(self, it, node, count, elem_type):
        if count is None and not node.get('array'):
            count = 1  # single-object new
        if not isinstance(count, int):
            raise Unsupported('symbolic allocation size at %s' % it.loc(node))
        r = Region('heap#%d' % len(self.heap), count, None, 'heap', {'site': it.loc(node)})
        self.heap.append(r)
        return Ptr(r, 0)

    def on_delete(self, it, node, ptr, is_array):
        return None

    def on_divide(self, it, node, num, den):
        self.divisions.append((node, num, den, list(it.assumptions)))

    def override_call(self, it, fdecl, node, args, this_cell):
        nm = fdecl['name']
        if is_wrapper_update(nm) and this_cell is not None:
            o = this_cell.value
            v = o.fields['v'].value
            kind = fdecl['record'].split('::')[-1]
            if isinstance(v, Ptr):
                self.wrapper_calls.append((v.region, v.off, kind, it.loc(node)))
            return NotImplemented
        if nm == 'squids::SU_vector::alloc_aligned':
            # summary: fresh block of `size` doubles, no offset (allocation policy is analysed by engine B)
            dim = it.eval(args[0])
            size = it.eval(args[1])
            comp = it.lval(args[2])
            off = it.lval(args[3])
            r = Region('heap#%d' % len(self.heap), size, None, 'heap', {'site': it.loc(node)})
            self.heap.append(r)
            it.write(comp, Ptr(r, 0), node)
            it.write(off, 0, node)
            return None
        if nm == 'squids::SU_vector::deallocate_mem':
            return None
        return NotImplemented

    def on_read(self, it, cell, node):
        if self.track_reads_of is not None and cell.region is self.track_reads_of:
            fn = it.frame.fdecl.get('name', '')
            self.reads.append((cell.idx, fn, it.loc(node) if node else '?'))


_rx = re  # (external_call has locals named re/im)
_WUPD = re.compile(r'Wrapper(<[^<>]*>)?::operator\+=$')


def is_wrapper_update(name):
    """the fused update of a target wrapper (AssignWrapper / IncrementWrapper / DecrementWrapper, or a template they are
    aliases of): `component += value` meaning store, add or subtract"""
    return bool(_WUPD.search(name or ''))


def target_wrapper(it_unit, d, region, wrapper):
    """vector_wrapper<W>{dim, components} value as the proxy kernels receive it"""
    o = Obj('squids::detail::vector_wrapper<%s>' % (wrapper if '::' in wrapper else 'squids::detail::' + wrapper), None, 'target')
    dimcell = Cell(d, None, 0, 'target.dim')
    from interp import Ref
    o.field('dim').value = Ref(dimcell)
    cw = Obj('component_wrapper', None, 'target.components')
    cw.field('components').value = Ptr(region, 0)
    o.field('components').value = cw
    return o


def run_function(unit, fdecl, this_cell, argvals, hooks):
    it = Interp(unit, hooks)
    res = it.call(fdecl, this_cell, argvals)
    return it, res


def flatten_ite(v):
    """list of (list of (Cond, polarity), leaf)"""
    if isinstance(v, ITE):
        out = []
        for path, leaf in flatten_ite(v.a):
            out.append(([(v.cond, True)] + path, leaf))
        for path, leaf in flatten_ite(v.b):
            out.append(([(v.cond, False)] + path, leaf))
        return out
    return [([], v)]
