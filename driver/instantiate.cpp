// Driver TU (lives in /verif, includes /repo's headers): explicit instantiations so that
// every proxy kernel / assignProxy / proxy-constructor combination has a resolved body in
// the AST, whether or not a library TU happens to use it.  Explicit instantiation ignores
// access control, so no hook in /repo is needed.  Never compiled to code, never run.
#include <SQuIDS/SUNalg.h>
#include <functional>

namespace squids {
namespace detail {
using MulOp = BinaryElementwiseOpProxy<std::multiplies<double>>;

#define SQV_COMPUTE(P, W, A) template void P::compute<vector_wrapper<W>, A>(vector_wrapper<W>) const;
#define SQV_COMPUTE_ALL_W(P)            \
  SQV_COMPUTE(P, AssignWrapper, false)    \
  SQV_COMPUTE(P, AssignWrapper, true)     \
  SQV_COMPUTE(P, IncrementWrapper, false) \
  SQV_COMPUTE(P, IncrementWrapper, true)  \
  SQV_COMPUTE(P, DecrementWrapper, false) \
  SQV_COMPUTE(P, DecrementWrapper, true)

SQV_COMPUTE_ALL_W(EvolutionProxy)
SQV_COMPUTE_ALL_W(FastEvolutionProxy)
SQV_COMPUTE_ALL_W(AdditionProxy)
SQV_COMPUTE_ALL_W(SubtractionProxy)
SQV_COMPUTE_ALL_W(NegationProxy)
SQV_COMPUTE_ALL_W(MultiplicationProxy)
SQV_COMPUTE_ALL_W(iCommutatorProxy)
SQV_COMPUTE_ALL_W(ACommutatorProxy)
SQV_COMPUTE_ALL_W(MulOp)

// every non-template member of the expression base class (conversions, negation of lvalue and rvalue expressions,
// combination with scalars and vectors), for every operation
template struct EvaluationProxy<EvolutionProxy>;
template struct EvaluationProxy<FastEvolutionProxy>;
template struct EvaluationProxy<AdditionProxy>;
template struct EvaluationProxy<SubtractionProxy>;
template struct EvaluationProxy<NegationProxy>;
template struct EvaluationProxy<MultiplicationProxy>;
template struct EvaluationProxy<iCommutatorProxy>;
template struct EvaluationProxy<ACommutatorProxy>;
template struct EvaluationProxy<BinaryElementwiseOpProxy<std::multiplies<double>>>;
} // namespace detail

#define SQV_ASSIGN(W, P) template SU_vector& SU_vector::assignProxy<detail::W, detail::P>(const detail::P&);
#define SQV_ASSIGN_ALL_W(P)      \
  SQV_ASSIGN(AssignWrapper, P)    \
  SQV_ASSIGN(IncrementWrapper, P) \
  SQV_ASSIGN(DecrementWrapper, P)

SQV_ASSIGN_ALL_W(EvolutionProxy)
SQV_ASSIGN_ALL_W(FastEvolutionProxy)
SQV_ASSIGN_ALL_W(AdditionProxy)
SQV_ASSIGN_ALL_W(SubtractionProxy)
SQV_ASSIGN_ALL_W(NegationProxy)
SQV_ASSIGN_ALL_W(MultiplicationProxy)
SQV_ASSIGN_ALL_W(iCommutatorProxy)
SQV_ASSIGN_ALL_W(ACommutatorProxy)
SQV_ASSIGN_ALL_W(MulOp)

// guarantee wrappers: each single flag and all flags, on an element-wise and on a non-element-wise operation
#define SQV_GUAR(F, P)                                                                                                         \
  template SU_vector& SU_vector::assignProxy<detail::AssignWrapper, detail::GuaranteeWrapper<F, detail::P>>(                   \
      const detail::GuaranteeWrapper<F, detail::P>&);                                                                          \
  template SU_vector& SU_vector::assignProxy<detail::IncrementWrapper, detail::GuaranteeWrapper<F, detail::P>>(                \
      const detail::GuaranteeWrapper<F, detail::P>&);                                                                          \
  template void detail::GuaranteeWrapper<F, detail::P>::compute<detail::vector_wrapper<detail::AssignWrapper>>(                \
      detail::vector_wrapper<detail::AssignWrapper>) const;
SQV_GUAR(1, AdditionProxy)
SQV_GUAR(2, AdditionProxy)
SQV_GUAR(3, AdditionProxy)
SQV_GUAR(4, AdditionProxy)
SQV_GUAR(7, AdditionProxy)
SQV_GUAR(1, iCommutatorProxy)
SQV_GUAR(2, iCommutatorProxy)
SQV_GUAR(3, iCommutatorProxy)
SQV_GUAR(4, iCommutatorProxy)
SQV_GUAR(7, iCommutatorProxy)
SQV_GUAR(1, EvolutionProxy)
SQV_GUAR(7, FastEvolutionProxy)

#define SQV_CTOR(P) template SU_vector::SU_vector<detail::P>(detail::P&&, void*);
} // namespace squids

// proxy constructors, conversions and traces are instantiated by use (never executed)
namespace sqv_driver {
using namespace squids;
// the three target wrappers under whatever spelling the library gives their types today (the name of an explicit
// instantiation carries the canonical template argument, so an alias or a merged template is seen through)
template <typename W> void probe_AssignWrapper() {}
template <typename W> void probe_IncrementWrapper() {}
template <typename W> void probe_DecrementWrapper() {}
template void probe_AssignWrapper<detail::AssignWrapper>();
template void probe_IncrementWrapper<detail::IncrementWrapper>();
template void probe_DecrementWrapper<detail::DecrementWrapper>();
void uses(SU_vector& a, SU_vector& b, const double* buf, double t) {
  SU_vector c1(a.Evolve(b, t));
  SU_vector c2(a.Evolve(buf));
  SU_vector c3(a + b);
  SU_vector c4(std::move(a) + b);
  SU_vector c5(a - b);
  SU_vector c6(-a);
  SU_vector c7(a * 2.0);
  SU_vector c8(iCommutator(a, b));
  SU_vector c9(ACommutator(a, b));
  SU_vector c10(ElementwiseProduct(a, b));
  SU_vector c11(ElementwiseProduct(std::move(a), b));
  SU_vector c12(ElementwiseProduct(a, std::move(b)));
  SU_vector c13(ElementwiseProduct(std::move(a), std::move(b)));
  SU_vector c14(2.0 * a);
  SU_vector c15(2.0 * std::move(a));
  SU_vector c16(std::move(a) * 2.0);
  SU_vector c17(-std::move(a));
  SU_vector c18(std::move(a) - b);
  SU_vector c19(a + std::move(b));
  SU_vector c20(std::move(a) + std::move(b));
  double x = SUTrace<0>(a, b) + SUTrace<detail::AlignedStorage>(a, b) + a * b;
  (void)x;
  c1 = detail::guarantee<detail::NoAlias | detail::EqualSizes | detail::AlignedStorage>(a + b);
  c1 += a + b;
  c1 -= iCommutator(a, b);
  // operations between unevaluated expressions (and between an expression and a vector): members of EvaluationProxy<Op>
  double y = (a + b) * (a - b);
  (void)y;
  double z = (a * 2.0) * (a * 3.0); // two expressions of one kind over one vector, with different parameters
  (void)z;
  SU_vector p1((a + b) + (a - b));
  SU_vector p2((a + b) - (a - b));
  SU_vector p3((a + b).Evolve(a - b, t));
  SU_vector p4((a + b) + a);
  SU_vector p5((a + b) - a);
  SU_vector p6((a + b).Evolve(a, t));
  SU_vector p7((a + b) * 2.0);
  SU_vector p8(-(a + b));
}
} // namespace sqv_driver
