// Driver TU: the shared (atomic, non-thread-local) configuration of detail::cache, which the
// normal build never compiles because gcc and clang always define SQUIDS_THREAD_LOCAL.
// Includes only Cache.h, so SQUIDS_THREAD_LOCAL stays undefined.  Never run.
#include <cstddef>
#include <cstdint>
#ifdef SQUIDS_THREAD_LOCAL
#error "cache_shared.cpp must be compiled without SQUIDS_THREAD_LOCAL"
#endif
#include <SQuIDS/detail/Cache.h>

namespace sqv_driver {
struct entry {
  double* storage;
  unsigned char offset;
  entry() : storage(nullptr), offset(0) {}
  entry(double* p, unsigned char o) : storage(p), offset(o) {}
};
} // namespace sqv_driver
template class squids::detail::cache<sqv_driver::entry, 4>;
