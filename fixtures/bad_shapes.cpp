// Positive controls: tiny functions that exhibit the shapes which the zero-expected rules must flag.
// This TU goes through the same extraction and the same rule code on every run; a rule that does not
// fire on its fixture makes the check exit 2 (a rule matching nothing would otherwise pass forever).
// It is never compiled to code and never run.
#include <gsl/gsl_matrix.h>
#include <gsl/gsl_rng.h>
#include <stdexcept>

namespace squids{
namespace fixture{
  struct holder{ gsl_matrix_complex* m; holder():m(nullptr){} ~holder(){ gsl_matrix_complex_free(m); } };

  // E.static: scratch shared by all threads
  double shared_scratch(double x){
    static double last;          // mutable, not thread_local
    last+=x;
    return last;
  }
  // E.escape: reference to a thread-local object handed out
  double& escaping_scratch(){
    static thread_local double tl;
    return tl;
  }
  // E.deny: process-global set-up executed on every call
  const gsl_rng_type* setup_every_time(){
    return gsl_rng_env_setup();
  }
  // F.pair: raw GSL object still open at a throw
  void leak_on_throw(unsigned n){
    gsl_matrix_complex* m=gsl_matrix_complex_alloc(n,n);
    if(n>6)
      throw std::runtime_error("too large");
    gsl_matrix_complex_free(m);
  }
  // B.exc.terminate: an allocation inside a function declared non-throwing
  double first_of_scratch(unsigned n) noexcept{
    double* p=new double[n];
    p[0]=1.0;
    double r=p[0];
    delete[] p;
    return r;
  }
  // E.tls.dtor: thread-local owner of heap blocks without a destructor
  struct raw_pool{ double* blocks[4]; };
  double* pool_slot(unsigned i){
    static thread_local raw_pool pool;
    return pool.blocks[i];
  }
}
// E.const.write: a const query that writes solver state
class SQuIDS{
  double t;
public:
  double Get_t() const{ const_cast<SQuIDS*>(this)->t+=1; return t; }
  double Get_x(unsigned i) const{ return t*i; }
};
}
// E.const.write with lock-guarded mutable data: `good` must stay quiet, `bad` (no lock) and `leak`
// (reference leaves the locked region) must be flagged
#include <mutex>
#include <memory>
namespace squids{
class Locked{
  mutable std::mutex mtx;
  mutable double cachev;
  double base;
public:
  double good(double x) const{ std::lock_guard<std::mutex> g(mtx); cachev=base*x; return cachev; }
  double bad(double x) const{ cachev=base*x; return cachev; }
  const double& leak() const{ std::lock_guard<std::mutex> g(mtx); return cachev; }
  // a scratch block owned by the object: get() yields a pointer to non-const even in a const member function
  std::unique_ptr<double[]> scratch;
  static void fill(double* p){ p[0]=1; }
  static double peek(const double* p){ return p[0]; }
  double through_scratch() const{ fill(scratch.get()); return scratch[0]; }
  double reads_scratch() const{ return peek(scratch.get()); }
};
}
// E.escape: the address of a thread-local object kept in a static shared by all threads
namespace squids{ namespace fixture{
  double* shared_view_of_tls(){
    static thread_local double per_thread[4];
    static double* const view=per_thread;   // initialised once, by whichever thread comes first
    return view;
  }
}}
