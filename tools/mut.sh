#!/bin/sh
export SQV_EVIDENCE_DIR=/tmp/sqv_mutant_evidence  # never overwrite the committed evidence with a mutant run
# usage: mut.sh <ID> <file relative to /repo> <sed expression>   -- apply, run check, revert
ID=$1; F=$2; E=$3
cd /repo && cp "$F" /tmp/mut_backup.$$ && sed -i "$E" "$F"
if cmp -s "$F" /tmp/mut_backup.$$; then echo "MUTATION DID NOT CHANGE FILE"; fi
cd /verif && ./check $ID ${4:+--tier $4} 2>&1 | grep -E "VIOLATION|ANALYSIS-BROKEN|expected|^C[0-9]" | head -8
echo "exit=$?"
cd /repo && cp /tmp/mut_backup.$$ "$F" && rm /tmp/mut_backup.$$ && git -C /repo status --short | grep -v '^??'
