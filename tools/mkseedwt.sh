#!/bin/sh
# usage: mkseedwt.sh <name>  -> creates /tmp/seedwt/<name>, a scratch worktree of /repo HEAD with the untracked build files
set -e
N=$1; D=/tmp/seedwt/$N
mkdir -p /tmp/seedwt
git -C /repo worktree add -q --detach "$D" HEAD
cp /repo/Makefile /repo/settings.mk "$D"/
cp /repo/include/SQuIDS/version.h "$D"/include/SQuIDS/
cp /repo/test/env_vars.sh "$D"/test/ 2>/dev/null || true
mkdir -p "$D"/lib "$D"/SEED
echo "$D"
