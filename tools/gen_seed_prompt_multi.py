import sys
pid, wt = sys.argv[1], sys.argv[2]
ROUND_E = len(sys.argv) > 3 and sys.argv[3] == 'e'
ROUND_F = len(sys.argv) > 3 and sys.argv[3] == 'f'
ROUND_G = len(sys.argv) > 3 and sys.argv[3] == 'g'
EXTRA = ''
ROUND_G_TEXT = (' THIS ROUND: each change must be a PERFORMANCE OPTIMISATION GONE SUBTLY WRONG. Write each patch the way a performance-minded maintainer writes a real speed-up '
                '(10-60 changed lines, with a plausible comment about what is saved): a fast path for a common special case (zero, identity, diagonal, equal sizes, t==0, already sorted, single node), '
                'work skipped when an operand "cannot matter", a loop unrolled or blocked with a remainder, invariants hoisted out of loops or out of functions into members/statics, results or buffers reused between calls, '
                'copies avoided by aliasing or moving, allocations avoided by reusing storage, a lookup table or precomputed constant, lazy evaluation, an integer or float trick replacing a library call, a cheaper comparison. '
                'The optimisation must be exactly right for ordinary inputs and for everything the test suite does; the flaw is that the assumption behind it fails in a corner the property still covers: '
                'the special case is detected with a test that is slightly too generous, the skipped work mattered for one wrapper (= versus +=) or one operand category, the remainder loop is wrong for one residue, '
                'the hoisted value is not invariant across one rarely used call, the reused buffer is too small or stale for one sequence of dimensions/objects/threads, the aliasing breaks when operands coincide, '
                'the table is right except at its last entry, the trick fails for negative/huge/denormal/NaN arguments. '
                'Earlier rounds already used: t==0 shortcuts in PrepareEvolve, skipping a==0 in scalar multiplication, diagonal shortcut in GetEigenSystem and matrix_exponential, memoised Identity/H0/mixing matrix/eigensystem, '
                'thread-local scratch matrices rewritten on the diagonal only, persistent GSL driver, Get_i memo, shift instead of pow, block comparison in operator==, swap-based move assignment, caching unaligned blocks - do not repeat those. '
                'The library is built with assertions ENABLED (no -DNDEBUG): do not rely on NDEBUG. Effects that exist only through IEEE rounding or overflow of huge finite values are NOT wanted (the framework reasons over the reals); NaN/zero/sign/exactly-equal corner cases are fine.')
ROUND_F_TEXT = (' THIS ROUND: each change must be a REFACTORING GONE SUBTLY WRONG. Write each patch the way a maintainer writes a genuine, moderately sized clean-up '
                '(10-60 changed lines): extract a helper from duplicated code, replace a hand-written loop by a standard algorithm or the reverse, restructure nested ifs into early returns, '
                'hoist or cache a sub-expression, memoise a result or reuse a scratch buffer between calls, merge two near-identical overloads through a shared implementation, replace a macro by an alias/constexpr, '
                'move validation into a shared validator, reorder definitions/initialisers, modernise casts/loops/smart pointers - and ALMOST all of the patch must be exactly behaviour-preserving. '
                'Hidden inside is ONE subtle mistake of the kind such refactorings really introduce: the extracted helper is right for three of its four callers, the algorithm call has the wrong end iterator or '
                'predicate for one edge, the cache key omits something the value depends on or one mutator forgets to invalidate it, the early return skips a side effect the old code performed, '
                'the merged overload loses the one difference between the originals, the reordered initialiser reads a member that is not initialised yet, the scratch buffer keeps a stale part, '
                'the moved validation now happens after a side effect. A reviewer skimming the diff should believe it is a pure refactoring. '
                'Earlier rounds already used: memcmp equality, reciprocal division, upper_bound for lower_bound, triangle-only diagonal test, Identity memo returned as a view, H0 kept in the expectation-value buffer keyed on (x,irho), '
                'scratch matrices in thread-local statics rewritten on the diagonal only, noexcept on an allocating operator, unaligned blocks filed in the cache, flushing small diagonal entries to zero - do not repeat those. '
                'The library is built with assertions ENABLED (no -DNDEBUG): do not rely on NDEBUG.')
if pid == 'C19':
    EXTRA = ("The code in question is the single header %s/include/SQuIDS/detail/Cache.h; when SQUIDS_THREAD_LOCAL is not defined the cache is shared by all threads (compile such a demo by including only <cstddef>, <cstdint> and <SQuIDS/detail/Cache.h>, instantiate squids::detail::cache<E,4> with your own payload type, build with `g++ -std=c++11 -pthread -I%s/include demo.cpp -o demo -latomic`). " % (wt, wt))
if pid == 'C16':
    EXTRA = ("Demonstrations should replace global operator new[]/delete[] with a version that can be told to throw std::bad_alloc at the k-th allocation and keeps a ledger of live blocks; call SU_vector::clear_mem_cache() before injecting the fault so the allocation really reaches operator new[]. ")
if pid == 'C15':
    EXTRA = ("Demonstrations must be deterministic without sanitizers (e.g. replace operator new[]/delete[] or malloc/free with a ledger, or place vectors on user buffers with canaries). ")
if pid == 'C18':
    EXTRA = ("Demonstrations may use threads (-pthread is passed); make them deterministic (barriers, parking a thread at an allocation, observing shared state in a fixed order) rather than relying on a lucky race. ")
print("""You are helping to evaluate a verification framework by producing realistic *breaking changes* to a C++ library. Work ONLY inside the scratch git worktree {wt} (a checkout of the SQuIDS library: C++ library for SU(N) density-matrix algebra and quantum integro-differential evolution, sources in include/SQuIDS and src/). Do NOT read, list or modify anything under /verif or /repo, and do not commit anything. Do NOT use `git stash` (it is shared with sibling worktrees); toggle a change with `git -C {wt} apply <patch>` / `git -C {wt} apply -R <patch>`.

The property to break is described in the JSON record in /tmp/seedwt/prompt_{pid}.txt (read it first: id, title, statement, quantifier, why_tests_cant, anchors; line numbers in the anchors may be slightly off).

Task: produce THREE DIFFERENT breaking changes, numbered 1, 2, 3. They must be independent of each other: each is ONE small, realistic source change relative to the CLEAN checkout (each patch applies on its own to the unchanged tree), in a different function or file and aimed at a different clause or mechanism of the property than the other two. Think of the slips maintainers really make in refactorings, optimisations, clean-ups and small feature patches — an off-by-one at a boundary, a wrong operand or index after copy-paste, a lost sign or factor, a condition that is right except on its edge, a stale value kept across calls, a reordered pair of statements, an integer width/overflow, a forgotten case of an enumeration, a check that moved after the use, an exception path that skips a release. Subtle is better than blunt; a change that reads like a plausible improvement is best. Avoid the most obvious central line of the most obvious function; look around the less-visited corners that the property still covers.{round_e}

For EACH change k (directory {wt}/SEED/k/):
 (a) with the change applied the library still compiles: `make -C {wt}` (g++, ~1 min; produces lib/libSQuIDS.so);
 (b) the existing test suite still passes unchanged: `make -C {wt} test` must end with "24 Tests: 24 passes, 0 failures" (1-2 minutes; do not edit anything under test/);
 (c) the property is violated, but only under something specific — a particular dimension, index pair, input pattern, multi-step sequence, alias pattern, configuration — NOT something ordinary use would expose at once;
 (d) a demonstration {wt}/SEED/k/demo.cpp exits 0 on the unchanged tree and non-zero (printing what went wrong) with change k applied. {extra}Unless stated otherwise build with
       g++ -std=c++11 -pthread -I{wt}/include {wt}/SEED/k/demo.cpp -L{wt}/lib -lSQuIDS -lgsl -lgslcblas -lm -o {wt}/SEED/k/demo
     and run with LD_LIBRARY_PATH={wt}/lib. Verify BOTH directions yourself, rebuilding the library (`make -C {wt} clean && make -C {wt}`) and recompiling the demo each time (parts of the library are header templates compiled into the demo).
 (e) deliverables in {wt}/SEED/k/: patch.diff (output of `git -C {wt} diff -- include src` with ONLY change k applied), demo.cpp, meta.json = {{"property": "{pid}", "summary": one or two sentences describing the change, "needs_to_manifest": what specific input/sequence/configuration is needed, "files_changed": [...], "tests_with_change": "...", "demo_without_change_exit": 0, "demo_with_change_exit": <n>}}.

Work through the three changes one after the other; after finishing change k, revert it (`git -C {wt} apply -R SEED/k/patch.diff`) before starting the next, and at the very end leave the worktree CLEAN (no change applied). If you cannot complete all three in reasonable time, deliver the ones you completed — a fully verified change is worth more than three half-checked ones.

Practical notes: when multiplying an expression object by a scalar in test code write `3.0` not `3` (a template quirk picks the wrong overload for int literals). The Makefile, settings.mk and include/SQuIDS/version.h in the worktree are untracked build files: leave them alone and keep them out of the patches.

In your final message give, for each change, a 3-line summary: the change, what it needs to manifest, the observed demo results in both directions.""".format(wt=wt, pid=pid, extra=EXTRA, round_e=(' Earlier rounds of this exercise already produced the textbook slips (a flipped sign or wrong constant in one generated table entry, integer division inside sqrt, an off-by-one in the obvious loop, release-before-allocate, a static that lost thread_local, memcmp equality, reciprocal division, upper_bound instead of lower_bound at the last node, a diagonal shortcut that looks at one triangle only). Go beyond those: prefer interactions between two functions (a helper whose contract is subtly changed while one caller relies on the old contract), state that survives between calls, argument combinations at the edges of the validated ranges, overloads that are rarely used (rvalue-qualified operators, guarantee<> wrappers, buffer-taking variants, the move constructor), error paths, and configuration macros (SQUIDS_USE_STORAGE_CACHE, SQUIDS_THREAD_LOCAL, NDEBUG assertions).' if ROUND_E else (ROUND_F_TEXT if ROUND_F else (ROUND_G_TEXT if ROUND_G else '')))))
