#!/usr/bin/env python3
"""writes /verif/seeded/<id>/meta.json from the agent's meta, the confirmation results and the check results"""
import json, os, sys
sid = sys.argv[1]
d = os.path.join('/verif/seeded', sid)
am = {}
try:
    am = json.load(open(os.path.join(d, 'agent_meta.json')))
except Exception:
    pass
lines = open(os.path.join(d, 'check_results.txt')).read().split('\n')
checks = dict(x.split(':') for x in lines[0].split())
demo = dict(x.split('=') for x in lines[1].split()) if len(lines) > 1 and lines[1] else {}
caught = sorted(k for k, v in checks.items() if v == '1')
broken = sorted(k for k, v in checks.items() if v == '2')
meta = {
    'id': sid,
    'property': am.get('property', sid.split('-')[0]),
    'origin': 'independent sub-agent given only the property text and a scratch worktree',
    'summary': am.get('summary'),
    'needs_to_manifest': am.get('needs_to_manifest'),
    'files_changed': am.get('files_changed'),
    'confirmed_by_me': {
        'build': 'make in the scratch worktree with the change applied',
        'tests_with_change': open(os.path.join(d, 'tests_with_change.txt')).read().strip(),
        'demo_with_change_exit': int(demo.get('demo_with', -1)),
        'demo_without_change_exit': int(demo.get('demo_without', -1)),
        'how': 'tools/confirm_seed.sh: build + make test + demo with the change; git apply -R; rebuild; demo without the change',
    },
    'checks_run': 'git -C /repo apply patch.diff; ./check <ID> for all 19 properties; git -C /repo checkout -- .',
    'check_exit_codes': checks,
    'caught_by': caught,
    'analysis_broken_in': broken,
}
if len(sys.argv) > 2:
    meta['note'] = sys.argv[2]
json.dump(meta, open(os.path.join(d, 'meta.json'), 'w'), indent=1)
print(sid, 'caught by', caught, 'broken', broken)
