#!/usr/bin/env python3
"""Regenerates /verif/MANIFEST.json from the table below (one entry per claimed property)."""
import json
import os
import subprocess

VERIF = os.path.dirname(os.path.dirname(os.path.abspath(__file__)))
TB = ('trusted: clang 14 front end as the meaning of the sources; the sqdump extractor and the abstract interpreter '
      '(engine/interp.py); mpmath 50-digit arithmetic; real-number semantics for + - * / (IEEE rounding not modelled, '
      'decimal literals accepted within 4e-15 relative); callee summaries listed in the evidence file')

CLAIMS = {
    'C01': ('proof',
            'Every conversion, element-wise and loop kernel of dimensions 2..6 is abstractly interpreted from the current sources into a '
            'coefficient table / footprint and compared entry by entry with the definition (Gell-Mann normalisation, layout, inverse pair, '
            'per-slot operation). The tables are finite, so the comparison covers all inputs up to rounding; scalar division must divide each component by the scalar itself (no reciprocal formed first); '
            'operator== must compare numerically, not bytewise.',
            'static analysis: abstract interpretation of the type-resolved AST into coefficient tables (polynomial value domain); table-vs-definition comparison'),
    'C02': ('proof',
            'The bilinear form of each of the 180 output slots of the commutator / anticommutator kernels and the 10 SUTrace forms are '
            'extracted and compared coefficient by coefficient with i[A,B], {A,B}, Tr(AB) expanded over the basis extracted under C01; '
            'each slot written exactly once (incl. the identity slot); the scalar product of two scaled-vector expressions (over one vector object and over two) is s1 s2 Tr(AB).',
            'static analysis: abstract interpretation into bilinear coefficient tables; comparison with the matrix definition'),
    'C03': ('proof',
            'Slot tables of EvolutionProxy, the sin/cos table of PrepareEvolve and the FastEvolutionProxy table fed with it are extracted '
            'for d=2..6 and compared with exp(iHt) A exp(-iHt) over the extracted basis; pair indices form a bijection with level pairs.',
            'static analysis: abstract interpretation into trigonometric-polynomial tables; comparison with the conjugation formula'),
    'C14': ('proof',
            'Binary entry points are discovered from the AST (21 required today) and each is abstractly interpreted for all 20 ordered pairs of '
            'different dimensions with symbolic data: an exception must be raised with no operand write and no access outside the extent of any '
            'abstract memory block; the 10 dimension-taking constructors/factories (make_aligned with both fill flags) are interpreted over the window of unsupported arguments named by '
            'the property (dimension 1,7,8; non-square shapes; list lengths up to 64; indices up to d*d+2); every compound assignment v += expr / v -= expr of another dimension in the lifecycle exploration must raise.',
            'static analysis: guard-dominance decided by abstract interpretation over the finite set of dimension pairs, with extent-checked abstract memory'),
    'C04': ('other',
            'Structural necessary conditions (the agreement with closed-form solutions to tolerance is a numerical statement about GSL and is declined): the GSL callback RHS -> set_system_pointers -> Derive '
            'is interpreted on driver-style buffers for all 32 switch settings and several (nx,nsun,nrhos,nscalars) configurations with uninterpreted user terms indexed by their arguments, and the derivative buffer is '
            'compared slot by slot with the documented equation; the flat-array layout is checked at every binding site (also on an object re-initialised from another shape); at every application of the GSL driver its configuration (whenever it was made) must equal the solver\'s current settings, also in Evolve-setter-Evolve histories for six setters, and the driver is released or owned by the solver when Evolve returns.',
            'static analysis: abstract interpretation of the solver with uninterpreted user hooks and a summarised ODE driver; comparison with the documented right-hand side'),
    'C05': ('other',
            'The seven query functions are interpreted on a solver with symbolic state, symbolic ordered nodes and uninterpreted H0, with the query placed in every order relation to the nodes; the value is compared with '
            'Tr(rho Evolve(op,H0(.),t-t_ini)) built from the C02/C03 tables (H0 argument, weights, bracketing nodes), and both-sided range rejection is required; a query through a scratch buffer (explicit or per-thread) that another solver with a different H0 - or of another dimension - used before, at the same x or another, must give what a fresh buffer gives, a repeated averaged query writes every flag again, the range clause also holds on a grid built by Set_xrange(a,b,lin) for x less than a spacing outside; the clock, move and averaging-table rules of C10/C11 are repeated. Numerical value of the trace is declined.',
            'static analysis: abstract interpretation with an explicit order oracle for the bracketing search; one-sided-comparison (range guard) rule'),
    'C10': ('other',
            'Structural necessary conditions: both Evolve branches advance the clock by dt; the no-numerics branch touches neither state nor driver; post-step re-aliasing uses the ini layout; one integration per call, one PreDerive(new t) per call also for zero-length segments without numerics; ini resets clock/views/cache keys (also when the object had another shape, more scalars, or was moved from before); '
            'each setter recomputes the OR of all five switches (all 64 cases, from a consistent and from an overridden flag); move operations transfer every field of the record declaration, re-point sys.params, leave the back-pointer of the source off the new object and disable the source (also from a source whose numerics are suspended); the right-hand side with terms switched off contributes nothing whatever the stepper buffers hold (C04 D.rhs on one configuration); on a failing driver the clock is the time reached. Equality of split vs single evolution within tolerance is numerical and declined.',
            'static analysis: abstract interpretation of the solver state handling; field-completeness rule over the record declaration'),
    'C17': ('other',
            'Grid formulas compared with the affine form for nx=2..8 (both scales, all accepted scale names); vector overload guards; Get_i interpreted for nx=2..12 (thorough: ..33) with the query in every order relation to symbolic strictly increasing nodes: '
            'only comparisons against node values are admitted, a bracketing index must be returned, outside x rejected on both sides; a lookup after the grid was replaced (either overload) answers for the grid in force. Bounded in nx, hence level other.',
            'static analysis: abstract interpretation with symbolic ordered grids; comparison-shape rule for the bisection'),
    'C18': ('other',
            'Structural necessary conditions (schedules are not explored; bit-identity declined): every object with static or thread storage is top-level const or thread_local (159 objects, 32 thread-local); no thread-local scratch escapes; '
            'the const query methods of the solver perform no write reachable from this and hand no storage of the object to a callee through a pointer to non-const; calls with process-global side effects only inside once-only static const initialisers; every thread-local owner of heap blocks has a destructor that releases every member its class allocates (1 known finding: the block cache).',
            'static analysis: storage-class and effect audit over the type-resolved AST (who-may-write / who-may-call rules)'),
    'C19': ('other',
            'Structural necessary conditions; linearizability under all interleavings is declined. On both compilations of Cache.h (the atomic one via a driver TU): record typestate (no access after publish), conservation of records after every operation (a pool whose representation is not the two intrusive lists is judged by behaviour alone; cache objects start zero-initialised, as static and thread-local objects do), a version counter that never goes back, '
            'exhaustive single-threaded sequences up to length 7 (N=4) / from fills 0,1,31,32 (N=32) against a bounded-LIFO model, and sequences of up to 3 (quick) / 4 (thorough) operations of other threads interposed before the first or second exchange of an operation at every fill level 0..N - one of them possibly suspended before its own second exchange and completing afterwards - judged against what a sequential pool allows (nothing handed out twice, capacity respected, records partitioned between the two lists, draining returns what was stored).',
            'static analysis: local typestate and conservation by abstract interpretation with summarised atomics; enumerated interposition of other threads\' operations at the exchange points'),
    'C06': ('proof',
            'All 35 plane-rotation kernels (917 slot tables) are compared with R^dagger A R as trigonometric polynomials modulo sin^2+cos^2=1; '
            'the rotation sequences of RotateToB0/B1 are compared with the factor order of GetTransformationMatrix, each factor with the plane rotation '
            'of the property (and its unitarity); Rotate(U)/UTransform(U)/UDaggerTransform(U) are interpreted end to end for symbolic U; the two '
            'WeightedRotation bodies are compared as normal forms; the Const accessors are enumerated over an index window; two-request histories [set; get U; set; get U] on one Const object are compared with a fresh object holding the same stored values (no stale remembered matrix). Proof level applies to the '
            'kernel tables and factor rules; the WeightedRotation and accessor rules are structural necessary conditions.',
            'static analysis: abstract interpretation into trigonometric-polynomial tables; product-word matrix domain with BLAS callee summaries; AST normal-form comparison'),
    'C07': ('other',
            'Structural necessary conditions only (the accuracy bound is numerical and declined): Pade tables vs the closed formula; U/V assembly on a matrix-polynomial domain for every order and several scaling exponents '
            '(all comparison outcomes on the opaque norm estimates explored as path choices); solve_P_Q solves (V-U)X=(V+U) column-wise; on every explored path the order-m branch is taken only under a bound not above the published theta_m, lower orders first, and the scaling exponent is ceil(log2(eta/theta)) with theta<=4.25; squaring loop parity s=0..6; '
            'every thread-local scratch matrix defined before read after reset; helper kernels; diagonal shortcut taken for diagonal input only (one non-zero real or imaginary entry at any off-diagonal position reaches the LU solve); estimator guards for n=2..6 at all call sites; UTransform(v,scale) sandwich.',
            'static analysis: abstract interpretation on a matrix-polynomial domain with callee summaries for BLAS/LU; must-define-before-use; constant-table and threshold-inequality rules'),
    'C08': ('proof',
            'Every lifecycle function (constructors, destructor, copy/move assignment, assignProxy<W,P> for 3 wrappers x 9 proxies, proxy constructors, '
            'SetBackingStore, make_aligned, factories, cache helpers) is abstractly interpreted from every abstract entry state (empty / self-owned / externally backed, '
            'dimension 2 or 3, alias patterns) and every environment choice (block address mod 32, cache contents and capacity); the ownership invariant, per-operation '
            'postconditions and the movable-flag discipline are checked on every exit. Preservation from every invariant-satisfying state gives all histories by induction.',
            'static analysis: ownership typestate by abstract interpretation over enumerated abstract entry states, heap blocks as tokens; inductive invariant'),
    'C09': ('proof',
            'For every statement form {=,+=,-=,construct} x 20 expression entry overloads x target kind x operand kinds/value categories x alias pattern x dimension 2,3 '
            'the statement is abstractly interpreted with symbolic data and the target is compared with the operation evaluated into a fresh temporary; failure cases must '
            'throw with the target untouched; every kernel writes each slot once and never reads the target; trait table vs kernel dependence; wrapper semantics; guarantee forwarding.',
            'static analysis: abstract interpretation with symbolic component data over enumerated storage/alias states; single-assignment and trait/kernel agreement rules'),
    'C12': ('other',
            'Structural necessary conditions on GetEigenSystem: on every path (d=2..6, both orderings, also after a decomposition of the same vector with the other ordering flag) the values returned are the outputs of gsl_eigen_hermv for exactly the C01 matrix of the vector (the objects the solver filled or copies of them, eigenvalue k with its own eigenvector column), '
            'ascending when ordering is requested (by the trusted sort, or - if the path orders them itself - on every concrete order of the eigenvalues for d<=4 and a selection beyond, ties included); five input classes (dense, diagonal, real-only, imaginary-only, imaginary parts in the last row and column only), the matrix handed to the solver is the generic linear conversion for every input (an entry that takes another form on part of the input space is reported), and the body contains no division/root/argument function of input-dependent quantities. The solver\'s accuracy is trusted, so this is not a proof of the numerical statement.',
            'static analysis: path enumeration by abstract interpretation with callee summaries; syntactic rule for writes/divisions outside the trusted solver'),
    'C15': ('other',
            'Token accounting on every exit (incl. library exceptions) of every explored lifecycle path; GSL allocate/free pairing on every path to every exit of every function that allocates, with a may-throw call graph; '
            'RAII holder rule; every kernel family and the abstract solver runs of C04/C05/C10/C17 interpreted on exact-size abstract blocks (extent check); alignment hints only under the asserted flag; a block that is not optimally aligned must not reach a vector through the block cache (the aligned allocator is simulated on every such insertion). UB inside GSL and arithmetic overflow are declined, hence level other.',
            'static analysis: ownership typestate with token accounting; intraprocedural resource-pairing over the AST with a may-throw call graph; extent-checked abstract interpretation of kernels'),
    'C16': ('proof',
            'For every explored (operation, entry state, choice) path with N allocations the path is re-interpreted with std::bad_alloc raised at the k-th allocation point, k=1..N (exhaustive over allocation sites x paths); '
            'on the exceptional edge the invariant, the token accounting and the values of bystander vectors are checked, and the exception must not meet a non-throwing exception specification on its way out. Operations explored: constructors, assignments, factories, every fused expression statement, and the members of the expression base class (conversion, negation, combination with scalars and vectors) for all nine operations.',
            'static analysis: fault-edge enumeration over allocation sites in the ownership typestate engine'),
    'C11': ('proof',
            'The four filter families are abstractly interpreted for d=2..6 with data-dependent branches kept as guards; the guarded table of every level pair is compared with the documented piecewise definition (threshold, strictness, ramp, cutoff), the phase/frequency of pair k with that of the consumer kernel, the interval form with the exact average; every division by an input-dependent quantity must be dominated by guards excluding zero (35 listed known findings). A guard structure that is not recognised is reported only with a concrete counterexample point of the abstract result; otherwise the check ends undecided (exit 2).',
            'static analysis: abstract interpretation with guarded (ITE) values; guarded-table comparison; guard-dominance rule for divisions'),
    'C13': ('proof',
            'Each factory body is abstractly interpreted for every d in 2..6 and every admissible index (finite domain, exhaustive) and '
            'the resulting vector, mapped through the extracted basis, is compared with the documented 0/1 diagonal matrix - on a first call, and again after calls with another dimension and with the same arguments whose result the caller overwrote, with function-local statics shared between the calls.',
            'static analysis: abstract interpretation of the factory bodies over the finite parameter domain; index-set comparison'),
}

NOT_APPLICABLE = {}

PENDING = 'check under construction in this session (DESIGN.md 9); not claimed until it exists and is quiet on the unchanged tree'


def main():
    props = [json.loads(l) for l in open(os.path.join(VERIF, 'properties.jsonl'))]
    checks = []
    for pid, (level, text, tech) in sorted(CLAIMS.items()):
        checks.append({
            'property_id': pid,
            'quick_cmd': './check %s --tier quick' % pid,
            'thorough_cmd': './check %s --tier thorough' % pid,
            'evidence_file': 'evidence/%s.json' % pid,
            'replay_cmd_template': './check replay {path}',
            'engine': 'sqdump+engines',
            'level_claimed': {'category': level, 'text': text, 'design_ref': 'DESIGN.md 4 ' + pid},
            'level_note': TB,
            'technique': tech,
        })
    na = []
    for p in props:
        if p['id'] in CLAIMS:
            continue
        na.append({'property_id': p['id'], 'reason': NOT_APPLICABLE.get(p['id'], PENDING)})
    man = {
        'version': 1,
        'setup_cmd': 'sh tools/setup.sh',
        'hooks': {'guard': 'SQUIDS_VERIF',
                  'enable': 'none: no hooks are compiled into /repo; checks read /repo\'s sources through the clang front end',
                  'baseline_off_cmd': 'make -C /repo && make -C /repo test',
                  'source_commits': [], 'add_only': True},
        'engines': [{'name': 'sqdump+engines', 'path': 'tools/sqdump.cc, engine/',
                     'serves_properties': sorted(CLAIMS),
                     'kind_free_text': 'clang 14 plugin extracting the type-resolved AST (template instantiations, macro/include expansion); '
                                       'Python abstract interpreter with polynomial value domain; per-property rule engines'}],
        'checks': checks,
        'not_applicable': na,
        'notes': 'static analysis only (no repository code is compiled-and-run by any registered check); exit 2 = analysis broken, never a verdict',
    }
    with open(os.path.join(VERIF, 'MANIFEST.json'), 'w') as fh:
        json.dump(man, fh, indent=1)
    print('MANIFEST.json: %d checks, %d not applicable' % (len(checks), len(na)))


if __name__ == '__main__':
    main()
