#!/bin/bash
# Regression of the checks against the whole corpus, in parallel, on scratch copies of /repo under /tmp:
#   every seeded/<id>/patch.diff must be reported (exit 1) by the check of its own property,
#   every neutral/<id>/patch.diff (behaviour-preserving refactoring) must leave all 19 checks quiet (exit 0).
# usage: SQV_CHECKS="C04 C10" tools/regress_subset.sh [ids...]   (only the named checks; own scratch directory)
# Nothing here is registered in MANIFEST.json; evidence and caches of these runs go to /tmp and are removed.
cd "$(dirname "$0")/.."
V=$(pwd)
W=${SQV_REGRESS_DIR:-/tmp/sqv_regress_subset}
rm -rf "${W:?}"; mkdir -p "$W"
IDS="$@"
[ -z "$IDS" ] && IDS="$(ls seeded) $(ls neutral)"
CHECKS="${SQV_CHECKS:?set SQV_CHECKS to the checks to run}"
one() {
  id=$1
  if [ -d $V/seeded/$id ]; then kind=seeded; else kind=neutral; fi
  d=$W/$id
  mkdir -p $d/repo $d/cache $d/ev
  rsync -a --exclude .git --exclude lib --exclude 'build' --exclude '*.o' /repo/ $d/repo/
  (cd $d/repo && git init -q . 2>/dev/null && git apply $V/$kind/$id/patch.diff) || { echo "$id PATCH-FAILED" > $d/result; return; }
  res=""
  for p in $CHECKS; do
    SQV_REPO=$d/repo SQV_CACHE=$d/cache SQV_EVIDENCE_DIR=$d/ev $V/check $p > $d/out_$p.txt 2>&1
    res="$res $p:$?"
  done
  echo "$res" > $d/result
  rm -rf "${d:?}/repo" "${d:?}/cache"
}
for id in $IDS; do
  one $id &
  while [ $(jobs -r | wc -l) -ge 14 ]; do sleep 1; done
done
wait
bad=0
for id in $IDS; do
  r=$(cat $W/$id/result)
  if [ -d $V/seeded/$id ]; then
    own=$(echo $id | cut -d- -f1)
    caught=$(echo "$r" | tr ' ' '\n' | grep ":1$" | cut -d: -f1 | tr '\n' ' ')
    broken=$(echo "$r" | tr ' ' '\n' | grep -v ":[01]$" | grep : | tr '\n' ' ')
    if echo " $caught" | grep -q " $own "; then st=ok; else st=MISSED; bad=1; fi
    echo "seeded  $id $st caught-by: $caught ${broken:+not-decided: $broken}"
  else
    noisy=$(echo "$r" | tr ' ' '\n' | grep -v ":0$" | grep : | tr '\n' ' ')
    if [ -z "$noisy" ]; then st=quiet; else st=NOISY; bad=1; fi
    echo "neutral $id $st $noisy"
  fi
done
exit $bad
