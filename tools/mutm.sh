#!/bin/sh
export SQV_EVIDENCE_DIR=/tmp/sqv_mutant_evidence  # never overwrite the committed evidence with a mutant run
# usage: mutm.sh "<IDs>" <file> <sed expr> : apply one mutation, run several checks, revert
IDS=$1; F=$2; E=$3
cd /repo && cp "$F" /tmp/mut_backup.$$ && sed -i "$E" "$F"
if cmp -s "$F" /tmp/mut_backup.$$; then echo "MUTATION DID NOT CHANGE FILE"; fi
cd /verif
for ID in $IDS; do ./check $ID 2>&1 | grep -E "VIOLATION|ANALYSIS-BROKEN|expected|^C[0-9]" | cut -c1-420 | head -${N:-4}; done
cd /repo && cp /tmp/mut_backup.$$ "$F" && rm /tmp/mut_backup.$$ && git -C /repo status --short | grep -v '^??'
