#!/bin/sh
# runs every registered quick check on /repo's current tree; prints one line per check; exit 1 if any is not quiet
cd "$(dirname "$0")/.."
bad=0
for p in $(python3 -c "import json;print(' '.join(c['property_id'] for c in json.load(open('MANIFEST.json'))['checks']))"); do
  out=$(./check $p ${1:+--tier $1} 2>&1); rc=$?
  line=$(echo "$out" | grep -E "^$p tier" | head -1)
  echo "rc=$rc $line"
  if [ $rc -ne 0 ]; then bad=1; echo "$out" | grep -E "VIOLATION|ANALYSIS-BROKEN" | head -3; fi
done
exit $bad
