#!/bin/sh
export SQV_EVIDENCE_DIR=/tmp/sqv_mutant_evidence  # never overwrite the committed evidence with a mutant run
# usage: check_seed.sh <seed id> [check ids...] : apply /verif/seeded/<id>/patch.diff to /repo, run checks, revert
ID=$1; shift
OUT=/verif/seeded/$ID
cd /repo && git apply $OUT/patch.diff || { echo "PATCH DOES NOT APPLY"; exit 3; }
cd /verif
LIST="$@"
[ -z "$LIST" ] && LIST=$(python3 -c "import json;print(' '.join(c['property_id'] for c in json.load(open('MANIFEST.json'))['checks']))")
RES=""
for p in $LIST; do
  ./check $p > /tmp/seedwt/chk_$p.txt 2>&1; rc=$?
  RES="$RES $p:$rc"
  if [ $rc -ne 0 ]; then echo "--- $p rc=$rc"; grep -E "expected|ANALYSIS-BROKEN" /tmp/seedwt/chk_$p.txt | cut -c1-330 | head -3; fi
done
cd /repo && git checkout -- . && git status --short | grep -v '^??'
echo "RESULT $ID checks:$RES"
[ $# -eq 0 ] && echo "$RES" > $OUT/check_results.txt
exit 0
