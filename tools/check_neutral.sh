#!/bin/sh
export SQV_EVIDENCE_DIR=/tmp/sqv_mutant_evidence  # never overwrite the committed evidence with a variant run
# usage: check_neutral.sh <id> [check ids...] : apply /verif/neutral/<id>/patch.diff (a behaviour-preserving
# refactoring) to /repo, run the checks (all of them must stay quiet: exit 0), revert
ID=$1; shift
OUT=/verif/neutral/$ID
cd /repo && git apply $OUT/patch.diff || { echo "PATCH DOES NOT APPLY"; exit 3; }
cd /verif
LIST="$@"
[ -z "$LIST" ] && LIST=$(python3 -c "import json;print(' '.join(c['property_id'] for c in json.load(open('MANIFEST.json'))['checks']))")
RES=""
mkdir -p /tmp/seedwt
for p in $LIST; do
  ./check $p > /tmp/seedwt/nchk_$p.txt 2>&1; rc=$?
  RES="$RES $p:$rc"
  if [ $rc -ne 0 ]; then echo "--- $p rc=$rc"; grep -E "expected|ANALYSIS-BROKEN" /tmp/seedwt/nchk_$p.txt | cut -c1-500 | head -4; fi
done
cd /repo && git checkout -- . && git status --short | grep -v '^??'
echo "RESULT $ID checks:$RES"
[ $# -eq 0 ] && echo "$RES" > $OUT/check_results.txt
exit 0
