import sys
AREA = {
 'N1': "src/SUNalg.cpp — constructors, copy/move assignment, SetComponents/GetComponents, the factories (Projector, Identity, PosProjector, NegProjector, Generator), operator==, the compound assignments and the Transpose/Real/Imag functions",
 'N2': "include/SQuIDS/SUNalg.h — the inline/template part of SU_vector: assignProxy, the proxy constructor, alloc_aligned / deallocate_mem / the block-cache hand-over, the arithmetic operator overloads",
 'N3': "src/SQuIDS.cpp — the solver: ini, Set_xrange (both overloads), Get_i, set_system_pointers, Derive/RHS, Evolve, the move constructor and move assignment, GetExpectationValue / GetExpectationValueD / GetIntermediateState",
 'N4': "src/MatrixExp.cpp — the Pade approximants (pade3..pade13), the order selection / scaling and squaring in the main exponential routine, the 1-norm estimator and the small GSL helper functions",
 'N5': "include/SQuIDS/detail/Cache.h — the fixed-capacity cache (both the thread-local sequential variant and the shared compare-and-swap variant)",
 'N6': "the generated kernel fragments under include/SQuIDS/SU_inc/ (pick files for ONE or TWO dimensions from several families, e.g. iConmutatorSU3.txt, AnticonmutatorSU3.txt, EvolutionSU3.txt/ FastEvolutionSU3.txt, PreSinCosEvolSU3.txt, SUToMatrix3.txt, MatrixToSU3.txt, RotationSU3_12.txt, SUTraceSU3 ..., whatever exists) and include/SQuIDS/detail/ProxyImpl.h",
 'N7': "src/const.cpp and include/SQuIDS/const.h — the Const class (mixing angles, phases, energy differences, GetTransformationMatrix) and the rotation/basis-change functions of SU_vector in src/SUNalg.cpp that use it (Rotate, RotateToB0, RotateToB1, WeightedRotation, UTransform, UDaggerTransform, GetEigenSystem)",
}
nid, wt = sys.argv[1], sys.argv[2]
print("""You are helping to evaluate a static verification framework by producing a realistic *behaviour-preserving refactoring* of a C++ library: the framework must stay silent on it. Work ONLY inside the scratch git worktree {wt} (a checkout of the SQuIDS library: C++ library for SU(N) density-matrix algebra and quantum integro-differential evolution, sources in include/SQuIDS and src/). Do NOT read, list or modify anything under /verif or /repo, and do not commit anything. Do NOT use `git stash` (it is shared with sibling worktrees).

Area to refactor: {area}.

Task: act as a maintainer tidying this code. Make a moderately invasive clean-up that touches several functions (say 4-8 independent edits), of the kinds maintainers really make: extract a private/static helper from duplicated code, replace hand-written loops with std algorithms (std::copy, std::fill, std::lower_bound, ...) or the reverse, change loop forms (for/while/do-while, index vs iterator vs range-for), rename locals, reorder independent statements, hoist or inline common subexpressions, replace an if/else-if chain by a switch or vice versa, introduce named constants, write a constant in an equivalent exact form, use references instead of repeated indexing, early returns instead of nested ifs, and similar. Every edit must preserve behaviour EXACTLY for all inputs:
 - same results bit for bit (do not re-associate floating point arithmetic in a way that changes rounding unless the two forms are exactly equal for all inputs; do not replace a constant by an approximation),
 - same exceptions in the same situations, raised before/after the same side effects (validation stays before allocation where it was, an object is left in the same state when an exception passes),
 - same memory ownership behaviour (what is allocated, stolen, cached, released, and in which order relative to anything that can throw),
 - no new global, static or mutable state; thread-safety unchanged; public interface unchanged.
Do not fix bugs, do not change documented behaviour, do not touch test/. If you are not sure an edit is exactly behaviour-preserving, leave it out.

Requirements: the library compiles (`make -C {wt} clean && make -C {wt}`, g++, ~1 min) and `make -C {wt} test` ends with "24 Tests: 24 passes, 0 failures" (1-2 minutes).

Deliverables (all under {wt}/SEED/): patch.diff = output of `git -C {wt} diff -- include src` (library sources only; Makefile, settings.mk and include/SQuIDS/version.h are untracked build files: leave them alone), and meta.json = {{"id": "{nid}", "edits": [{{"where": "file:function", "what": "...", "why_equivalent": "..."}}, ...], "tests_with_change": "..."}}.
Leave the worktree with your change APPLIED. In your final message list the edits in one line each.""".format(wt=wt, nid=nid, area=AREA[nid]))
