// sqdump — clang 14 frontend plugin: dumps a compact, type-resolved JSON view of
// every function *definition* (including implicit template instantiations) whose
// body lives under one of the given path prefixes, plus every variable with
// static/thread storage duration and every record declared there.
//
// Usage:
//   clang++ <flags> -fsyntax-only -fplugin=sqdump.so -Xclang -plugin -Xclang sqdump \
//       -Xclang -plugin-arg-sqdump -Xclang out=<file.json> \
//       -Xclang -plugin-arg-sqdump -Xclang prefix=/repo/ [-Xclang -plugin-arg-sqdump -Xclang prefix=/verif/] file.cpp
//
// The output is one JSON object: {"files":[...], "functions":[...], "globals":[...], "records":[...]}.
// Node encoding: {"k":kind, "l":[fileIdx,line] (expansion), "s":[fileIdx,line] (spelling, if different),
//                 "t":canonical type (expressions), ...attrs, "c":[children]}.

#include "clang/AST/ASTConsumer.h"
#include "clang/AST/ASTContext.h"
#include "clang/AST/Attr.h"
#include "clang/AST/DeclCXX.h"
#include "clang/AST/DeclTemplate.h"
#include "clang/AST/Expr.h"
#include "clang/AST/ExprCXX.h"
#include "clang/AST/RecursiveASTVisitor.h"
#include "clang/AST/Stmt.h"
#include "clang/AST/StmtCXX.h"
#include "clang/Basic/SourceManager.h"
#include "clang/Frontend/CompilerInstance.h"
#include "clang/Frontend/FrontendPluginRegistry.h"
#include "llvm/Support/raw_ostream.h"

#include <map>
#include <set>
#include <string>
#include <vector>

using namespace clang;

namespace {

std::string jsonEscape(llvm::StringRef s) {
  std::string o;
  o.reserve(s.size() + 2);
  for (unsigned char c : s) {
    switch (c) {
    case '"': o += "\\\""; break;
    case '\\': o += "\\\\"; break;
    case '\n': o += "\\n"; break;
    case '\t': o += "\\t"; break;
    case '\r': o += "\\r"; break;
    default:
      if (c < 0x20) {
        char buf[8];
        snprintf(buf, sizeof buf, "\\u%04x", c);
        o += buf;
      } else
        o += (char)c;
    }
  }
  return o;
}

struct Dumper {
  ASTContext &Ctx;
  SourceManager &SM;
  PrintingPolicy PP;
  std::vector<std::string> prefixes;
  std::map<std::string, unsigned> fileIdx;
  std::vector<std::string> files;
  llvm::raw_ostream &OS;

  Dumper(ASTContext &C, llvm::raw_ostream &os, std::vector<std::string> pf)
      : Ctx(C), SM(C.getSourceManager()), PP(C.getLangOpts()), prefixes(std::move(pf)), OS(os) {
    PP.SuppressTagKeyword = true;
    PP.Bool = true;
    PP.FullyQualifiedName = true;
  }

  unsigned fileId(llvm::StringRef name) {
    std::string n = name.str();
    auto it = fileIdx.find(n);
    if (it != fileIdx.end()) return it->second;
    unsigned id = files.size();
    files.push_back(n);
    fileIdx[n] = id;
    return id;
  }

  std::string realName(SourceLocation L) {
    if (L.isInvalid()) return "";
    FileID fid = SM.getFileID(L);
    const FileEntry *fe = SM.getFileEntryForID(fid);
    if (!fe) return "";
    llvm::StringRef rp = fe->tryGetRealPathName();
    if (!rp.empty()) return rp.str();
    return fe->getName().str();
  }

  bool inPrefix(SourceLocation L) {
    if (L.isInvalid()) return false;
    std::string n = realName(SM.getExpansionLoc(L));
    for (auto &p : prefixes)
      if (n.compare(0, p.size(), p) == 0) return true;
    return false;
  }

  void loc(SourceLocation L) {
    if (L.isInvalid()) return;
    SourceLocation E = SM.getExpansionLoc(L);
    SourceLocation S = SM.getSpellingLoc(L);
    std::string en = realName(E);
    if (en.empty()) return;
    OS << ",\"l\":[" << fileId(en) << "," << SM.getExpansionLineNumber(E) << "," << SM.getExpansionColumnNumber(E) << "]";
    if (L.isMacroID()) {
      std::string sn = realName(S);
      if (!sn.empty())
        OS << ",\"s\":[" << fileId(sn) << "," << SM.getSpellingLineNumber(S) << "]";
      OS << ",\"mac\":1";
    }
  }

  std::string typeStr(QualType T) {
    if (T.isNull()) return "?";
    return T.getCanonicalType().getAsString(PP);
  }

  std::string declId(const Decl *D) {
    char buf[32];
    snprintf(buf, sizeof buf, "%llx", (unsigned long long)(uintptr_t)D->getCanonicalDecl());
    return buf;
  }

  std::string funcName(const FunctionDecl *FD) {
    std::string s;
    llvm::raw_string_ostream ss(s);
    FD->getNameForDiagnostic(ss, PP, true);
    ss.flush();
    return s;
  }

  void str(const char *key, llvm::StringRef v) { OS << ",\"" << key << "\":\"" << jsonEscape(v) << "\""; }

  void constVal(const Expr *E) {
    if (!E || E->isValueDependent() || E->isTypeDependent()) return;
    QualType T = E->getType();
    if (T.isNull()) return;
    if (!(T->isIntegralOrEnumerationType())) return;
    if (isa<IntegerLiteral>(E) || isa<CXXBoolLiteralExpr>(E) || isa<CharacterLiteral>(E)) return;
    Expr::EvalResult R;
    if (E->EvaluateAsInt(R, Ctx, Expr::SE_NoSideEffects)) {
      llvm::SmallString<32> s;
      R.Val.getInt().toString(s, 10);
      OS << ",\"cv\":" << s;
    }
  }

  void dumpVarDecl(const VarDecl *VD) {
    OS << "{\"k\":\"VarDecl\"";
    loc(VD->getLocation());
    str("name", VD->getName());
    str("id", declId(VD));
    str("t", typeStr(VD->getType()));
    if (VD->getType()->isReferenceType()) OS << ",\"ref\":1";
    if (VD->isStaticLocal()) OS << ",\"staticLocal\":1";
    if (VD->getTLSKind() != VarDecl::TLS_None) OS << ",\"tls\":1";
    if (VD->getType()->isVariableArrayType()) OS << ",\"vla\":1";
    if (const auto *AT = Ctx.getAsArrayType(VD->getType())) {
      // dump dimension expressions for VLAs / constant arrays
      OS << ",\"dims\":[";
      bool first = true;
      const ArrayType *cur = AT;
      while (cur) {
        if (!first) OS << ",";
        first = false;
        if (const auto *V = dyn_cast<VariableArrayType>(cur)) {
          dumpStmt(V->getSizeExpr());
        } else if (const auto *C = dyn_cast<ConstantArrayType>(cur)) {
          OS << "{\"k\":\"IntegerLiteral\",\"v\":" << C->getSize().getZExtValue() << ",\"t\":\"unsigned long\"}";
        } else
          OS << "null";
        cur = Ctx.getAsArrayType(cur->getElementType());
      }
      OS << "]";
    }
    if (VD->hasInit()) {
      OS << ",\"init\":";
      dumpStmt(VD->getInit());
      switch (VD->getInitStyle()) {
      case VarDecl::CInit: break;
      case VarDecl::CallInit: OS << ",\"initStyle\":\"call\""; break;
      case VarDecl::ListInit: OS << ",\"initStyle\":\"list\""; break;
      }
    }
    OS << "}";
  }

  void children(const Stmt *S) {
    OS << ",\"c\":[";
    bool first = true;
    for (const Stmt *C : S->children()) {
      if (!first) OS << ",";
      first = false;
      dumpStmt(C);
    }
    OS << "]";
  }

  void calleeInfo(const FunctionDecl *FD) {
    if (!FD) return;
    str("callee", funcName(FD));
    str("calleeId", declId(FD));
    if (const auto *MD = dyn_cast<CXXMethodDecl>(FD)) {
      if (MD->isVirtual()) OS << ",\"virtual\":1";
      if (MD->isStatic()) OS << ",\"staticMethod\":1";
      if (MD->isConst()) OS << ",\"constMethod\":1";
    }
    {
      std::string cs;
      for (const ParmVarDecl *P : FD->parameters()) {
        if (!cs.empty()) cs += ",";
        cs += typeStr(P->getType());
      }
      str("csig", cs);
    }
    // parameter reference kinds, useful for effect rules
    OS << ",\"pk\":\"";
    for (const ParmVarDecl *P : FD->parameters()) {
      QualType T = P->getType();
      if (T->isRValueReferenceType()) OS << "R";
      else if (T->isLValueReferenceType()) OS << (T->getPointeeType().isConstQualified() ? "c" : "L");
      else if (T->isPointerType()) OS << (T->getPointeeType().isConstQualified() ? "q" : "P");
      else OS << "v";
    }
    OS << "\"";
  }

  void dumpStmt(const Stmt *S) {
    if (!S) {
      OS << "null";
      return;
    }
    OS << "{\"k\":\"" << S->getStmtClassName() << "\"";
    loc(S->getBeginLoc());
    if (const auto *E = dyn_cast<Expr>(S)) {
      str("t", typeStr(E->getType()));
      if (E->isLValue()) OS << ",\"lv\":1";
      else if (E->isXValue()) OS << ",\"xv\":1";
    }

    if (const auto *DS = dyn_cast<DeclStmt>(S)) {
      OS << ",\"decls\":[";
      bool first = true;
      for (const Decl *D : DS->decls()) {
        if (!first) OS << ",";
        first = false;
        if (const auto *VD = dyn_cast<VarDecl>(D))
          dumpVarDecl(VD);
        else
          OS << "{\"k\":\"" << D->getDeclKindName() << "Decl\"}";
      }
      OS << "]}";
      return;
    }
    if (const auto *IL = dyn_cast<IntegerLiteral>(S)) {
      llvm::SmallString<32> s;
      IL->getValue().toString(s, 10, false);
      OS << ",\"v\":" << s << "}";
      return;
    }
    if (const auto *FL = dyn_cast<FloatingLiteral>(S)) {
      llvm::SmallString<64> s;
      FL->getValue().toString(s, 0, 0);
      str("v", s);
      // also the source spelling, for exact-decimal handling
      SourceLocation B = SM.getSpellingLoc(FL->getBeginLoc());
      bool inv = false;
      const char *p = SM.getCharacterData(B, &inv);
      if (!inv && p) {
        const char *q = p;
        while (*q && (isalnum((unsigned char)*q) || *q == '.' || ((*q == '+' || *q == '-') && q > p && (q[-1] == 'e' || q[-1] == 'E')))) q++;
        str("src", llvm::StringRef(p, q - p));
      }
      OS << "}";
      return;
    }
    if (const auto *BL = dyn_cast<CXXBoolLiteralExpr>(S)) {
      OS << ",\"v\":" << (BL->getValue() ? 1 : 0) << "}";
      return;
    }
    if (const auto *CL = dyn_cast<CharacterLiteral>(S)) {
      OS << ",\"v\":" << CL->getValue() << "}";
      return;
    }
    if (const auto *SL = dyn_cast<StringLiteral>(S)) {
      if (SL->isAscii() || SL->isUTF8()) str("v", SL->getString());
      OS << "}";
      return;
    }
    if (const auto *DRE = dyn_cast<DeclRefExpr>(S)) {
      const ValueDecl *D = DRE->getDecl();
      if (D->getDeclName().isIdentifier()) str("name", D->getName());
      else str("name", D->getNameAsString());
      str("id", declId(D));
      str("dk", D->getDeclKindName());
      if (const auto *VD = dyn_cast<VarDecl>(D)) {
        if (VD->hasGlobalStorage()) {
          OS << ",\"global\":1";
          str("qname", VD->getQualifiedNameAsString());
        }
        if (VD->getTLSKind() != VarDecl::TLS_None) OS << ",\"tls\":1";
      }
      if (const auto *FD = dyn_cast<FunctionDecl>(D)) str("qname", funcName(FD));
      if (const auto *ED = dyn_cast<EnumConstantDecl>(D)) {
        llvm::SmallString<32> s;
        ED->getInitVal().toString(s, 10);
        OS << ",\"cv\":" << s;
      } else
        constVal(DRE);
      OS << "}";
      return;
    }
    if (const auto *ME = dyn_cast<MemberExpr>(S)) {
      const ValueDecl *D = ME->getMemberDecl();
      str("member", D->getDeclName().isIdentifier() ? D->getName() : llvm::StringRef(D->getNameAsString()));
      str("id", declId(D));
      if (ME->isArrow()) OS << ",\"arrow\":1";
      if (isa<CXXMethodDecl>(D)) OS << ",\"method\":1";
      if (const auto *FD = dyn_cast<FieldDecl>(D)) {
        str("parent", FD->getParent()->getQualifiedNameAsString());
        if (FD->isMutable()) OS << ",\"mutable\":1";
        if (FD->getType()->isReferenceType()) OS << ",\"fref\":1";
        if (FD->getType()->isArrayType()) {
          if (const auto *CAT = Ctx.getAsConstantArrayType(FD->getType())) {
            OS << ",\"farr\":" << CAT->getSize().getZExtValue();
            // every extent of a multi-dimensional member array
            OS << ",\"fdims\":[" << CAT->getSize().getZExtValue();
            QualType ET = CAT->getElementType();
            while (const auto *Inner = Ctx.getAsConstantArrayType(ET)) {
              OS << "," << Inner->getSize().getZExtValue();
              ET = Inner->getElementType();
            }
            OS << "]";
          }
        }
      }
      if (const auto *VD = dyn_cast<VarDecl>(D)) { // static member accessed through object
        OS << ",\"staticMember\":1";
        str("qname", VD->getQualifiedNameAsString());
      }
      constVal(ME);
      children(S);
      OS << "}";
      return;
    }
    if (const auto *UO = dyn_cast<UnaryOperator>(S)) {
      str("op", UnaryOperator::getOpcodeStr(UO->getOpcode()));
      if (UO->isPostfix()) OS << ",\"postfix\":1";
      constVal(UO);
      children(S);
      OS << "}";
      return;
    }
    if (const auto *BO = dyn_cast<BinaryOperator>(S)) {
      str("op", BO->getOpcodeStr());
      if (const auto *CAO = dyn_cast<CompoundAssignOperator>(S))
        str("ct", typeStr(CAO->getComputationResultType()));
      constVal(BO);
      children(S);
      OS << "}";
      return;
    }
    if (const auto *CE = dyn_cast<CastExpr>(S)) {
      str("ck", CE->getCastKindName());
      constVal(CE);
      children(S);
      OS << "}";
      return;
    }
    if (const auto *CE = dyn_cast<CallExpr>(S)) {
      calleeInfo(CE->getDirectCallee());
      if (const auto *OC = dyn_cast<CXXOperatorCallExpr>(S))
        str("oop", getOperatorSpelling(OC->getOperator()));
      constVal(CE);
      // explicit callee + args (children() gives callee first, then args incl. default args)
      OS << ",\"fn\":";
      dumpStmt(CE->getCallee());
      OS << ",\"args\":[";
      for (unsigned i = 0; i < CE->getNumArgs(); i++) {
        if (i) OS << ",";
        dumpStmt(CE->getArg(i));
      }
      OS << "]}";
      return;
    }
    if (const auto *CC = dyn_cast<CXXConstructExpr>(S)) {
      const CXXConstructorDecl *CD = CC->getConstructor();
      calleeInfo(CD);
      str("record", CD->getParent()->getQualifiedNameAsString());
      if (CD->isCopyConstructor()) OS << ",\"copyCtor\":1";
      if (CD->isMoveConstructor()) OS << ",\"moveCtor\":1";
      if (CD->isDefaultConstructor()) OS << ",\"defaultCtor\":1";
      if (CC->isElidable()) OS << ",\"elidable\":1";
      if (CC->requiresZeroInitialization()) OS << ",\"zeroInit\":1"; // value-initialisation: members are zeroed first
      if (CC->isListInitialization()) OS << ",\"listInit\":1";
      OS << ",\"args\":[";
      for (unsigned i = 0; i < CC->getNumArgs(); i++) {
        if (i) OS << ",";
        dumpStmt(CC->getArg(i));
      }
      OS << "]}";
      return;
    }
    if (const auto *NE = dyn_cast<CXXNewExpr>(S)) {
      str("alloc", typeStr(NE->getAllocatedType()));
      if (NE->isArray()) {
        OS << ",\"array\":1,\"size\":";
        auto sz = NE->getArraySize();
        dumpStmt(sz ? *sz : nullptr);
      }
      if (NE->getNumPlacementArgs()) OS << ",\"placement\":" << NE->getNumPlacementArgs();
      if (NE->getOperatorNew()) str("opnew", funcName(NE->getOperatorNew()));
      if (NE->getInitializer()) {
        OS << ",\"init\":";
        dumpStmt(NE->getInitializer());
      }
      OS << "}";
      return;
    }
    if (const auto *DE = dyn_cast<CXXDeleteExpr>(S)) {
      if (DE->isArrayForm()) OS << ",\"array\":1";
      children(S);
      OS << "}";
      return;
    }
    if (const auto *IS = dyn_cast<IfStmt>(S)) {
      if (IS->isConstexpr()) OS << ",\"constexpr\":1";
      OS << ",\"cond\":";
      dumpStmt(IS->getCond());
      OS << ",\"then\":";
      dumpStmt(IS->getThen());
      OS << ",\"else\":";
      dumpStmt(IS->getElse());
      if (IS->getInit()) { OS << ",\"init\":"; dumpStmt(IS->getInit()); }
      if (IS->getConditionVariableDeclStmt()) { OS << ",\"condvar\":"; dumpStmt(IS->getConditionVariableDeclStmt()); }
      OS << "}";
      return;
    }
    if (const auto *FS = dyn_cast<ForStmt>(S)) {
      OS << ",\"init\":";
      dumpStmt(FS->getInit());
      OS << ",\"cond\":";
      dumpStmt(FS->getCond());
      OS << ",\"inc\":";
      dumpStmt(FS->getInc());
      OS << ",\"body\":";
      dumpStmt(FS->getBody());
      OS << "}";
      return;
    }
    if (const auto *RS = dyn_cast<CXXForRangeStmt>(S)) {
      OS << ",\"var\":";
      dumpVarDecl(RS->getLoopVariable());
      OS << ",\"range\":";
      dumpStmt(RS->getRangeInit());
      OS << ",\"body\":";
      dumpStmt(RS->getBody());
      OS << "}";
      return;
    }
    if (const auto *WS = dyn_cast<WhileStmt>(S)) {
      OS << ",\"cond\":";
      dumpStmt(WS->getCond());
      OS << ",\"body\":";
      dumpStmt(WS->getBody());
      OS << "}";
      return;
    }
    if (const auto *DS = dyn_cast<DoStmt>(S)) {
      OS << ",\"cond\":";
      dumpStmt(DS->getCond());
      OS << ",\"body\":";
      dumpStmt(DS->getBody());
      OS << "}";
      return;
    }
    if (const auto *SS = dyn_cast<SwitchStmt>(S)) {
      OS << ",\"cond\":";
      dumpStmt(SS->getCond());
      OS << ",\"body\":";
      dumpStmt(SS->getBody());
      OS << "}";
      return;
    }
    if (const auto *CS = dyn_cast<CaseStmt>(S)) {
      OS << ",\"lhs\":";
      dumpStmt(CS->getLHS());
      OS << ",\"sub\":";
      dumpStmt(CS->getSubStmt());
      OS << "}";
      return;
    }
    if (const auto *DS = dyn_cast<DefaultStmt>(S)) {
      OS << ",\"sub\":";
      dumpStmt(DS->getSubStmt());
      OS << "}";
      return;
    }
    if (const auto *CO = dyn_cast<ConditionalOperator>(S)) {
      OS << ",\"cond\":";
      dumpStmt(CO->getCond());
      OS << ",\"then\":";
      dumpStmt(CO->getTrueExpr());
      OS << ",\"else\":";
      dumpStmt(CO->getFalseExpr());
      constVal(CO);
      OS << "}";
      return;
    }
    if (const auto *LE = dyn_cast<LambdaExpr>(S)) {
      const CXXMethodDecl *MD = LE->getCallOperator();
      str("callop", declId(MD));
      OS << ",\"params\":[";
      bool first = true;
      for (const ParmVarDecl *P : MD->parameters()) {
        if (!first) OS << ",";
        first = false;
        dumpVarDecl(P);
      }
      OS << "],\"body\":";
      dumpStmt(LE->getBody());
      OS << "}";
      return;
    }
    if (const auto *DA = dyn_cast<CXXDefaultArgExpr>(S)) {
      OS << ",\"c\":[";
      dumpStmt(DA->getExpr());
      OS << "]}";
      return;
    }
    if (const auto *DI = dyn_cast<CXXDefaultInitExpr>(S)) {
      OS << ",\"c\":[";
      dumpStmt(DI->getExpr());
      OS << "]}";
      return;
    }
    if (const auto *UE = dyn_cast<UnaryExprOrTypeTraitExpr>(S)) {
      constVal(UE);
      OS << "}";
      return;
    }
    if (const auto *ILE = dyn_cast<InitListExpr>(S)) {
      const InitListExpr *Sem = ILE->isSemanticForm() ? ILE : (ILE->getSemanticForm() ? ILE->getSemanticForm() : ILE);
      OS << ",\"c\":[";
      for (unsigned i = 0; i < Sem->getNumInits(); i++) {
        if (i) OS << ",";
        dumpStmt(Sem->getInit(i));
      }
      OS << "]";
      if (const auto *RT = Sem->getType()->getAs<RecordType>()) {
        OS << ",\"fields\":[";
        bool first = true;
        if (const auto *CXR = dyn_cast<CXXRecordDecl>(RT->getDecl()))
          for (const auto &B : CXR->bases()) {
            if (!first) OS << ",";
            first = false;
            OS << "\"<base:" << jsonEscape(typeStr(B.getType())) << ">\"";
          }
        for (const FieldDecl *F : RT->getDecl()->fields()) {
          if (!first) OS << ",";
          first = false;
          OS << "\"" << jsonEscape(F->getName()) << "\"";
        }
        OS << "]";
      }
      OS << "}";
      return;
    }
    if (const auto *CE = dyn_cast<ConstantExpr>(S)) {
      constVal(CE);
      children(S);
      OS << "}";
      return;
    }
    if (const auto *SE = dyn_cast<SubstNonTypeTemplateParmExpr>(S)) {
      constVal(SE);
      children(S);
      OS << "}";
      return;
    }
    if (const auto *TS = dyn_cast<CXXTryStmt>(S)) {
      (void)TS;
      children(S);
      OS << "}";
      return;
    }
    if (const auto *E = dyn_cast<Expr>(S)) constVal(E);
    children(S);
    OS << "}";
  }

  void dumpFunction(const FunctionDecl *FD) {
    OS << "{\"name\":\"" << jsonEscape(funcName(FD)) << "\"";
    str("qname", FD->getQualifiedNameAsString());
    str("id", declId(FD));
    loc(FD->getLocation());
    str("ret", typeStr(FD->getReturnType()));
    if (FD->isTemplateInstantiation()) OS << ",\"instantiation\":1";
    if (FD->getStorageClass() == SC_Static) OS << ",\"static\":1";
    if (FD->isInAnonymousNamespace()) OS << ",\"anon\":1";
    if (const auto *TA = FD->getTemplateSpecializationArgs()) {
      OS << ",\"targs\":[";
      for (unsigned i = 0; i < TA->size(); i++) {
        if (i) OS << ",";
        std::string s;
        llvm::raw_string_ostream ss(s);
        TA->get(i).print(PP, ss, true);
        ss.flush();
        OS << "\"" << jsonEscape(s) << "\"";
      }
      OS << "]";
    }
    if (const auto *MD = dyn_cast<CXXMethodDecl>(FD)) {
      str("record", MD->getParent()->getQualifiedNameAsString());
      if (MD->isConst()) OS << ",\"const\":1";
      if (MD->isStatic()) OS << ",\"staticMethod\":1";
      if (MD->isVirtual()) OS << ",\"virtual\":1";
      switch (MD->getRefQualifier()) {
      case RQ_None: break;
      case RQ_LValue: OS << ",\"refq\":\"&\""; break;
      case RQ_RValue: OS << ",\"refq\":\"&&\""; break;
      }
      switch (MD->getAccess()) {
      case AS_public: OS << ",\"access\":\"public\""; break;
      case AS_protected: OS << ",\"access\":\"protected\""; break;
      case AS_private: OS << ",\"access\":\"private\""; break;
      default: break;
      }
      if (MD->isCopyAssignmentOperator()) OS << ",\"copyAssign\":1";
      if (MD->isMoveAssignmentOperator()) OS << ",\"moveAssign\":1";
      if (MD->getParent()->isLambda()) OS << ",\"lambda\":1";
    }
    if (isa<CXXDestructorDecl>(FD)) OS << ",\"dtor\":1";
    if (const auto *FPT = FD->getType()->getAs<FunctionProtoType>()) {
      // a non-throwing exception specification: an exception that tries to leave the function calls std::terminate
      if (!isUnresolvedExceptionSpec(FPT->getExceptionSpecType()) && FPT->isNothrow()) OS << ",\"nothrow\":1";
    }
    OS << ",\"params\":[";
    bool first = true;
    for (const ParmVarDecl *P : FD->parameters()) {
      if (!first) OS << ",";
      first = false;
      dumpVarDecl(P);
    }
    OS << "]";
    if (const auto *CD = dyn_cast<CXXConstructorDecl>(FD)) {
      OS << ",\"ctor\":1";
      if (CD->isCopyConstructor()) OS << ",\"copyCtor\":1";
      if (CD->isMoveConstructor()) OS << ",\"moveCtor\":1";
      if (CD->isDefaultConstructor()) OS << ",\"defaultCtor\":1";
      if (CD->isDelegatingConstructor()) OS << ",\"delegating\":1";
      OS << ",\"inits\":[";
      first = true;
      // in source (written) order is not the execution order: clang stores them in execution order
      for (const CXXCtorInitializer *I : CD->inits()) {
        if (!first) OS << ",";
        first = false;
        OS << "{";
        if (I->isAnyMemberInitializer()) {
          OS << "\"member\":\"" << jsonEscape(I->getAnyMember()->getName()) << "\"";
          OS << ",\"mt\":\"" << jsonEscape(typeStr(I->getAnyMember()->getType())) << "\"";
        } else if (I->isBaseInitializer())
          OS << "\"base\":\"" << jsonEscape(typeStr(QualType(I->getBaseClass(), 0))) << "\"";
        else if (I->isDelegatingInitializer())
          OS << "\"delegating\":1";
        if (I->isWritten()) OS << ",\"written\":1";
        OS << ",\"init\":";
        dumpStmt(I->getInit());
        OS << "}";
      }
      OS << "]";
    }
    OS << ",\"body\":";
    dumpStmt(FD->getBody());
    OS << "}";
  }

  void dumpGlobal(const VarDecl *VD, const FunctionDecl *owner) {
    OS << "{\"name\":\"" << jsonEscape(VD->getQualifiedNameAsString()) << "\"";
    str("id", declId(VD));
    loc(VD->getLocation());
    str("t", typeStr(VD->getType()));
    if (owner) str("function", funcName(owner));
    if (VD->getTLSKind() != VarDecl::TLS_None) OS << ",\"tls\":1";
    if (VD->isStaticLocal()) OS << ",\"staticLocal\":1";
    if (VD->isStaticDataMember()) OS << ",\"staticMember\":1";
    QualType T = VD->getType();
    if (T.isConstQualified()) OS << ",\"const\":1";
    if (VD->isConstexpr()) OS << ",\"constexpr\":1";
    if (T->isReferenceType()) OS << ",\"ref\":1";
    if (VD->isThisDeclarationADefinition() == VarDecl::Definition) OS << ",\"def\":1";
    // constant tables / scalars at namespace or class scope: keep the declaration so that reads can be evaluated
    if (T.isConstQualified() && !T->isReferenceType() && !VD->isStaticLocal() && VD->hasInit() &&
        VD->getTLSKind() == VarDecl::TLS_None && !VD->getInit()->isValueDependent()) {
      OS << ",\"decl\":";
      dumpVarDecl(VD);
    }
    // element record (strip arrays)
    QualType ET = T;
    while (const ArrayType *AT = Ctx.getAsArrayType(ET)) ET = AT->getElementType();
    if (const auto *RD = ET->getAsCXXRecordDecl()) {
      str("record", RD->getQualifiedNameAsString());
      if (RD->hasDefinition()) {
        OS << ",\"trivialDtor\":" << (RD->hasTrivialDestructor() ? 1 : 0);
        OS << ",\"userDtor\":" << (RD->hasUserDeclaredDestructor() ? 1 : 0);
      }
    }
    OS << "}";
  }

  void dumpRecord(const CXXRecordDecl *RD) {
    OS << "{\"name\":\"" << jsonEscape(RD->getQualifiedNameAsString()) << "\"";
    loc(RD->getLocation());
    if (const auto *SD = dyn_cast<ClassTemplateSpecializationDecl>(RD)) {
      std::string s;
      llvm::raw_string_ostream ss(s);
      SD->getNameForDiagnostic(ss, PP, true);
      ss.flush();
      str("spec", s);
    }
    OS << ",\"trivialDtor\":" << (RD->hasTrivialDestructor() ? 1 : 0);
    OS << ",\"userDtor\":" << (RD->hasUserDeclaredDestructor() ? 1 : 0);
    OS << ",\"fields\":[";
    bool first = true;
    for (const FieldDecl *F : RD->fields()) {
      if (!first) OS << ",";
      first = false;
      OS << "{\"name\":\"" << jsonEscape(F->getName()) << "\",\"t\":\"" << jsonEscape(typeStr(F->getType())) << "\"";
      if (F->isMutable()) OS << ",\"mutable\":1";
      switch (F->getAccess()) {
      case AS_public: OS << ",\"access\":\"public\""; break;
      case AS_protected: OS << ",\"access\":\"protected\""; break;
      case AS_private: OS << ",\"access\":\"private\""; break;
      default: break;
      }
      OS << "}";
    }
    OS << "],\"methods\":[";
    first = true;
    for (const CXXMethodDecl *M : RD->methods()) {
      if (M->isImplicit()) continue;
      if (!first) OS << ",";
      first = false;
      OS << "{\"name\":\"" << jsonEscape(funcName(M)) << "\"";
      if (M->isConst()) OS << ",\"const\":1";
      if (M->isVirtual()) OS << ",\"virtual\":1";
      switch (M->getAccess()) {
      case AS_public: OS << ",\"access\":\"public\""; break;
      case AS_protected: OS << ",\"access\":\"protected\""; break;
      case AS_private: OS << ",\"access\":\"private\""; break;
      default: break;
      }
      OS << "}";
    }
    OS << "]}";
  }
};

class Collector : public RecursiveASTVisitor<Collector> {
public:
  Dumper &D;
  std::vector<const FunctionDecl *> funcs;
  std::vector<std::pair<const VarDecl *, const FunctionDecl *>> globals;
  std::vector<const CXXRecordDecl *> records;
  std::set<const Decl *> seen;
  std::vector<const FunctionDecl *> stack;

  explicit Collector(Dumper &d) : D(d) {}
  bool shouldVisitTemplateInstantiations() const { return true; }
  bool shouldVisitImplicitCode() const { return false; }

  bool TraverseFunctionDecl(FunctionDecl *FD) { return withFn(FD, [&] { return RecursiveASTVisitor::TraverseFunctionDecl(FD); }); }
  bool TraverseCXXMethodDecl(CXXMethodDecl *FD) { return withFn(FD, [&] { return RecursiveASTVisitor::TraverseCXXMethodDecl(FD); }); }
  bool TraverseCXXConstructorDecl(CXXConstructorDecl *FD) { return withFn(FD, [&] { return RecursiveASTVisitor::TraverseCXXConstructorDecl(FD); }); }
  bool TraverseCXXDestructorDecl(CXXDestructorDecl *FD) { return withFn(FD, [&] { return RecursiveASTVisitor::TraverseCXXDestructorDecl(FD); }); }
  bool TraverseCXXConversionDecl(CXXConversionDecl *FD) { return withFn(FD, [&] { return RecursiveASTVisitor::TraverseCXXConversionDecl(FD); }); }

  template <typename F> bool withFn(FunctionDecl *FD, F f) {
    stack.push_back(FD);
    bool r = f();
    stack.pop_back();
    return r;
  }

  bool VisitFunctionDecl(FunctionDecl *FD) {
    if (!FD->doesThisDeclarationHaveABody()) return true;
    if (FD->isDependentContext()) return true;
    if (FD->isDefaulted() && !FD->getBody()) return true;
    if (!D.inPrefix(FD->getLocation())) return true;
    if (seen.insert(FD).second) funcs.push_back(FD);
    return true;
  }
  bool VisitVarDecl(VarDecl *VD) {
    if (isa<ParmVarDecl>(VD)) return true;
    if (!VD->hasGlobalStorage()) return true;
    if (VD->getDeclContext()->isDependentContext()) return true;
    if (!D.inPrefix(VD->getLocation())) return true;
    if (seen.insert(VD).second) {
      const FunctionDecl *owner = nullptr;
      if (VD->isStaticLocal() && !stack.empty()) owner = stack.back();
      globals.push_back({VD, owner});
    }
    return true;
  }
  bool VisitCXXRecordDecl(CXXRecordDecl *RD) {
    if (!RD->isThisDeclarationADefinition()) return true;
    if (RD->isDependentContext()) return true;
    if (RD->isLambda()) return true;
    if (!D.inPrefix(RD->getLocation())) return true;
    if (seen.insert(RD).second) records.push_back(RD);
    // implicitly defined, non-trivial default constructors (they default-construct the members of class type): the
    // definition the compiler generated is dumped like a written one
    for (CXXConstructorDecl *CD : RD->ctors()) {
      if (CD->isImplicit() && CD->isDefaultConstructor() && !CD->isTrivial() && !CD->isDeleted() && CD->doesThisDeclarationHaveABody() &&
          seen.insert(CD).second)
        funcs.push_back(CD);
    }
    return true;
  }
};

class Consumer : public ASTConsumer {
  std::string out;
  std::vector<std::string> prefixes;

public:
  Consumer(std::string o, std::vector<std::string> p) : out(std::move(o)), prefixes(std::move(p)) {}
  void HandleTranslationUnit(ASTContext &Ctx) override {
    if (Ctx.getDiagnostics().hasErrorOccurred()) {
      llvm::errs() << "sqdump: compilation errors, no dump written\n";
      return;
    }
    std::string body;
    llvm::raw_string_ostream BS(body);
    Dumper D(Ctx, BS, prefixes);
    Collector C(D);
    C.TraverseDecl(Ctx.getTranslationUnitDecl());
    BS << "\"functions\":[";
    bool first = true;
    for (const FunctionDecl *FD : C.funcs) {
      if (!first) BS << ",\n";
      first = false;
      D.dumpFunction(FD);
    }
    BS << "],\n\"globals\":[";
    first = true;
    for (auto &G : C.globals) {
      if (!first) BS << ",\n";
      first = false;
      D.dumpGlobal(G.first, G.second);
    }
    BS << "],\n\"records\":[";
    first = true;
    for (const CXXRecordDecl *RD : C.records) {
      if (!first) BS << ",\n";
      first = false;
      D.dumpRecord(RD);
    }
    BS << "]";
    BS.flush();
    std::error_code EC;
    llvm::raw_fd_ostream OS(out, EC);
    if (EC) {
      llvm::errs() << "sqdump: cannot open " << out << ": " << EC.message() << "\n";
      return;
    }
    OS << "{\"files\":[";
    for (unsigned i = 0; i < D.files.size(); i++) {
      if (i) OS << ",";
      OS << "\"" << jsonEscape(D.files[i]) << "\"";
    }
    OS << "],\n" << body << "}\n";
  }
};

class Action : public PluginASTAction {
  std::string out = "sqdump.json";
  std::vector<std::string> prefixes;

protected:
  std::unique_ptr<ASTConsumer> CreateASTConsumer(CompilerInstance &, llvm::StringRef) override {
    if (prefixes.empty()) prefixes.push_back("/repo/");
    return std::make_unique<Consumer>(out, prefixes);
  }
  bool ParseArgs(const CompilerInstance &, const std::vector<std::string> &args) override {
    for (auto &a : args) {
      if (a.rfind("out=", 0) == 0) out = a.substr(4);
      else if (a.rfind("prefix=", 0) == 0) prefixes.push_back(a.substr(7));
    }
    return true;
  }
  ActionType getActionType() override { return ReplaceAction; }
};

} // namespace

static FrontendPluginRegistry::Add<Action> X("sqdump", "dump compact resolved AST as JSON");
