#!/bin/sh
# builds the sqdump clang plugin into /verif/build (offline; clang 14 + llvm-14 dev files are pre-installed)
set -e
DIR="$(cd "$(dirname "$0")/.." && pwd)"
mkdir -p "$DIR/build" "$DIR/evidence"
clang++ $(llvm-config-14 --cxxflags) -fno-rtti -fPIC -shared "$DIR/tools/sqdump.cc" -o "$DIR/build/sqdump.so" \
  /usr/lib/llvm-14/lib/libclang-cpp.so.14 /usr/lib/llvm-14/lib/libLLVM-14.so
echo "sqdump plugin built: $DIR/build/sqdump.so"
