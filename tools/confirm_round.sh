#!/bin/bash
# usage: confirm_round.sh <round letter> <property ids...> : confirm SEED/1..3 of each /tmp/seedwt/<P><round> in parallel
R=$1; shift
for P in "$@"; do
  for k in 1 2 3; do
    [ -f /tmp/seedwt/${P}${R}/SEED/$k/patch.diff ] && /verif/tools/confirm_only.sh /tmp/seedwt/${P}${R}/SEED/$k ${P}-${R}$k &
  done
done
wait
