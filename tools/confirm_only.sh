#!/bin/bash
# usage: confirm_only.sh <patch dir containing patch.diff demo.cpp meta.json> <seed id>
# Confirms a seeded change on a private scratch copy of /repo HEAD under /tmp (build, test suite with the change,
# demonstration with and without it) and stores it as /verif/seeded/<id>/.  Checks are run separately (tools/regress.sh).
SRC=$1; ID=$2
W=/tmp/sqv_confirm/$ID
rm -rf $W; mkdir -p $W
git -C /repo archive HEAD | tar -x -C $W
cp /repo/Makefile /repo/settings.mk $W/; cp /repo/include/SQuIDS/version.h $W/include/SQuIDS/; cp /repo/test/env_vars.sh $W/test/ 2>/dev/null
mkdir -p $W/lib
cd $W
EXTRA_LIBS="-lSQuIDS -lgsl -lgslcblas -lm"
demo() { g++ -std=c++11 -pthread -I$W/include $SRC/demo.cpp -L$W/lib $EXTRA_LIBS -latomic -o $W/demo >/dev/null 2>$W/demo_build.log || { echo build-failed; return; }; LD_LIBRARY_PATH=$W/lib timeout 600 $W/demo >$W/demo_out.txt 2>&1; echo $?; }
git init -q . 2>/dev/null
git apply $SRC/patch.diff || { echo "$ID PATCH-FAILED"; exit 3; }
make -j2 >/dev/null 2>$W/make.log || { echo "$ID BUILD-FAILED"; exit 3; }
TESTS=$(make test 2>&1 | grep -E "Tests:.*passes" | tail -1)
RW=$(demo)
git apply -R $SRC/patch.diff
make clean >/dev/null 2>&1; make -j2 >/dev/null 2>&1
RO=$(demo)
echo "$ID tests='$TESTS' demo_with=$RW demo_without=$RO"
if [ "$RW" != "0" ] && [ "$RW" != "build-failed" ] && [ "$RO" = "0" ] && echo "$TESTS" | grep -q "24 passes, 0 failures"; then
  OUT=/verif/seeded/$ID
  mkdir -p $OUT
  cp $SRC/patch.diff $SRC/demo.cpp $OUT/
  cp $SRC/meta.json $OUT/agent_meta.json
  echo "$TESTS" > $OUT/tests_with_change.txt
  echo "" > $OUT/check_results.txt
  echo "demo_with=$RW demo_without=$RO" >> $OUT/check_results.txt
  echo "$ID CONFIRMED"
else
  echo "$ID REJECTED"
fi
rm -rf $W
