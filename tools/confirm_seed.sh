#!/bin/sh
export SQV_EVIDENCE_DIR=/tmp/sqv_mutant_evidence  # never overwrite the committed evidence with a mutant run
# usage: confirm_seed.sh <worktree name under /tmp/seedwt> <seed id>
# 1. confirms in the scratch worktree: builds, 24 tests pass, demo fails with the change and passes without it
# 2. copies patch/demo/meta to /verif/seeded/<id>/
# 3. applies the patch to /repo, runs every check, records exit codes, reverts /repo
W=/tmp/seedwt/$1; ID=$2; OUT=/verif/seeded/$ID
set -e
cd $W
git diff -- include src > SEED/patch.cur; test -s SEED/patch.diff || cp SEED/patch.cur SEED/patch.diff
cmp -s SEED/patch.cur SEED/patch.diff || { echo 'WARNING: worktree diff differs from SEED/patch.diff; resetting worktree to patch.diff'; git checkout -- include src; git apply SEED/patch.diff; }
make clean >/dev/null 2>&1 || true
echo "== with change: build + tests"
make 2>&1 | grep -v conda | tail -1
T=$(make test 2>&1 | grep -v conda | tail -1); echo "$T"
g++ -std=c++11 -pthread -I$W/include SEED/demo.cpp -L$W/lib -lSQuIDS -lgsl -lgslcblas -lm -o SEED/demo 2>&1 | grep -v conda | head -3
set +e
LD_LIBRARY_PATH=$W/lib ./SEED/demo > SEED/demo_with.txt 2>&1; RW=$?
set -e
echo "demo with change: exit $RW"
git apply -R SEED/patch.diff
make clean >/dev/null 2>&1 || true
make 2>&1 | grep -v conda | tail -1
g++ -std=c++11 -pthread -I$W/include SEED/demo.cpp -L$W/lib -lSQuIDS -lgsl -lgslcblas -lm -o SEED/demo 2>&1 | grep -v conda | head -3
set +e
LD_LIBRARY_PATH=$W/lib ./SEED/demo > SEED/demo_without.txt 2>&1; RO=$?
set -e
echo "demo without change: exit $RO"
git apply SEED/patch.diff
mkdir -p $OUT
cp SEED/patch.diff $OUT/patch.diff
cp SEED/demo.cpp $OUT/demo.cpp
cp SEED/meta.json $OUT/agent_meta.json 2>/dev/null || true
echo "$T" > $OUT/tests_with_change.txt
set +e
echo "== checks against /repo with the patch applied"
cd /repo && git apply $OUT/patch.diff || { echo "PATCH DOES NOT APPLY"; exit 3; }
cd /verif
RES=""
for p in $(python3 -c "import json;print(' '.join(c['property_id'] for c in json.load(open('MANIFEST.json'))['checks']))"); do
  ./check $p > /tmp/seedwt/chk_$p.txt 2>&1; rc=$?
  RES="$RES $p:$rc"
  if [ $rc -ne 0 ]; then echo "--- $p rc=$rc"; grep -E "expected|ANALYSIS-BROKEN" /tmp/seedwt/chk_$p.txt | cut -c1-300 | head -3; fi
done
cd /repo && git checkout -- . && git status --short | grep -v '^??' || true
echo "RESULT $ID demo_with=$RW demo_without=$RO tests='$T' checks:$RES"
echo "$RES" > $OUT/check_results.txt
echo "demo_with=$RW demo_without=$RO" >> $OUT/check_results.txt
